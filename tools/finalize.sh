#!/bin/bash
# Regenerate evidence (thorough tier, then quick tier is what `vp check` runs) and MANIFEST.json, and validate both against the schemas.
# usage: tools/finalize.sh [quick|thorough]   (default: thorough)
tier=${1:-thorough}
cd /verif
rm -rf evidence/violations
fail=0
for i in $(seq -w 1 20); do
  ( /venv/bin/python -m sa.check C$i --tier $tier > /tmp/final_C$i.txt 2>&1; echo "C$i exit=$? $(tail -1 /tmp/final_C$i.txt)" ) &
  if [ $((10#$i % 8)) -eq 0 ]; then wait; fi
done
wait
/venv/bin/python tools/gen_manifest.py
python3-vt - <<'PY'
import json, jsonschema, glob
m = json.load(open('/verif/MANIFEST.json'))
jsonschema.validate(m, json.load(open('/root/.vp/MANIFEST.schema.json')))
es = json.load(open('/root/.vp/EVIDENCE.schema.json'))
n = 0
for f in sorted(glob.glob('/verif/evidence/C*.json')):
    jsonschema.validate(json.load(open(f)), es); n += 1
print("MANIFEST valid;", n, "evidence files valid;", "checks:", len(m.get("checks", m.get("properties", []))))
PY
