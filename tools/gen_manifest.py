#!/venv/bin/python
"""Writes /verif/MANIFEST.json from the table below (kept in one place so it stays consistent)."""
import json
import os

HERE = os.path.dirname(os.path.dirname(os.path.abspath(__file__)))

CHECKS = {
    "C05": dict(
        technique="LALR automaton construction from source + precedence decision-relation comparison (static)",
        text="Decides the property for the operator fragment and all expression trees: the LALR automaton is rebuilt "
             "from the grammar source with SLY's conflict resolution replicated; every (operator production, look-ahead) "
             "decision must equal the OData 5.1.1.14 table; productions must have operator-precedence shape; actions must "
             "put operator/left/right in the right fields; parentheses/unit productions pass values through; operator "
             "tokens must have their keyword language and may not be excluded by a look-behind where the grammar expects them; `ast.X(...)` is a new X holding "
             "what it was given (a hand-written __new__ is evaluated); the image of the actions puts a node / a list of nodes / a scalar into each field as declared, None only where Optional. Finite and complete - no depth bound.",
        note="Trusted: SLY applies the tables as an LR driver; SLY's resolution rules as read from sly/yacc.py. "
             "Oracle: OData 4.01 Part 2 5.1.1.14.",
        ref="5 C05"),
}

CHECKS["C10"] = dict(
    technique="effect/exception analysis of all parser callbacks by abstract interpretation over the parser's image (static)",
    text="Decides, for every input string, the part of the property that lives in this repository's code: every lexer "
         "action, every (grammar action, production) pair, both error hooks and the exception constructors are evaluated "
         "abstractly over the parser's own image; each must perform only total operations, raise only ODataException "
         "subclasses (exception constructors are evaluated with every kind of token payload and against an oracle of partial "
         "standard-library calls), the hooks must raise on every path, no recursion depth may depend on the input, `while` loops "
         "must be worklist traversals shown to terminate by structural descent, token regexes must not be exponentially "
         "ambiguous (exact EDA test on the rule's NFA) and the start symbol's value is always a node.",
    note="Trusted: SLY's tokenizer/driver loops terminate given raising hooks; CPython limits other than recursion depth. "
         "Determinism is C20.",
    ref="5 C10")
CHECKS["C11"] = dict(
    technique="table/oracle comparison + exhaustive abstract evaluation of _function_call over the (name, namespace, count) grid (static)",
    text="Decides the property: ODATA_FUNCTIONS folded from source equals the OData 4.01 built-in table; _function_call is "
         "evaluated on a grid that exhausts its control flow (every row, near-miss names, namespaces, counts 0..max+2) and "
         "must accept/raise exactly as the table dictates, with exception fields (name, min, max, given) checked through "
         "the evaluated constructors; call/list productions must keep identifier and arguments in source order.",
    note="Oracle: OData 4.01 Part 2 5.1.1.5-5.1.1.13 function list. Trusted: SLY symbol naming (replicated).",
    ref="5 C11")

CHECKS["C14"] = dict(
    technique="abstract interpretation of every AliasRewriter handler per node class + traversal-position analysis (static)",
    text="Decides exact-substitution structurally for every AST and alias map: the handlers that can return a table entry "
         "are exactly Identifier/Attribute; hit returns the entry without descending, miss rebuilds Attribute(visit(owner), attr); "
         "no naming position (Call.func, NamedParam.name, Lambda.identifier) reaches a substituting handler and lambda-bound "
         "variables are shielded; everything else is the generic rebuild, whose completeness (every contained node visited once, every "
         "field rebuilt from the visited child) is checked here as well as in C16; the table is parse(key)->parse(value) built "
         "once with supplied-or-fresh lexer/parser; nodes compare structurally over all their fields (C16's schema rules), which the table lookup relies on. "
         "The bijection/inverse clause is implied only as far as exact substitution goes.",
    note="Relies on C16 (generic transformer) and on dataclass equality/hash for table lookup. Known finding F23.",
    ref="5 C14")
CHECKS["C16"] = dict(
    technique="schema analysis + abstract interpretation of generic_visit/visit per node class and visitor; mutation scan (static)",
    text="Decides the property by structural induction over local facts for every node class of the schema: field container "
         "shapes are traversable; both generic_visit implementations call self.visit exactly once per contained node in field "
         "then list order; the transformer returns type(node)(**fields) with fresh lists; visit dispatches on 'visit_'+class "
         "name with generic_visit as default for all shipped visitors; node classes are frozen dataclasses with generated "
         "equality over all fields, built as declared (no __new__ that hands back another object); a handler's exception leaves visit() unchanged (no try around "
         "the handler call that re-dispatches); visit() itself never raises, also with any value of the attributes it keeps on the instance; no function stores to/deletes from/mutates a node parameter or its lists.",
    note="Trusted: dataclasses semantics (frozen, eq). Alias tracking in the mutation scan is intra-procedural.",
    ref="5 C16")
CHECKS["C17"] = dict(
    technique="abstract interpretation of IdentifierStripper over the shape domain of Attribute nodes (static)",
    text="Decides the property for all expressions and variable names: per shape of Attribute (owner equals the variable / "
         "other identifier / longer path) the handler must return Identifier(attr) / the node unchanged / "
         "Attribute(visit(owner), attr); the decision must compare the whole owner with the variable; no other kind is "
         "special-cased; the shorthand constructs the stripper with its first argument and returns visit(expression). "
         "Induction over path depth plus C16 gives every other node unchanged.",
    note="Relies on C16 for the inherited generic rebuild.", ref="5 C17")
CHECKS["C18"] = dict(
    technique="exhaustive abstract evaluation of infer_return_type/infer_type/typecheck over name, kind and type grids vs oracle (static)",
    text="Decides 'never a wrong type': infer_return_type is evaluated for every built-in, near-miss and foreign-namespace "
         "name (answers must equal the OData return type, be argument-derived within the minimum arity, or unknown); "
         "infer_type for every node class (unknown or the actual type; never definite for data-dependent kinds); typecheck "
         "raises ArgumentTypeException exactly when the inferred type is known and not allowed.",
    note="Oracle: OData 4.01 function return types.", ref="5 C18")
CHECKS["C20"] = dict(
    technique="effect analysis of all lexer/parser callbacks (abstract interpretation events) + syntactic shared-state rules + SLY driver shape re-verification (static)",
    text="Decides reuse/determinism as far as this repository's code is concerned, for every history: no callback stores on "
         "the instance, class, module or any object not created by the current parse; no mutable defaults, memoisation, "
         "global/nonlocal; lists inside nodes are fresh; nothing iterates a set (hash seed); supplied lexer/parser are used "
         "exactly when given and their truthiness is safe; the installed SLY driver still resets per-call state; the rewriter's constructor leaves a supplied "
   "lexer/parser as it found it on every exit; the error hook reads no attribute SLY assigns only inside its loop; memoisation only of pure functions of "
   "scalars with immutable results.",
    note="Trusted: CPython, SLY internals beyond the re-verified reset shape.", ref="5 C20")


def _c(pid, technique, text, note):
    CHECKS[pid] = dict(technique=technique, text=text, note=note, ref="5 " + pid)


_c("C01", "template extraction by abstract interpretation of the SQLite visitor + precedence/meaning-table rules on templates (static)",
   "Decides the structural clauses of the property (necessary conditions; breaking one breaks the behaviour for a nameable filter), "
   "not SQLite's evaluation: grouping preserved under SQLite precedence for every admissible (template, hole, child template) triple; "
   "well-formed templates, no placeholder, operands once and in order; operators spelled by SQLite tokens of the same meaning; eq/ne null "
   "rendered with IS [NOT] on either side; LIKE patterns escaped with an ESCAPE clause; function handlers match the meaning table "
   "(argument flow, index shifts, strftime codes, wildcard sides); literal values reach the visitor as written (token-action rule); no "
   "class- or module-level cache whose key does not determine the value; every Compare template keeps the node's own comparator (IS / IS NOT only "
   "for eq / ne); the text of a string constant is rewritten by quote doubling only. Induction over tree depth lifts the triples to all nestings.",
   "Not decided: three-valued logic, collation, numeric/date function results in SQLite. Oracles: SQLite precedence table and function "
   "meanings (data in sa/props/c01.py, sa/sqltok.py). Known findings F07, F08.")
_c("C02", "constructor-term extraction by abstract interpretation of the Django visitor + meaning-table comparison (static)",
   "Decides the structural clauses: operator -> Django construct mapping with operand order; custom NotEqual lookup; COMPARISON_FLIP "
   "involution; eq/ne null polarity and refusal for other comparators; every djangofunc_* against the meaning table; promotion to Q "
   "exactly at depth 0; every Case/When the visitor builds yields true for matching and false for other rows; shorthand annotates before filtering on the incoming queryset; substring family type-checks both operands; literal "
   "values as written (token-action rule) and the shorthand chain parse(text) -> visit -> one filter without shared state (caches, mutated "
   "mutable defaults); operand order for every operator, comparison operands unwrapped; visit_Call hands the call's arguments to the handler; the typing rules of C18 (typecheck / infer_type) as a precondition.",
   "Not decided: Django's SQL compilation and execution for all table contents.")
_c("C03", "constructor-term extraction by abstract interpretation of both SQLAlchemy visitors + sibling cross-check (static)",
   "Decides the structural clauses: operator mapping and operand order; case-normalised reads of case-preserving literal text; escape "
   "discipline and type checks of contains/startswith/endswith; function handlers against the meaning table; ORM and Core resolve to the "
   "same handler for everything but field resolution, and both visit_Compare build op(left, right); null on either side of eq/ne goes "
   "through the IS form; literal values as written (token-action rule); both shorthands are parse(text) -> visit -> exactly one filter, "
   "with no container shared between calls whose key does not determine the stored value and no mutated mutable default; every literal gets a "
   "parameter of its own (no fixed-name bindparam); the typing rules of C18 as a precondition.",
   "Not decided: what the compiled statements return; run-time equality of the three entry styles. Known finding F18.")
_c("C04", "logical normalisation of the terms built by visit_CollectionLambda + installed-library signature reading + Core F shape facts (static)",
   "Decides the structural clauses: paths are left-nested and lambda owners are full paths in the parser's image; any(p)/any()/all(p) are "
   "built as exists/exists/not-exists-not on both ORMs (keyword arguments count only if the installed constructor declares them); the "
   "lambda body is made relative and translated by a sub-visitor on the related model; the Django EXISTS subquery is filtered by {reversed path: OuterRef('pk')}; to-one joins are outer joins; Django path spelling; "
   "no state shared between visitor instances (cache keys must determine the cached value); an owner built from a path of unknown depth keeps "
   "every segment; a join is skipped only for the very relationship already joined (C15's rules); the joins a lambda body needs are applied.",
   "Not decided: per-parent correlation, many-to-many semantics, run-time agreement of both ORMs. Known finding F32.")
_c("C06", "regular-language inclusion / shadowing / maximal-munch on DFAs of the ordered token rules over an exact alphabet partition (static)",
   "Decides the recognition clause for all spellings: for each literal kind and identifiers, the ABNF language is included in its rule, no "
   "earlier rule matches a prefix of a well-formed token in any follow context the grammar allows, the rule matches exactly the token, the "
   "action applies exactly the documented normalisation, DURATION_PATTERN covers the lexer's duration language with groups in order and "
   "the documented 365.25/30.44 constants; no token is excluded by a look-behind where the grammar expects it; the Python value of every other "
   "single-token literal is the standard-library / dateutil conversion of its own text (wrapped in a lossy function such as int(): reported; any other hand-written conversion ends the run without a verdict) and "
   "exists for every spelling the lexer accepts. Quick uses ASCII + curated Unicode representatives, thorough all code points.",
   "Not decided: numeric/calendar correctness of int/float/fromisoformat/isoparse/UUID/timedelta (library code).")
_c("C07", "taint analysis over extracted SQL templates (quote regions, transform chains, token alphabets) for the three dialects (static)",
   "Decides the property modulo SQL lexical facts: every string value sits in exactly one '...' region with quote doubling last, every "
   "identifier value in one \"...\" region with a quote-free alphabet, every other raw value has a safe alphabet, no child SQL or "
   "untraceable text inside quotes, alias only inside a quoted identifier. Templates compose only through holes, so the facts lift to all filters.",
   "Trusted: '' is the only escape in SQL strings; \" delimits identifiers.")
_c("C08", "taint analysis over the constructor terms of the Django/SQLAlchemy visitors (binding constructors vs text sinks) (static)",
   "Decides the property modulo 'Value/literal/bindparam/GEOSGeometry/Q(**{k: v}) bind': every read of a literal's value in any handler's "
   "returned term sits directly in a binding constructor and never under a text sink or string formatting; the annotation-name helper "
   "stays unreachable with value-bearing expressions on the installed Django; no literal_execute / fixed-name parameters; the package's own lookup keeps "
   "every operand's parameters; function handlers do not take a translated operand's `.value` apart.",
   "Trusted: the binding behaviour of the listed constructors; unknown constructors give exit 2, never a verdict.")
_c("C09", "template extraction by abstract interpretation of the three SQL visitors + well-formedness/precedence/once-in-place rules (static)",
   "Decides, per dialect and table-alias configuration: templates are well-formed (balanced, operands present, CASE skeleton, non-empty, raw "
   "values are SQL tokens for every accepted spelling); no hole resolves to a missing handler; grouping preserved for every admissible triple "
   "under SQL-92 and Trino (standard), Trino (Athena), SQLite; every operand/argument exactly once, operands in source order; alias only "
   "qualifies identifiers; Compare templates keep the node's comparator; string constants are rewritten by quote doubling only.",
   "Not decided: acceptance by a real Presto/SQL-92 parser. Known findings F07, F09.")
_c("C12", "exhaustiveness over dispatch-reachable kinds + outcome analysis of every handler path of the seven visitors (static)",
   "Decides: every (visitor, kind) reachable through self.visit from a filter's root has a handler or a refusing generic_visit; handlers name "
   "real kinds and reachable functions; function dispatch uses the full dotted name; arities fit signatures; every reachable raise is a "
   "library exception (or the documented NotImplementedError of Core); attribute reads are defined on every kind that reaches them for "
   "well-typed arguments (OData 4.01 collection overloads included); SQLAlchemy field lookups are guarded so unknown names become "
   "InvalidFieldException; no AST node or node list sits in a result as itself; no shared cache with an under-determined key; names written in "
   "the filter are not used as Python keyword names unchecked; visit_Call hands the call's arguments to the handler; a name read that nothing can have bound, text combined with a non-text operator and isinstance() against an instance count as the NameError/TypeError they raise; the typing rules of C18 as a precondition.",
   "Not decided: exceptions raised inside Django/SQLAlchemy at compile time. Known findings F27, F28.")
_c("C13", "printer templates vs the parser's LALR decision relation, lexer-action inverses and token languages (static)",
   "Decides the property for the parser's image: parentheses wherever the automaton would regroup, for every (parent operator, slot, child "
   "operator) triple; literal templates are the inverse of the lexer actions with the right fixed prefix/suffix; singleton-list syntax; every "
   "reachable kind handled and every handler path returns text; every child the parser gives a node is printed exactly once; the fixed text around the children of paths, calls, lambdas and named parameters is the construct's concrete syntax; fields hold what they declare; separators lex as the grammar's tokens. Structural induction over depth.",
   "Relies on C05 for the decision relation being the specification's.")
_c("C15", "builder-chain analysis of the shorthands by abstract interpretation + class-body analysis of GenericFunction registration (static)",
   "Decides: results are built from the incoming query by additive builders only, ending in exactly one filter of the translated clause; "
   "collected joins are applied (outer) before the filter or skipped only if present (a per-relationship test, not a positional cut such as dropwhile); Django annotations applied before filter; every "
   "GenericFunction subclass declares its own package (registration rule re-read from the installed SQLAlchemy); no module-level write into "
   "SQLAlchemy's namespace, no compile hook or event listener on SQLAlchemy's own classes; no mutated mutable default in the back-end packages; no path of a shorthand ends in a NameError/TypeError/AttributeError of its own statements.",
   "Not decided: row-level equality with the base query, SQLAlchemy's join de-duplication, legacy Query internals.")
_c("C19", "DFA closure checks on token rules + grammar position checks + case-sensitivity analysis of every consumer of case-variant text (static)",
   "Decides: whitespace-bearing token languages are closed under replacing whitespace runs; the lexer is case-insensitive throughout; "
   "optional whitespace is allowed at every advertised position; every consumer of text that keeps the user's case (Boolean, DateTime T/Z, "
   "Float exponent) in ast.py and in all back ends is case-insensitive (the conversion a py_val hands the text to is read off the evaluated term); no "
   "token depends on whether a blank stands before it (look-behind).",
   "Trusted: dateutil treats t/z like T/Z; float() and SQL numeric literals accept e/E.")

NOT_YET = {}

PENDING_REASON = "check not built yet in this session (work in progress; see DESIGN.md section 8)"
ALL = [f"C{n:02d}" for n in range(1, 21)]


def main():
    checks = []
    for pid in ALL:
        if pid not in CHECKS:
            continue
        c = CHECKS[pid]
        checks.append({
            "property_id": pid,
            "quick_cmd": f"/venv/bin/python -m sa.check {pid} --tier quick",
            "thorough_cmd": f"/venv/bin/python -m sa.check {pid} --tier thorough",
            "evidence_file": f"/verif/evidence/{pid}.json",
            "replay_cmd_template": "/venv/bin/python -m sa.replay {path}",
            "engine": "sa",
            "level_claimed": {"category": "other", "text": c["text"], "design_ref": c["ref"]},
            "level_note": c["note"],
            "technique": c["technique"],
        })
    na = [{"property_id": pid, "reason": NOT_YET.get(pid, PENDING_REASON)} for pid in ALL if pid not in CHECKS]
    manifest = {
        "version": 1,
        "setup_cmd": "/venv/bin/python -c \"import sa.check\"",
        "hooks": {
            "guard": "ODATA_QUERY_VERIF",
            "enable": "none needed: static analysis reads /repo's source and never instruments it",
            "baseline_off_cmd": "cd /repo && /venv/bin/python -m pytest -ra -q -p no:cacheprovider --timeout=900 --continue-on-collection-errors",
            "source_commits": [],
            "add_only": True,
        },
        "engines": [{
            "name": "sa", "path": "/verif/sa", "serves_properties": [c["property_id"] for c in checks],
            "kind_free_text": "repository-specific static analyser: source model (imports/MRO/constants), grammar model, "
                              "LR automaton, regex automata, parser-image kind flow, path-enumerating abstract interpreter "
                              "over kind sets; rules per property in sa/props/",
        }],
        "checks": checks,
        "not_applicable": na,
        "notes": "Every check reads /repo/odata_query/*.py afresh; exit 2 + ANALYSIS-ERROR means the analysis could not "
                 "decide (never a verdict). Known findings: /verif/known_findings.json.",
    }
    with open(os.path.join(HERE, "MANIFEST.json"), "w") as f:
        json.dump(manifest, f, indent=1)
    print(f"{len(checks)} checks, {len(na)} not_applicable")


if __name__ == "__main__":
    main()
