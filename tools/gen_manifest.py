#!/venv/bin/python
"""Writes /verif/MANIFEST.json from the table below (kept in one place so it stays consistent)."""
import json
import os

HERE = os.path.dirname(os.path.dirname(os.path.abspath(__file__)))

CHECKS = {
    "C05": dict(
        technique="LALR automaton construction from source + precedence decision-relation comparison (static)",
        text="Decides the property for the operator fragment and all expression trees: the LALR automaton is rebuilt "
             "from the grammar source with SLY's conflict resolution replicated; every (operator production, look-ahead) "
             "decision must equal the OData 5.1.1.14 table; productions must have operator-precedence shape; actions must "
             "put operator/left/right in the right fields; parentheses/unit productions pass values through; operator "
             "tokens must have their keyword language. Finite and complete - no depth bound.",
        note="Trusted: SLY applies the tables as an LR driver; SLY's resolution rules as read from sly/yacc.py. "
             "Oracle: OData 4.01 Part 2 5.1.1.14.",
        ref="5 C05"),
}

CHECKS["C10"] = dict(
    technique="effect/exception analysis of all parser callbacks by abstract interpretation over the parser's image (static)",
    text="Decides, for every input string, the part of the property that lives in this repository's code: every lexer "
         "action, every (grammar action, production) pair, both error hooks and the exception constructors are evaluated "
         "abstractly over the parser's own image; each must perform only total operations, raise only ODataException "
         "subclasses, the hooks must raise on every path, no recursion/loop depth may depend on the input, token regexes "
         "must be free of catastrophic-backtracking shapes and the start symbol's value is always a node.",
    note="Trusted: SLY's tokenizer/driver loops terminate given raising hooks; CPython limits other than recursion depth. "
         "Determinism is C20.",
    ref="5 C10")
CHECKS["C11"] = dict(
    technique="table/oracle comparison + exhaustive abstract evaluation of _function_call over the (name, namespace, count) grid (static)",
    text="Decides the property: ODATA_FUNCTIONS folded from source equals the OData 4.01 built-in table; _function_call is "
         "evaluated on a grid that exhausts its control flow (every row, near-miss names, namespaces, counts 0..max+2) and "
         "must accept/raise exactly as the table dictates, with exception fields (name, min, max, given) checked through "
         "the evaluated constructors; call/list productions must keep identifier and arguments in source order.",
    note="Oracle: OData 4.01 Part 2 5.1.1.5-5.1.1.13 function list. Trusted: SLY symbol naming (replicated).",
    ref="5 C11")

NOT_YET = {}

PENDING_REASON = "check not built yet in this session (work in progress; see DESIGN.md section 8)"
ALL = [f"C{n:02d}" for n in range(1, 21)]


def main():
    checks = []
    for pid in ALL:
        if pid not in CHECKS:
            continue
        c = CHECKS[pid]
        checks.append({
            "property_id": pid,
            "quick_cmd": f"/venv/bin/python -m sa.check {pid} --tier quick",
            "thorough_cmd": f"/venv/bin/python -m sa.check {pid} --tier thorough",
            "evidence_file": f"/verif/evidence/{pid}.json",
            "replay_cmd_template": "/venv/bin/python -m sa.replay {path}",
            "engine": "sa",
            "level_claimed": {"category": "other", "text": c["text"], "design_ref": c["ref"]},
            "level_note": c["note"],
            "technique": c["technique"],
        })
    na = [{"property_id": pid, "reason": NOT_YET.get(pid, PENDING_REASON)} for pid in ALL if pid not in CHECKS]
    manifest = {
        "version": 1,
        "setup_cmd": "/venv/bin/python -c \"import sa.check\"",
        "hooks": {
            "guard": "ODATA_QUERY_VERIF",
            "enable": "none needed: static analysis reads /repo's source and never instruments it",
            "baseline_off_cmd": "cd /repo && /venv/bin/python -m pytest -ra -q -p no:cacheprovider --timeout=900 --continue-on-collection-errors",
            "source_commits": [],
            "add_only": True,
        },
        "engines": [{
            "name": "sa", "path": "/verif/sa", "serves_properties": [c["property_id"] for c in checks],
            "kind_free_text": "repository-specific static analyser: source model (imports/MRO/constants), grammar model, "
                              "LR automaton, regex automata, parser-image kind flow, path-enumerating abstract interpreter "
                              "over kind sets; rules per property in sa/props/",
        }],
        "checks": checks,
        "not_applicable": na,
        "notes": "Every check reads /repo/odata_query/*.py afresh; exit 2 + ANALYSIS-ERROR means the analysis could not "
                 "decide (never a verdict). Known findings: /verif/known_findings.json.",
    }
    with open(os.path.join(HERE, "MANIFEST.json"), "w") as f:
        json.dump(manifest, f, indent=1)
    print(f"{len(checks)} checks, {len(na)} not_applicable")


if __name__ == "__main__":
    main()
