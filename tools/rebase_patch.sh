#!/bin/bash
# Rebase a stored patch (written against /repo commit <base>, default a2d4235) onto the current /repo HEAD.
# usage: rebase_patch.sh <patch.diff> [base]   -> rewrites the file in place when the rebase is conflict-free
set -e
P=$(readlink -f "$1"); BASE=${2:-a2d4235}
T=$(mktemp -d /tmp/rebase_XXXX)
git -C /repo worktree add -q --detach $T $BASE
cd $T
if ! git apply "$P" 2>/dev/null; then echo "does not apply on $BASE: $P"; cd /; git -C /repo worktree remove --force $T; exit 2; fi
git add -A; git -c user.email=x@x -c user.name=x commit -qm patch
if git -c user.email=x@x -c user.name=x rebase -q $(git -C /repo rev-parse HEAD) 2>/dev/null; then
  git diff $(git -C /repo rev-parse HEAD) HEAD > "$P"; echo "rebased: $P"
else
  git rebase --abort 2>/dev/null || true; echo "CONFLICT: $P"
fi
cd /; git -C /repo worktree remove --force $T
