#!/venv/bin/python
"""Self-test of the checkers against the seeded changes kept under /verif/seeded (not a registered check).

  seeded_eval.py [C04-1 C08-1 ...] [--tier quick|thorough] [--no-suite]
  seeded_eval.py --benign [C05-1 ...] [--no-suite]     behaviour-preserving edits under /verif/benign: every check must stay silent

For every /verif/seeded/<id>/ : apply patch.diff to a scratch copy of /repo (never to /repo itself), confirm the pinned
suite still passes and that demo.py fails with / passes without the change, run all 20 checks against the scratch copy
and record in meta.json which checks raise an alarm (exit 1), which cannot finish (exit 2) and which stay silent.
Prints one summary line per seed; exit 1 if a seed is caught by no check.
"""
import json
import os
import re
import subprocess
import sys
from concurrent.futures import ThreadPoolExecutor

HERE = os.path.dirname(os.path.abspath(__file__))
NO_DEMO = "--no-demo" in sys.argv  # keep the demonstration result recorded at import time
SEEDED = os.path.join(os.path.dirname(HERE), "seeded")


def needs(notes: str) -> str:
    m = re.search(r"(?im)^[-*\s]*(needed input|needs|what it needs[^:]*|trigger[^:]*)\s*:\s*(.+(?:\n(?![-*#]).+)*)", notes)
    return " ".join(m.group(2).split())[:600] if m else ""


def evaluate(sid: str, tier: str, suite: bool):
    d = os.path.join(SEEDED, sid)
    cmd = ["/venv/bin/python", os.path.join(HERE, "seedtest.py"), os.path.join(d, "patch.diff"), "--tier", tier]
    if not NO_DEMO:
        cmd += ["--demo", os.path.join(d, "demo.py")]
    if suite:
        cmd.append("--suite")
    r = subprocess.run(cmd, capture_output=True, text=True)
    out = r.stdout
    try:
        res = json.loads(out[out.index("{"):], strict=False)
    except Exception:
        return sid, None, out[-400:] + r.stderr[-400:]
    notes = open(os.path.join(d, "notes.md")).read() if os.path.exists(os.path.join(d, "notes.md")) else ""
    meta_p = os.path.join(d, "meta.json")
    meta = json.load(open(meta_p)) if os.path.exists(meta_p) else {}
    prev_suite = next((r for r in meta.get("ran", []) if r.startswith("pinned suite") and "None" not in r), None)
    suite_line = "pinned suite on the scratch copy: " + str(res.get("suite")) if res.get("suite") else (prev_suite or "pinned suite: not re-run")
    meta.update({
        "id": sid,
        "property": sid.split("-")[0],
        "origin": "fresh sub-agent given only the property text and a scratch worktree of /repo; confirmed by tools/seeded_eval.py",
        "needs_to_manifest": meta.get("needs_to_manifest") or needs(notes),
        "ran": [
            "patch -p1 < patch.diff on a scratch copy of /repo (tools/seedtest.py)",
            suite_line,
            (f"demo.py with the change: exit {res.get('demo_with_change')}; without: exit {res.get('demo_without_change')}" if not NO_DEMO else
             next((r for r in meta.get("ran", []) if r.startswith("demo.py")), "demo.py: not re-run")),
            f"all 20 checks ({tier}) with ODATA_REPO=<scratch copy>",
        ],
        "demo_output": res.get("demo_output") if not NO_DEMO else meta.get("demo_output"),
        "caught_by": {p: [re.sub(r"^\S+:\d+: ", "", l)[:260] for l in ls[:2]] for p, ls in sorted(res.get("alarms", {}).items())},
        "analysis_error_in": {p: (e[0][:200] if e else "") for p, e in sorted(res.get("errors", {}).items())},
        "silent": res.get("silent", []),
    })
    json.dump(meta, open(meta_p, "w"), indent=1)
    return sid, meta, None


def evaluate_benign(sid: str, tier: str, suite: bool):
    d = os.path.join(os.path.dirname(SEEDED), "benign", sid)
    cmd = ["/venv/bin/python", os.path.join(HERE, "seedtest.py"), os.path.join(d, "patch.diff"), "--tier", tier]
    if suite:
        cmd.append("--suite")
    r = subprocess.run(cmd, capture_output=True, text=True)
    out = r.stdout
    try:
        res = json.loads(out[out.index("{"):], strict=False)
    except Exception:
        return sid, None, out[-400:] + r.stderr[-400:]
    meta_p = os.path.join(d, "meta.json")
    meta = json.load(open(meta_p)) if os.path.exists(meta_p) else {}
    prev_suite = meta.get("suite")
    meta.update({
        "id": sid, "written_for": sid.split("-")[0], "kind": "behaviour-preserving edit (every check must stay silent)",
        "origin": "fresh sub-agent given only the property text and a scratch worktree of /repo; equivalence argument in notes.md",
        "suite": res.get("suite") or prev_suite,
        "alarms": {p: [re.sub(r"^\S+:\d+: ", "", l)[:260] for l in ls[:2]] for p, ls in sorted(res.get("alarms", {}).items())},
        "analysis_error_in": {p: (e[0][:200] if e else "") for p, e in sorted(res.get("errors", {}).items())},
    })
    json.dump(meta, open(meta_p, "w"), indent=1)
    return sid, meta, None


def main_benign(argv):
    tier = argv[argv.index("--tier") + 1] if "--tier" in argv else "quick"
    root = os.path.join(os.path.dirname(SEEDED), "benign")
    ids = [a for a in argv[1:] if re.match(r"C\d\d-\d+$", a)] or sorted(os.listdir(root))
    bad = 0
    with ThreadPoolExecutor(max_workers=2) as ex:
        for sid, meta, err in ex.map(lambda s: evaluate_benign(s, tier, "--no-suite" not in argv), ids):
            if meta is None:
                print(f"{sid}: EVALUATION FAILED {err}")
                bad += 1
                continue
            print(f"{sid}: suite={str(meta.get('suite'))[:34]} alarms={sorted(meta['alarms'])} errors={sorted(meta['analysis_error_in'])}")
            if meta["alarms"] or meta["analysis_error_in"]:
                bad += 1
    return 1 if bad else 0


def main(argv):
    if "--benign" in argv:
        return main_benign(argv)
    tier = argv[argv.index("--tier") + 1] if "--tier" in argv else "quick"
    ids = [a for a in argv[1:] if re.match(r"C\d\d-\d+$", a)] or sorted(os.listdir(SEEDED))
    ids = [i for i in ids if os.path.isdir(os.path.join(SEEDED, i))]
    missed = 0
    with ThreadPoolExecutor(max_workers=2) as ex:
        for sid, meta, err in ex.map(lambda s: evaluate(s, tier, "--no-suite" not in argv), ids):
            if meta is None:
                print(f"{sid}: EVALUATION FAILED {err}")
                missed += 1
                continue
            ok = meta["ran"][1].find("648 passed") >= 0 if "--no-suite" not in argv else True
            demo_ok = "exit 1; without: exit 0" in meta["ran"][2]
            own = meta["property"] in meta["caught_by"]
            print(f"{sid}: suite_ok={ok} demo_ok={demo_ok} caught_by={sorted(meta['caught_by'])} own={own} errors={sorted(meta['analysis_error_in'])}")
            if not meta["caught_by"]:
                missed += 1
    return 1 if missed else 0


if __name__ == "__main__":
    sys.exit(main(sys.argv))
