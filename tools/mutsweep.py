#!/venv/bin/python
"""Self-test helper (not a registered check): a sweep of small syntactic mutants of the library.

  mutsweep.py [--files odata_query/sql/base.py,...] [--max N] [--seed S] [--jobs J] [--out FILE] [--ops cmp,bool,...]

Every mutant is one `ast`-computed edit (comparison flipped, and/or swapped, `not` dropped, condition negated, small constant
changed, two call arguments swapped, a statement dropped, a return value dropped, +/- swapped) applied to a scratch copy of
/repo. Mutants that the pinned suite kills are uninteresting (tests can settle them) and are dropped; for the survivors all 20
checks run against the scratch copy. One JSON line per surviving mutant: which checks alarm, which stop without a verdict.
Survivors that no check reports are either equivalent mutants or gaps: they are triaged by hand (see DESIGN.md 9.8).
"""
import ast
import copy
import json
import os
import random
import re
import shutil
import subprocess
import sys
import tempfile
from concurrent.futures import ThreadPoolExecutor

REPO = "/repo"
SA_ROOT = os.environ.get("SA_ROOT", "/verif")  # a development copy of the checks can be swept instead
ALL = [f"C{i:02d}" for i in range(1, 21)]
CMP = {ast.Eq: ast.NotEq, ast.NotEq: ast.Eq, ast.Lt: ast.LtE, ast.LtE: ast.Lt, ast.Gt: ast.GtE, ast.GtE: ast.Gt,
       ast.In: ast.NotIn, ast.NotIn: ast.In, ast.Is: ast.IsNot, ast.IsNot: ast.Is}


RX_PLUS = r"(?<!\\)([\])a-zA-Z0-9.])\+"
RX_OPT = r"(?<!\\)([\])a-zA-Z0-9.}])\?(?![:=!<P])"
ATTRSWAP = {"left": "right", "right": "left", "lhs": "rhs", "rhs": "lhs", "owner": "attr", "name": "namespace", "identifier": "expression",
            "expression": "identifier", "func": "args"}


def is_docstring(parent, node):
    return isinstance(parent, ast.Expr) and isinstance(node, ast.Constant) and isinstance(node.value, str)


def sites(tree):
    """Yield (op, description, mutate(tree_copy_node) ) by position index in ast.walk order."""
    out = []
    parents = {}
    for p in ast.walk(tree):
        for c in ast.iter_child_nodes(p):
            parents[c] = p
    in_func = set()
    for f in ast.walk(tree):
        if isinstance(f, (ast.FunctionDef, ast.AsyncFunctionDef)):
            for n in ast.walk(f):
                in_func.add(id(n))
    for idx, n in enumerate(ast.walk(tree)):
        line = getattr(n, "lineno", 0)
        if isinstance(n, ast.Compare) and len(n.ops) == 1 and type(n.ops[0]) in CMP:
            out.append((idx, "cmp", line, f"{type(n.ops[0]).__name__}->{CMP[type(n.ops[0])].__name__}"))
        if isinstance(n, ast.BoolOp):
            out.append((idx, "bool", line, "and<->or"))
        if isinstance(n, ast.UnaryOp) and isinstance(n.op, ast.Not):
            out.append((idx, "not", line, "drop not"))
        if isinstance(n, (ast.If, ast.IfExp, ast.While)) and not (isinstance(n.test, ast.Constant)):
            out.append((idx, "negif", line, "negate condition"))
        if isinstance(n, ast.Constant) and id(n) in in_func and not is_docstring(parents.get(n), n):
            if isinstance(n.value, bool):
                out.append((idx, "const", line, f"{n.value}->{not n.value}"))
            elif isinstance(n.value, int) and -2 <= n.value <= 12:
                out.append((idx, "const", line, f"{n.value}->{n.value + 1}"))
        if isinstance(n, ast.Constant) and isinstance(n.value, str) and n.value and not is_docstring(parents.get(n), n) \
                and not isinstance(parents.get(n), (ast.arg, ast.AnnAssign, ast.Subscript)) and line:
            out.append((idx, "strdel", line, f"string constant loses its first character: {n.value[:30]!r}"))
            if " " in n.value.strip() or n.value != n.value.strip():
                out.append((idx, "strspace", line, f"string constant loses its blanks: {n.value[:30]!r}"))
            if any(c in n.value for c in "'%_\\"):
                out.append((idx, "strmeta", line, f"string constant loses its quote/wildcard/backslash characters: {n.value[:30]!r}"))
        if isinstance(n, ast.Dict) and len(n.keys) >= 2:
            for j in range(len(n.keys)):
                out.append((idx, f"dictdrop{j}", line, f"dict display loses entry {j}"))
        if isinstance(n, (ast.Tuple, ast.List, ast.Set)) and len(n.elts) >= 2 and isinstance(getattr(n, "ctx", ast.Load()), ast.Load) \
                and not isinstance(parents.get(n), (ast.Subscript, ast.arg, ast.AnnAssign)):
            for j in range(len(n.elts)):
                out.append((idx, f"listdrop{j}", line, f"sequence display loses element {j}"))
        if isinstance(n, ast.Attribute) and isinstance(n.ctx, ast.Load) and n.attr in ATTRSWAP:
            out.append((idx, "attrswap", line, f".{n.attr} -> .{ATTRSWAP[n.attr]}"))
        if isinstance(n, ast.Call) and len(n.args) >= 2 and not any(isinstance(a, ast.Starred) for a in n.args[:2]) and id(n) in in_func:
            out.append((idx, "swapargs", line, "swap first two arguments"))
        if isinstance(n, (ast.Expr, ast.Assign, ast.AugAssign)) and id(n) in in_func and not (isinstance(n, ast.Expr) and isinstance(n.value, ast.Constant)):
            out.append((idx, "dropstmt", line, "statement -> pass"))
        if isinstance(n, ast.Return) and n.value is not None and not (isinstance(n.value, ast.Constant) and n.value.value is None):
            out.append((idx, "retnone", line, "return <x> -> return None"))
        if isinstance(n, ast.BinOp) and isinstance(n.op, (ast.Add, ast.Sub)) and id(n) in in_func:
            out.append((idx, "addsub", line, "+ <-> -"))
        if isinstance(n, ast.ExceptHandler) and n.type is not None:
            out.append((idx, "except", line, "handler re-raises"))
        # sweep 6 operators
        if isinstance(n, ast.Name) and isinstance(n.ctx, ast.Load) and id(n) in in_func:
            f = parents.get(n)
            while f is not None and not isinstance(f, (ast.FunctionDef, ast.AsyncFunctionDef, ast.Lambda)):
                f = parents.get(f)
            if isinstance(f, (ast.FunctionDef, ast.AsyncFunctionDef)):
                names = sorted({a.arg for a in f.args.args + f.args.kwonlyargs if a.arg not in ("self", "cls")}
                               | {m.id for m in ast.walk(f) if isinstance(m, ast.Name) and isinstance(m.ctx, ast.Store)})
                if n.id in names and len(names) >= 2:
                    other = names[(names.index(n.id) + 1) % len(names)]
                    out.append((idx, "namesub", line, f"name {n.id} -> {other}"))
        if isinstance(n, ast.Call) and n.keywords and any(k.arg for k in n.keywords) and id(n) in in_func:
            for j, k in enumerate(n.keywords):
                if k.arg:
                    out.append((idx, f"kwdrop{j}", line, f"keyword argument {k.arg}= dropped"))
        if isinstance(n, ast.Constant) and isinstance(n.value, str) and not is_docstring(parents.get(n), n) and line \
                and not isinstance(parents.get(n), (ast.arg, ast.AnnAssign, ast.Subscript)):
            if re.search(RX_PLUS, n.value) and any(c in n.value for c in "[]()\\"):
                out.append((idx, "rxplus", line, f"regex: first + becomes *: {n.value[:30]!r}"))
            if re.search(RX_OPT, n.value) and any(c in n.value for c in "[]()\\"):
                out.append((idx, "rxopt", line, f"regex: first ? dropped: {n.value[:30]!r}"))
            if n.value.isalpha() and n.value.swapcase() != n.value and len(n.value) <= 12:
                out.append((idx, "strcase", line, f"string constant changes case: {n.value!r}"))
        if isinstance(n, ast.Return) and isinstance(n.value, ast.Call) and len(n.value.args) == 1 and not n.value.keywords \
                and not isinstance(n.value.args[0], ast.Starred):
            out.append((idx, "unwrap", line, "return f(x) -> return x"))
        if isinstance(n, ast.If) and not n.orelse and id(n) in in_func:
            out.append((idx, "iftrue", line, "if c: -> if True:"))
        if isinstance(n, (ast.FunctionDef,)) and n.decorator_list and id(n) in in_func | {id(n)}:
            for j, d in enumerate(n.decorator_list):
                if not (isinstance(d, ast.Call) and isinstance(d.func, ast.Name) and d.func.id == "_"):
                    out.append((idx, f"decodrop{j}", line, f"decorator {ast.unparse(d)[:30]} dropped"))
        if isinstance(n, ast.ClassDef) and len(n.bases) >= 2:
            out.append((idx, "baseswap", line, "first two base classes exchanged"))
    return out


def apply(tree, idx, op):
    t = copy.deepcopy(tree)
    n = list(ast.walk(t))[idx]
    if op == "cmp":
        n.ops = [CMP[type(n.ops[0])]()]
    elif op == "bool":
        n.op = ast.Or() if isinstance(n.op, ast.And) else ast.And()
    elif op == "not":
        # replace `not x` by `x`: find the parent and substitute
        for p in ast.walk(t):
            for f, v in ast.iter_fields(p):
                if v is n:
                    setattr(p, f, n.operand)
                elif isinstance(v, list) and any(x is n for x in v):
                    setattr(p, f, [n.operand if x is n else x for x in v])
    elif op == "negif":
        n.test = ast.UnaryOp(op=ast.Not(), operand=n.test)
    elif op == "const":
        n.value = (not n.value) if isinstance(n.value, bool) else n.value + 1
    elif op == "strdel":
        n.value = n.value[1:] if len(n.value) > 1 else "x"
    elif op == "strspace":
        n.value = n.value.replace(" ", "")
    elif op == "strmeta":
        n.value = "".join(c for c in n.value if c not in "'%_\\") or "x"
    elif op.startswith("dictdrop"):
        j = int(op[8:])
        del n.keys[j]
        del n.values[j]
    elif op.startswith("listdrop"):
        del n.elts[int(op[8:])]
    elif op == "attrswap":
        n.attr = ATTRSWAP[n.attr]
    elif op == "swapargs":
        n.args[0], n.args[1] = n.args[1], n.args[0]
    elif op == "dropstmt":
        for p in ast.walk(t):
            for f, v in ast.iter_fields(p):
                if isinstance(v, list) and any(x is n for x in v):
                    setattr(p, f, [ast.copy_location(ast.Pass(), n) if x is n else x for x in v])
    elif op == "retnone":
        n.value = ast.Constant(value=None)
    elif op == "addsub":
        n.op = ast.Sub() if isinstance(n.op, ast.Add) else ast.Add()
    elif op == "except":
        n.body = [ast.Raise(exc=None, cause=None)]
    elif op == "namesub":
        f = None
        par = {}
        for p in ast.walk(t):
            for c in ast.iter_child_nodes(p):
                par[c] = p
        f = par.get(n)
        while not isinstance(f, (ast.FunctionDef, ast.AsyncFunctionDef)):
            f = par.get(f)
        names = sorted({a.arg for a in f.args.args + f.args.kwonlyargs if a.arg not in ("self", "cls")}
                       | {m.id for m in ast.walk(f) if isinstance(m, ast.Name) and isinstance(m.ctx, ast.Store)})
        n.id = names[(names.index(n.id) + 1) % len(names)]
    elif op.startswith("kwdrop"):
        del n.keywords[int(op[6:])]
    elif op == "rxplus":
        n.value = re.sub(RX_PLUS, lambda m: m.group(1) + "*", n.value, count=1)
    elif op == "rxopt":
        n.value = re.sub(RX_OPT, lambda m: m.group(1), n.value, count=1)
    elif op == "strcase":
        n.value = n.value.swapcase()
    elif op == "unwrap":
        n.value = n.value.args[0]
    elif op == "iftrue":
        n.test = ast.Constant(value=True)
    elif op.startswith("decodrop"):
        del n.decorator_list[int(op[8:])]
    elif op == "baseswap":
        n.bases[0], n.bases[1] = n.bases[1], n.bases[0]
    ast.fix_missing_locations(t)
    return ast.unparse(t)


def run_one(job):
    rel, idx, op, line, desc, src = job
    tmp = tempfile.mkdtemp(prefix="oq_ms_")
    try:
        shutil.copytree(REPO, os.path.join(tmp, "r"), ignore=shutil.ignore_patterns(".git", "__pycache__", ".pytest_cache", "docs"))
        root = os.path.join(tmp, "r")
        open(os.path.join(root, rel), "w").write(src)
        r = subprocess.run(["/venv/bin/python", "-m", "pytest", "-q", "-p", "no:cacheprovider", "--no-cov", "--continue-on-collection-errors"],
                           cwd=root, capture_output=True, text=True, timeout=600)
        tail = (r.stdout.strip().splitlines() or [""])[-1]
        import re as _re
        if "648 passed" not in tail or _re.search(r"\b\d+ failed", tail):
            return {"file": rel, "line": line, "op": op, "desc": desc, "killed_by_suite": True}
        env = dict(os.environ, ODATA_REPO=root, PYTHONPATH=SA_ROOT, SA_EVIDENCE_DIR=os.path.join(tmp, "ev"))
        res = {"file": rel, "line": line, "op": op, "desc": desc, "killed_by_suite": False, "alarms": {}, "errors": {}, "silent": []}

        def chk(p):
            rr = subprocess.run(["/venv/bin/python", "-m", "sa.check", p], cwd=SA_ROOT, env=env, capture_output=True, text=True, timeout=1800)
            lines = [l for l in rr.stdout.splitlines() if not l.startswith("WARNING conda")]
            return p, rr.returncode, lines

        with ThreadPoolExecutor(max_workers=10) as ex:
            for p, rc, lines in ex.map(chk, ALL):
                if rc == 1:
                    res["alarms"][p] = [l[:240] for l in lines if f"[{p}/" in l and not l.startswith("KNOWN-FINDING")][:2]
                elif rc == 2:
                    res["errors"][p] = [l[:200] for l in lines if l.startswith("ANALYSIS-ERROR")][:1]
                else:
                    res["silent"].append(p)
        # the changed source line, for triage
        try:
            res["new_line"] = src.splitlines()[line - 1].strip()[:160] if line else ""
        except IndexError:
            res["new_line"] = ""
        return res
    except Exception as e:  # noqa
        return {"file": rel, "line": line, "op": op, "desc": desc, "error": repr(e)}
    finally:
        shutil.rmtree(tmp, ignore_errors=True)


def main(argv):
    def opt(name, default):
        return argv[argv.index(name) + 1] if name in argv else default
    files = opt("--files", "")
    mx = int(opt("--max", "60"))
    seed = int(opt("--seed", "1"))
    jobs = int(opt("--jobs", "2"))
    out = opt("--out", "/tmp/mutsweep.jsonl")
    ops = set(opt("--ops", "cmp,bool,not,negif,const,swapargs,dropstmt,retnone,addsub,except,strdel,strspace,strmeta,dictdrop,listdrop,attrswap").split(","))
    rels = [f for f in files.split(",") if f]
    if not rels:
        for d, _, fs in os.walk(os.path.join(REPO, "odata_query")):
            for f in fs:
                if f.endswith(".py"):
                    rels.append(os.path.relpath(os.path.join(d, f), REPO))
    cands = []
    for rel in sorted(rels):
        src = open(os.path.join(REPO, rel)).read()
        tree = ast.parse(src)
        for idx, op, line, desc in sites(tree):
            if op in ops or op.rstrip("0123456789") in ops:
                cands.append((rel, idx, op, line, desc))
    random.Random(seed).shuffle(cands)
    cands = cands[:mx]
    todo = []
    for rel, idx, op, line, desc in cands:
        tree = ast.parse(open(os.path.join(REPO, rel)).read())
        try:
            new = apply(tree, idx, op)
            compile(new, rel, "exec")
        except Exception:
            continue
        # line numbers of the unparsed source differ from the original: locate the changed line by diffing
        base = ast.unparse(tree).splitlines()
        nl = new.splitlines()
        changed = next((i + 1 for i, (a, b) in enumerate(zip(base, nl)) if a != b), 0)
        todo.append((rel, idx, op, changed, f"{desc} (orig line {line})", new))
    print(f"{len(todo)} mutants", flush=True)
    n_surv = n_caught = 0
    with open(out, "a") as f, ThreadPoolExecutor(max_workers=jobs) as ex:
        for res in ex.map(run_one, todo):
            if res.get("killed_by_suite"):
                continue
            f.write(json.dumps(res) + "\n")
            f.flush()
            if "error" in res:
                continue
            n_surv += 1
            caught = bool(res["alarms"])
            n_caught += caught
            print(f"{'CAUGHT ' if caught else ('NOVERD ' if res['errors'] else 'SILENT ')} {res['file']}:{res['line']} {res['op']} {res['desc']} :: {res.get('new_line', '')} "
                  f":: alarms={sorted(res['alarms'])} errors={sorted(res['errors'])}", flush=True)
    print(f"survivors of the suite: {n_surv}; reported by some check: {n_caught}")


if __name__ == "__main__":
    main(sys.argv)
