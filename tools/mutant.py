#!/venv/bin/python
"""Self-test helper (not a registered check): apply a textual edit to a scratch copy of the repo's
package, run the named checks against it (ODATA_REPO), print their verdicts, remove the copy.

usage: mutant.py <relative file> <old> <new> <Cxx>[,<Cyy>...] [--tier thorough] [--tests]
"""
import os
import shutil
import subprocess
import sys
import tempfile


def run_mutant(relfile: str, old: str, new: str, props, tier="quick", tests=False, quiet=False, count=1):
    tmp = tempfile.mkdtemp(prefix="oq_mut_")
    try:
        shutil.copytree("/repo/odata_query", os.path.join(tmp, "odata_query"))
        if tests:
            shutil.copytree("/repo/tests", os.path.join(tmp, "tests"))
            for f in ("setup.cfg", "pyproject.toml", "pytest.ini", "tox.ini"):
                if os.path.exists(os.path.join("/repo", f)):
                    shutil.copy(os.path.join("/repo", f), tmp)
        path = os.path.join(tmp, relfile)
        src = open(path).read()
        if src.count(old) < 1:
            return {"error": f"pattern not found in {relfile}: {old[:60]!r}"}
        src = src.replace(old, new, count)
        open(path, "w").write(src)
        try:
            compile(src, path, "exec")
        except SyntaxError as e:
            return {"error": f"mutant does not compile: {e}"}
        out = {}
        env = dict(os.environ, ODATA_REPO=tmp, PYTHONPATH="/verif", SA_EVIDENCE_DIR=os.path.join(tmp, "_evidence"))
        for p in props:
            r = subprocess.run(["/venv/bin/python", "-m", "sa.check", p, "--tier", tier], cwd="/verif", env=env,
                               capture_output=True, text=True)
            lines = [l for l in r.stdout.splitlines() if not l.startswith("WARNING conda")]
            viol = [l for l in lines if l.startswith("VIOLATION")]
            detail = [l for l in lines if "[" + p + "/" in l and not l.startswith("KNOWN-FINDING")][:4]
            err = [l for l in lines if l.startswith("ANALYSIS-ERROR")]
            out[p] = {"rc": r.returncode, "violations": len(viol), "detail": detail, "error": err,
                      "stderr": r.stderr.strip().splitlines()[-3:] if r.returncode == 2 else []}
        if tests:
            r = subprocess.run(["/venv/bin/python", "-m", "pytest", "-q", "-x", "-p", "no:cacheprovider", "--no-cov",
                                "--continue-on-collection-errors", "tests"], cwd=tmp, capture_output=True, text=True)
            out["tests"] = r.stdout.strip().splitlines()[-1:] if r.stdout else [r.stderr[-200:]]
        return out
    finally:
        shutil.rmtree(tmp, ignore_errors=True)


def main(argv):
    if len(argv) < 5:
        print(__doc__)
        return 2
    relfile, old, new, props = argv[1], argv[2], argv[3], argv[4].split(",")
    tier = "thorough" if "--tier" in argv and argv[argv.index("--tier") + 1] == "thorough" else "quick"
    res = run_mutant(relfile, old.encode().decode("unicode_escape"), new.encode().decode("unicode_escape"), props, tier,
                     "--tests" in argv)
    for k, v in res.items():
        print(k, v)
    return 0


if __name__ == "__main__":
    sys.exit(main(sys.argv))
