#!/venv/bin/python
"""Maintenance helper (not a registered check): run the checks, list failing obligations as candidate
known-findings entries (JSON on stdout). The entries are reviewed by hand before they go into
known_findings.json - the checks never write that file."""
import json, os, subprocess, sys
sys.path.insert(0, "/verif")
from sa.report import Ctx, load_known
import importlib
from sa.env import Env

def main(props):
    out = []
    for prop in props:
        ctx = Ctx(prop, "quick", 0)
        env = Env("quick")
        mod = importlib.import_module(f"sa.props.{prop.lower()}")
        mod.run(ctx, env)
        for o in ctx.obligations:
            if not o.ok:
                e = {"property": prop, "rule": o.rule, "key": o.key, "detail": o.detail[:300], "witness": o.witness, "where": o.where}
                if "variants" in o.extra:
                    e["variants"] = o.extra["variants"]
                out.append(e)
    json.dump(out, sys.stdout, indent=1)

if __name__ == "__main__":
    main(sys.argv[1:])
