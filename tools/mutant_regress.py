#!/venv/bin/python
"""Self-test helper (not a registered check): the mutants of the mutation sweeps that showed a gap (DESIGN.md 9.10), kept as
regression cases. Each selftest/mutants/<name>.diff is applied to a scratch copy of /repo (outside /repo and /verif, removed
afterwards); the checks named in EXPECT.json must exit 1 on it. Prints one line per mutant; exit 1 if any expectation fails."""
import json
import os
import shutil
import subprocess
import sys
import tempfile

HERE = os.path.dirname(os.path.dirname(os.path.abspath(__file__)))
SA_ROOT = os.environ.get("SA_ROOT", HERE)
MUT = os.path.join(HERE, "selftest", "mutants")


def main():
    expect = json.load(open(os.path.join(MUT, "EXPECT.json")))
    bad = 0
    for name, e in sorted(expect.items()):
        tmp = tempfile.mkdtemp(prefix="oq_mr_")
        try:
            root = os.path.join(tmp, "r")
            shutil.copytree("/repo", root, ignore=shutil.ignore_patterns(".git", "__pycache__", ".pytest_cache", "docs"))
            r = subprocess.run(["patch", "-p1", "-s", "-i", os.path.join(MUT, name + ".diff")], cwd=root, capture_output=True, text=True)
            if r.returncode != 0:
                print(f"{name}: PATCH DOES NOT APPLY {r.stdout[:200]}")
                bad += 1
                continue
            env = dict(os.environ, ODATA_REPO=root, PYTHONPATH=SA_ROOT, SA_EVIDENCE_DIR=os.path.join(tmp, "ev"))
            got = {}
            for p in e["must_alarm"]:
                rr = subprocess.run(["/venv/bin/python", "-m", "sa.check", p], cwd=SA_ROOT, env=env, capture_output=True, text=True)
                got[p] = rr.returncode
            ok = all(rc == 1 for rc in got.values())
            bad += 0 if ok else 1
            print(f"{name}: {'ok' if ok else 'MISSED'} exit codes {got} ({e['rule']})")
        finally:
            shutil.rmtree(tmp, ignore_errors=True)
    return 1 if bad else 0


if __name__ == "__main__":
    sys.exit(main())
