#!/venv/bin/python
"""Self-test helper (not a registered check): evaluate a seeded change.

  seedtest.py <patch.diff> [--demo demo.py] [--props C01,C02,...] [--suite] [--tier quick|thorough]

Applies the patch to a scratch copy of /repo (outside /repo and /verif), optionally confirms that the
pinned suite still passes and that the demonstration fails with / passes without the change, then runs
the checks against the scratch copy (ODATA_REPO) in parallel and prints which raise an alarm.
"""
import json
import os
import shutil
import subprocess
import sys
import tempfile
from concurrent.futures import ThreadPoolExecutor

ALL = [f"C{n:02d}" for n in range(1, 21)]


def sh(cmd, cwd=None, env=None, timeout=1200):
    r = subprocess.run(cmd, cwd=cwd, env=env, capture_output=True, text=True, timeout=timeout)
    return r.returncode, "\n".join(l for l in (r.stdout + r.stderr).splitlines() if not l.startswith("WARNING conda"))


def make_copy(patch=None):
    tmp = tempfile.mkdtemp(prefix="oq_seed_")
    for d in ("odata_query", "tests"):
        shutil.copytree(os.path.join("/repo", d), os.path.join(tmp, d))
    for f in os.listdir("/repo"):
        p = os.path.join("/repo", f)
        if os.path.isfile(p) and not f.startswith("."):
            shutil.copy(p, tmp)
    if patch:
        rc, out = sh(["patch", "-p1", "--no-backup-if-mismatch", "-i", os.path.abspath(patch)], cwd=tmp)
        if rc != 0:
            shutil.rmtree(tmp, ignore_errors=True)
            raise SystemExit(f"patch does not apply:\n{out}")
    return tmp


def run_check(prop, root, tier):
    env = dict(os.environ, ODATA_REPO=root, PYTHONPATH=os.environ.get("SA_ROOT", "/verif"), SA_EVIDENCE_DIR=os.path.join(root, "_evidence"))
    rc, out = sh(["/venv/bin/python", "-m", "sa.check", prop, "--tier", tier], cwd=os.environ.get("SA_ROOT", "/verif"), env=env)
    lines = out.splitlines()
    detail = [l for l in lines if f"[{prop}/" in l and not l.startswith("KNOWN-FINDING")]
    err = [l for l in lines if l.startswith("ANALYSIS-ERROR")]
    return prop, rc, detail[:-1] if detail and detail[-1].startswith(f"[{prop}/") else detail, err


def main(argv):
    if len(argv) < 2:
        print(__doc__)
        return 2
    patch = argv[1]
    demo = argv[argv.index("--demo") + 1] if "--demo" in argv else None
    props = argv[argv.index("--props") + 1].split(",") if "--props" in argv else ALL
    tier = argv[argv.index("--tier") + 1] if "--tier" in argv else "quick"
    result = {"patch": patch}
    root = make_copy(patch)
    try:
        if "--suite" in argv:
            rc, out = sh(["/venv/bin/python", "-m", "pytest", "-q", "-p", "no:cacheprovider", "--no-cov", "--continue-on-collection-errors"], cwd=root)
            result["suite"] = out.strip().splitlines()[-1] if out.strip() else f"rc={rc}"
        if demo:
            shutil.copy(demo, os.path.join(root, "_demo.py"))
            rc1, out1 = sh(["/venv/bin/python", "_demo.py"], cwd=root)
            clean = make_copy(None)
            try:
                shutil.copy(demo, os.path.join(clean, "_demo.py"))
                rc0, out0 = sh(["/venv/bin/python", "_demo.py"], cwd=clean)
            finally:
                shutil.rmtree(clean, ignore_errors=True)
            result["demo_with_change"] = rc1
            result["demo_without_change"] = rc0
            result["demo_output"] = out1.strip().splitlines()[-3:]
        with ThreadPoolExecutor(max_workers=12) as ex:
            outs = list(ex.map(lambda p: run_check(p, root, tier), props))
        result["alarms"] = {p: [l[:600] for l in d[:3]] for p, rc, d, e in outs if rc == 1}
        result["errors"] = {p: [l[:400] for l in e[:2]] for p, rc, d, e in outs if rc == 2}
        result["silent"] = [p for p, rc, d, e in outs if rc == 0]
    finally:
        shutil.rmtree(root, ignore_errors=True)
    print(json.dumps(result, indent=1))
    return 0


if __name__ == "__main__":
    sys.exit(main(sys.argv))
