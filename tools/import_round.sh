#!/bin/bash
# usage: import_round.sh <NN> <worktree dir> <seed offset> <benign offset>
# copies SEED{1,2}_* to seeded/C<NN>-<offset+n> and SAFE{1..4}_* to benign/C<NN>-<offset+n>, then evaluates them
i=$1; d=$2; so=$3; bo=$4; cd /verif
S=""; B=""
for n in 1 2; do if [ -f $d/SEED${n}_patch.diff ]; then t=seeded/C$i-$((n+so)); mkdir -p $t; cp $d/SEED${n}_patch.diff $t/patch.diff; cp $d/SEED${n}_demo.py $t/demo.py; cp $d/SEED${n}_notes.md $t/notes.md; S="$S C$i-$((n+so))"; fi; done
for n in 1 2 3 4; do if [ -f $d/SAFE${n}_patch.diff ]; then t=benign/C$i-$((n+bo)); mkdir -p $t; cp $d/SAFE${n}_patch.diff $t/patch.diff; cp $d/SAFE${n}_notes.md $t/notes.md; B="$B C$i-$((n+bo))"; fi; done
[ -n "$S" ] && /venv/bin/python tools/seeded_eval.py $S 2>&1 | grep -v conda
[ -n "$B" ] && /venv/bin/python tools/seeded_eval.py --benign $B 2>&1 | grep -v conda
