#!/bin/bash
i=$1; d=/tmp/wt4_c$i; cd /verif
for n in 1 2; do if [ -f $d/SEED${n}_patch.diff ]; then t=seeded/C$i-$((n+6)); mkdir -p $t; cp $d/SEED${n}_patch.diff $t/patch.diff; cp $d/SEED${n}_demo.py $t/demo.py; cp $d/SEED${n}_notes.md $t/notes.md; fi; done
for n in 1 2 3 4; do if [ -f $d/SAFE${n}_patch.diff ]; then t=benign/C$i-$((n+6)); mkdir -p $t; cp $d/SAFE${n}_patch.diff $t/patch.diff; cp $d/SAFE${n}_notes.md $t/notes.md; fi; done
/venv/bin/python tools/seeded_eval.py C$i-7 C$i-8 2>&1 | grep -v conda
/venv/bin/python tools/seeded_eval.py --benign C$i-7 C$i-8 C$i-9 C$i-10 2>&1 | grep -v conda
