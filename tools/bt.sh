#!/bin/bash
# usage: bt.sh <dir/id> <props>
/venv/bin/python /verif/tools/seedtest.py /verif/$1/patch.diff --props $2 2>/dev/null | /venv/bin/python -c "
import sys,json,re
t=sys.stdin.read(); r=json.loads(t[t.index('{'):], strict=False)
for k,v in r['alarms'].items():
    for x in v[:3]: print(' ALARM',k, re.sub(r'^\S+: ','',x)[:420])
for k,v in r['errors'].items(): print(' ERROR',k,str(v)[:400])
print(' silent',r['silent'])"
