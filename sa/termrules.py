"""Helpers for rules over expression-building visitors (Django, SQLAlchemy): the handlers return
constructor terms (opaque external calls), which are normalised into plain tuples for matching."""
from __future__ import annotations

from typing import Any, Dict, Iterable, List, Optional, Set, Tuple

from .values import (AbsList, AltV, BoundV, Const, FuncV, ListV, MapV, NewNode, NodeV, ObjV, PyDict, PyList, PyTuple, RefV, Str,
                     Sym, V)


def short(q: str) -> str:
    return q.rsplit(".", 1)[-1]


def norm(v: Any) -> Any:
    """Normal form: ('call', func, (args..), ((kw, val)..)) | ('visit', path) | ('ref', qual) | ('const', x)
    | ('field', path, attr) | ('prop', path, attr) | ('binop', op, a, b) | ('attr', base, name) | ('other', repr)"""
    if isinstance(v, AltV):
        return ("alt",) + tuple(norm(o) for o in v.options)
    if isinstance(v, Const):
        return ("const", v.v)
    if isinstance(v, RefV):
        return ("ref", v.qual)
    if isinstance(v, NodeV):
        return ("node", v.path)
    if isinstance(v, ObjV):
        if v.init_args is not None and v.label.startswith("new:"):
            a, kw = v.init_args
            return ("call", ("ref", v.cls), tuple(norm(x) for x in a), tuple((k, norm(x)) for k, x in sorted(kw.items())))
        return ("obj", v.cls, v.label)
    if isinstance(v, FuncV):
        fn = v.fn
        import ast as _ast
        if isinstance(fn, _ast.Lambda):
            return ("lambda", _ast.unparse(fn))
        return ("func", f"{v.module.name}.{fn.name}")
    if isinstance(v, BoundV):
        return ("bound", norm(v.obj), v.fn.name)
    if isinstance(v, (PyList, PyTuple)):
        items = tuple(norm(i) for i in v.items)
        loops = tuple(("loop", norm(o), tuple(norm(i) for i in per)) for o, per in getattr(v, "loop_parts", []))
        return ("list" if isinstance(v, PyList) else "tuple",) + items + loops
    if isinstance(v, MapV):
        return ("map", norm(v.elem), norm(v.over))
    if isinstance(v, ListV):
        return ("nodelist", v.path)
    if isinstance(v, AbsList):
        return ("abslist", norm(v.elem))
    if isinstance(v, PyDict):
        return ("dict", tuple((k, norm(x)) for k, x in v.items.items()), tuple((norm(k), norm(x)) for k, x in v.opaque_keys))
    if isinstance(v, Str):
        parts = []
        for p in v.parts:
            if p[0] == "lit":
                parts.append(("lit", p[1]))
            elif p[0] == "dyn":
                parts.append(("dyn", norm(p[1]), tuple(p[2])))
            else:
                parts.append(("join", norm(p[1]), norm(p[2]), norm(p[3])))
        return ("str", tuple(parts))
    if isinstance(v, NewNode):
        return ("newnode", v.cls, tuple((k, norm(x)) for k, x in v.fields.items()))
    if isinstance(v, Sym):
        if v.op == "visit":
            a = v.args[1]
            return ("visit", getattr(a, "path", None) or norm(a), v.args[0])
        if v.op == "call":
            kw = tuple((k, norm(x)) for k, x in (v.args[2] if len(v.args) > 2 else ()))
            return ("call", norm(v.args[0]), tuple(norm(a) for a in v.args[1]), kw)
        if v.op in ("field", "prop"):
            return (v.op, getattr(v.args[0], "path", repr(v.args[0])), v.args[1])
        if v.op == "meth":
            return ("meth", getattr(v.args[0], "path", repr(v.args[0])), v.args[1])
        if v.op == "binop":
            return ("binop", v.args[0], norm(v.args[1]), norm(v.args[2]))
        if v.op == "unop":
            return ("unop", v.args[0], norm(v.args[1]))
        if v.op in ("attr", "extattr", "getattr"):
            return ("attr", norm(v.args[0]) if not isinstance(v.args[0], str) else ("name", v.args[0]), v.args[1] if isinstance(v.args[1], str) else norm(v.args[1]))
        if v.op == "cfg":
            return ("cfg", v.args[1])
        if v.op == "exc":
            return ("exc", norm(v.args[0]), tuple(norm(a) for a in v.args[1]))
        if v.op in ("dispatch", "stubcall"):
            return (v.op,) + tuple(norm(a) if isinstance(a, V) else (tuple(norm(x) for x in a) if isinstance(a, (tuple, list)) else a) for a in v.args)
        if v.op == "star":
            return ("star", norm(v.args[0]))
        return ("sym", v.op) + tuple(norm(a) if isinstance(a, V) else (repr(a) if not isinstance(a, (str, int, type(None))) else a) for a in v.args)
    if isinstance(v, tuple):
        return tuple(norm(x) for x in v)
    return ("other", repr(v))


def is_call_of(t: Any, name: str) -> bool:
    return isinstance(t, tuple) and len(t) >= 3 and t[0] == "call" and isinstance(t[1], tuple) and t[1][0] == "ref" and short(t[1][1]) == name


def callee(t: Any) -> Optional[str]:
    if isinstance(t, tuple) and t and t[0] == "call" and isinstance(t[1], tuple) and t[1][0] == "ref":
        return t[1][1]
    return None


def is_visit(t: Any, path: str) -> bool:
    return isinstance(t, tuple) and len(t) >= 2 and t[0] == "visit" and t[1] == path


def walk(t: Any, parents: Tuple = ()) -> Iterable[Tuple[Any, Tuple]]:
    """Pre-order walk over a normalised term yielding (subterm, chain of ancestors)."""
    yield t, parents
    if isinstance(t, tuple):
        for x in t[1:] if t and isinstance(t[0], str) else t:
            if isinstance(x, tuple):
                yield from walk(x, parents + (t,))


def show(t: Any, limit: int = 160) -> str:
    def s(x):
        if isinstance(x, tuple) and x:
            if x[0] == "call":
                kw = "".join(f", {k}={s(v)}" for k, v in x[3]) if len(x) > 3 else ""
                return f"{s(x[1])}({', '.join(s(a) for a in x[2])}{kw})"
            if x[0] == "ref":
                return short(x[1])
            if x[0] == "visit":
                return "visit(" + str(x[1]) + ")"
            if x[0] == "const":
                return repr(x[1])
            if x[0] == "binop":
                return f"({s(x[2])} {x[1]} {s(x[3])})"
            if x[0] == "unop":
                return f"{ {'Invert': '~', 'USub': '-'}.get(x[1], x[1]) }{s(x[2])}"
            if x[0] in ("field", "prop", "meth"):
                return f"{x[1]}.{x[2]}"
            if x[0] == "attr":
                return f"{s(x[1])}.{x[2] if isinstance(x[2], str) else s(x[2])}"
            if x[0] == "cfg":
                return f"self.{x[1]}"
            if x[0] == "str":
                return "f'" + "".join(p[1] if p[0] == "lit" else "{" + s(p[1]) + "}" for p in x[1]) + "'"
            if isinstance(x[0], str):
                return x[0] + "(" + ", ".join(s(a) for a in x[1:]) + ")"
            return "(" + ", ".join(s(a) for a in x) + ")"
        return repr(x)
    out = s(t)
    return out if len(out) <= limit else out[:limit - 3] + "..."
