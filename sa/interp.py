"""Core G: path-enumerating abstract interpreter for the Python subset the library is written in.

One run follows one path; every decision the code's control flow depends on and the abstract state
does not determine (kind of a node, truthiness of a configuration attribute, outcome of a test on an
opaque value, whether a guarded partial operation raises) is a *choice*. The driver re-runs the
function under every choice script (DFS), so the result is the complete set of paths, each with its
path condition, event log and outcome. The domain is finite (kind sets x flags); no constraint is
ever handed to a solver: a branch is pruned only when a kind set becomes empty or a recorded
equality on the same opaque value contradicts.
"""
from __future__ import annotations

import ast
from dataclasses import dataclass, field
from typing import Any, Callable, Dict, List, Optional, Tuple

from .model import Module, NotConst, Ref, Regex, Repo, Schema
from .report import AnalysisError
from .values import (FALSE, NONE, TRUE, AbsList, AltV, BoundV, Const, FuncV, ListV, MapV, NewNode, NodeV, ObjV,
                     PSlice, PyDict, PyList, PyTuple, RefV, Str, Sym, TokV, V, lit, to_str_parts)

from .icommon import (MAX_DEPTH, MAX_PATHS, PathAbort, _Break, _Continue, _Raise, _Return, _describe, _load,
                      _walk_own)
from .interp_expr import AST_PREFIX, ExprMixin, _Lazy
from .interp_while import WhileMixin


def _snapshot(v: V) -> V:
    """Lists are mutable: remember what was returned, not what the caller made of it later."""
    if isinstance(v, PyList):
        n = PyList(list(v.items))
        n.loop_parts = [(o, list(per)) for o, per in v.loop_parts]
        n.created_in = v.created_in
        if hasattr(v, "_minextra"):
            n._minextra = v._minextra  # type: ignore[attr-defined]
        return n
    if isinstance(v, AbsList):
        return AbsList(v.elem, v.minlen, v.order)
    return v


@dataclass
class Event:
    kind: str
    data: Dict[str, Any]
    where: str = ""


@dataclass
class PathResult:
    outcome: str  # 'return' | 'raise'
    value: Optional[V]
    conds: List[Tuple[str, Any]]
    events: List[Event]
    where: str = ""
    entry: Dict[str, Any] = field(default_factory=dict)

    def cond_str(self) -> str:
        return " & ".join(f"{k}={v}" for k, v in self.conds)


class FieldDesc:
    __slots__ = ("shape", "kinds", "minlen", "pytype")

    def __init__(self, shape: str, kinds=frozenset(), minlen: int = 0, pytype: str = ""):
        self.shape = shape  # 'node' | 'list' | 'scalar'
        self.kinds = frozenset(kinds)
        self.minlen = minlen
        self.pytype = pytype

    def sig(self):
        return (self.shape, self.kinds, self.minlen, self.pytype)

    def __repr__(self):
        return f"FD{self.sig()}"


class KindEnv:
    """Which kinds can sit in which field. Default: derived from the schema's annotations;
    Core F replaces it by the parser's image."""

    DISCR_BASES = ("_BinOpToken", "_Comparator", "_BoolOpToken", "_UnaryOpToken", "_CollectionOperator")

    def __init__(self, schema: Schema):
        self.schema = schema
        self.table: Dict[Tuple[str, Optional[str]], Dict[str, FieldDesc]] = {}

    def discr_field(self, kind: str) -> Optional[str]:
        c = self.schema.classes.get(kind)
        if not c or not c.fields:
            return None
        f = c.fields[0]
        if f.shape == "node" and f.node_type in self.DISCR_BASES:
            return f.name
        return None

    def schema_desc(self, kind: str, fname: str) -> Optional[FieldDesc]:
        c = self.schema.classes.get(kind)
        if c is None:
            return None
        f = c.field(fname)
        if f is None:
            return None
        if f.shape == "node":
            return FieldDesc("node", self.schema.subclasses_of(f.node_type))
        if f.shape == "optional_node":
            return FieldDesc("node", set(self.schema.subclasses_of(f.node_type)) | {"NoneType"})
        if f.shape == "list_node":
            return FieldDesc("list", self.schema.subclasses_of(f.node_type), 0)
        ann = f.annotation
        py = "str" if ann == "str" else ("tuple" if f.shape == "tuple_scalar" else ann)
        return FieldDesc("scalar", pytype=py)

    def desc(self, kind: str, discr: Optional[str], fname: str) -> Optional[FieldDesc]:
        for key in ((kind, discr), (kind, None)):
            t = self.table.get(key)
            if t is not None and fname in t:
                return t[fname]
        if (kind, None) in self.table or any(k[0] == kind for k in self.table):
            # kind known to the image but field never populated: fall back to the schema
            pass
        return self.schema_desc(kind, fname)


class Interp(ExprMixin, WhileMixin):
    def __init__(self, repo: Repo, schema: Schema, kinds: Optional[KindEnv] = None,
                 opaque_funcs: Tuple[str, ...] = (), summaries: Optional[Dict[str, V]] = None,
                 inline_depth: int = MAX_DEPTH):
        self.repo = repo
        self.schema = schema
        self.kinds = kinds or KindEnv(schema)
        self.opaque_funcs = set(opaque_funcs)
        self.summaries: Dict[str, Any] = summaries if summaries is not None else {}
        self.inline_depth = inline_depth
        self.observed_returns: Dict[str, List[V]] = {}
        # per-run state
        self.script: List[int] = []
        self.trace: List[Tuple[int, int]] = []
        self.conds: List[Tuple[str, Any]] = []
        self.events: List[Event] = []
        self.stack: List[Tuple[str, Module]] = []
        self.try_stack: List[List[str]] = []
        self.sym_eq: Dict[str, Any] = {}
        self.sym_neq: Dict[str, set] = {}
        self.truth: Dict[str, bool] = {}
        self.cur_where = ""
        self.loop_ctx: List[Any] = []
        self.shared: Dict[str, Any] = {}
        self.shared_objs: Dict[str, V] = {}
        self.global_choice: Dict[str, int] = {}
        self.summarise_funcs: set = set()
        self.eager_typeof = False
        self._cur_args: List[V] = []

    # ------------------------------------------------------------------------------------
    # driver
    # ------------------------------------------------------------------------------------
    def explore(self, setup: Callable[["Interp"], Tuple[Module, ast.FunctionDef, List[V], Dict[str, V], Optional[str]]],
                max_paths: int = MAX_PATHS) -> List[PathResult]:
        """setup(interp) builds fresh arguments for each run and returns
        (module, function, args, kwargs, class qual of self or None)."""
        results: List[PathResult] = []
        script: List[int] = []
        n = 0
        while True:
            n += 1
            if n > max_paths:
                raise AnalysisError(f"path budget exceeded ({max_paths}) while exploring", self.cur_where)
            self._reset(script)
            res: Optional[PathResult] = None
            try:
                self._cur_args = None  # type: ignore[assignment]
                module, fn, args, kwargs, cls = setup(self)
                if self._cur_args is None:
                    self._cur_args = [a for a in args]
                try:
                    decos = [ast.unparse(d) for d in getattr(fn, "decorator_list", [])]
                    if getattr(self, "entry_through_decorators", False) and not any(d.startswith("_(") for d in decos) and \
                            any(d not in ("staticmethod", "classmethod", "property") and not d.endswith((".setter", "abstractmethod")) for d in decos):
                        # callers reach the function through its decorators (in-repo wrappers are evaluated)
                        v = self.call_decorated(module, fn, args, kwargs, cls)
                    else:
                        v = self.call_function(module, fn, args, kwargs, cls, toplevel=True)
                    res = PathResult("return", v, list(self.conds), list(self.events))
                except _Raise as r:
                    res = PathResult("raise", r.exc, list(self.conds), list(self.events), r.where)
            except PathAbort:
                res = None
            if res is not None:
                res.entry["arg_kinds"] = [set(a.kinds) if isinstance(a, NodeV) else None for a in (self._cur_args or [])]
                res.entry["args"] = list(self._cur_args or [])
                res.entry["sym_eq"] = dict(self.sym_eq)
                res.entry["sym_neq"] = {k: set(v) for k, v in self.sym_neq.items()}
                results.append(res)
            # next script
            tr = self.trace
            while tr and tr[-1][0] + 1 >= tr[-1][1]:
                tr.pop()
            if not tr:
                break
            script = [c for c, _ in tr[:-1]] + [tr[-1][0] + 1]
        return results

    def _reset(self, script: List[int]):
        self.script = list(script)
        self.trace = []
        self.conds = []
        self.events = []
        self.stack = []
        self.try_stack = []
        self.sym_eq = {}
        self.sym_neq = {}
        self.truth = {}
        self.loop_ctx = []
        self._round_tags = []   # per abstract loop being run: 1 in its first round, 2 in the later one
        self._rounds_run = {}   # id(over) -> rounds of abstract loops over it run on this path
        self.global_choice = {}
        self.shared_objs = {}

    def choose(self, n: int, tag: str = "") -> int:
        if n <= 0:
            raise PathAbort()
        if n == 1:
            return 0
        i = len(self.trace)
        c = self.script[i] if i < len(self.script) else 0
        if c >= n:
            raise AnalysisError(f"internal: non-deterministic replay at choice {i} ({tag})")
        self.trace.append((c, n))
        return c

    def event(self, _evkind: str, **data):
        self.events.append(Event(_evkind, data, self.cur_where))

    def cond(self, key: str, val: Any):
        self.conds.append((key, val))

    # ------------------------------------------------------------------------------------
    # locations
    # ------------------------------------------------------------------------------------
    def where(self, module: Module, node: ast.AST) -> str:
        return module.loc(node)

    # ------------------------------------------------------------------------------------
    # function calls
    # ------------------------------------------------------------------------------------
    def fn_key(self, module: Module, fn) -> str:
        return f"{module.name}:{getattr(fn, 'name', 'lambda')}:{fn.lineno}"

    def call_function(self, module: Module, fn, args: List[V], kwargs: Dict[str, V], cls: Optional[str],
                      toplevel: bool = False, closure: Optional[Dict[str, V]] = None) -> V:
        key = self.fn_key(module, fn)
        depth = sum(1 for k, _ in self.stack if k == key)
        if depth >= 2 or len(self.stack) >= self.inline_depth + 4:
            if depth >= 2:
                self.event("recursion", func=key)
                self.shared.setdefault("recursive_keys", set()).add(key)
                s = self.summaries.get(key)
                if s is None:
                    raise PathAbort()
                s = _snapshot(s)
                if isinstance(s, AbsList):
                    s.created_in = "summary"  # type: ignore[attr-defined]
                return s
            return Sym("deepcall", key)
        env = dict(closure or {})
        self.bind_params(module, fn, args, kwargs, env)
        env["__class__"] = RefV(cls) if cls else NONE
        self.stack.append((key, module))
        saved_try = self.try_stack
        try:
            if isinstance(fn, ast.Lambda):
                v = self.eval(fn.body, env, module)
                return v
            is_gen = getattr(fn, "_sa_is_gen", None)
            if is_gen is None:
                is_gen = any(isinstance(x, (ast.Yield, ast.YieldFrom)) for x in _walk_own(fn))
                try:
                    fn._sa_is_gen = is_gen
                except Exception:
                    pass
            if is_gen:
                yl = PyList([])
                yl.created_in = key  # yields inside loops are loop parts, not a fixed number of items
                env["__yield__"] = yl
            try:
                self.exec_block(fn.body, env, module)
                v = NONE
            except _Return as r:
                v = r.v
            except AnalysisError as ae:
                # a loop outside the supported forms: the function is replaced by what its signature promises (an assumption that
                # the evidence records), if the promise is simple enough; anything that needs more than that gets no verdict
                if "`while` loop outside the supported forms" not in str(ae) or toplevel:
                    raise
                v = self._value_of_annotation(getattr(fn, "returns", None), module)
                if v is None:
                    raise
                self.event("summarised_by_annotation", func=key, annotation=ast.unparse(fn.returns), reason=str(ae)[:120])
                from . import icommon as _ic
                _ic.ANNOTATION_SUMMARIES.add((key, ast.unparse(fn.returns)))
                raised = []
                for n in _walk_own(fn):
                    if isinstance(n, ast.Raise) and n.exc is not None:
                        try:
                            ev_ = self.eval(n.exc, dict(env), module)
                        except (AnalysisError, _Raise, PathAbort):
                            continue
                        if isinstance(ev_, RefV):
                            ev_ = self.make_exc(ev_.qual)
                        if not any(repr(ev_) == repr(x) for x, _ in raised):
                            raised.append((ev_, module.loc(n)))
                if raised:
                    c = self.choose(1 + len(raised), f"raises@{key}")
                    if c:
                        self.event("raise", exc=raised[c - 1][0], func=key)
                        raise _Raise(raised[c - 1][0], raised[c - 1][1])
            if is_gen:
                v = env["__yield__"]
                v._gen = True   # type: ignore[attr-defined]  # a generator object: single use, consumed from the front
                v._pos = 0      # type: ignore[attr-defined]
            self.observed_returns.setdefault(key, []).append(_snapshot(v))
            return v
        finally:
            self.stack.pop()
            self.try_stack = saved_try

    def _value_of_annotation(self, ann, module: Module) -> Optional[V]:
        if ann is None:
            return None
        t = ast.unparse(ann).replace("typing.", "")
        import re as _re
        scalar = {"str": "str", "int": "int", "float": None, "bool": None}
        if t in scalar:
            return Sym("annotated", t, hint=scalar[t])
        m = _re.match(r"^(List|list|Sequence|Iterable|Iterator|Generator|Tuple|tuple)\[(str|int)(?:, \.\.\.|, None, None)?\]$", t)
        if m:
            al = AbsList(Sym("annotated", m.group(2), hint=m.group(2)), 0)
            al.created_in = "summary"  # type: ignore[attr-defined]
            return al
        return None

    def bind_params(self, module: Module, fn, args: List[V], kwargs: Dict[str, V], env: Dict[str, V]):
        a = fn.args
        params = [p.arg for p in a.posonlyargs + a.args]
        defaults = [None] * (len(params) - len(a.defaults)) + list(a.defaults)
        args = list(args)
        kwargs = dict(kwargs)
        for i, name in enumerate(params):
            if i < len(args):
                env[name] = args[i]
            elif name in kwargs:
                env[name] = kwargs.pop(name)
            elif defaults[i] is not None:
                env[name] = self.eval(defaults[i], {}, module)
            else:
                self.event("call_arity", func=getattr(fn, "name", "lambda"), missing=name)
                raise _Raise(self.make_exc("builtins.TypeError"), self.cur_where)
        extra = args[len(params):]
        if a.vararg and any(isinstance(x, Sym) and x.op == "star" for x in extra):
            # f(..., *xs) with xs of unknown length: *args is a fresh sequence holding the known items and those of xs
            va = PyList([])
            va.created_in = self.fn_key(module, fn)
            va._loop_depth = len(self.loop_ctx)  # type: ignore[attr-defined]
            for x in extra:
                if isinstance(x, Sym) and x.op == "star":
                    self.list_extend(va, self.resolve_alt(x.args[0]))
                else:
                    self.list_append(va, x)
            env[a.vararg.arg] = va
        elif a.vararg:
            env[a.vararg.arg] = PyTuple(extra)
        elif extra:
            self.event("call_arity", func=getattr(fn, "name", "lambda"), extra=len(extra))
            raise _Raise(self.make_exc("builtins.TypeError"), self.cur_where)
        for p, d in zip(a.kwonlyargs, a.kw_defaults):
            if p.arg in kwargs:
                env[p.arg] = kwargs.pop(p.arg)
            elif d is not None:
                env[p.arg] = self.eval(d, {}, module)
            else:
                raise _Raise(self.make_exc("builtins.TypeError"), self.cur_where)
        if a.kwarg:
            kd = PyDict({("c", k): v for k, v in kwargs.items() if k != "**"})
            kd.created_in = self._frame_id()  # type: ignore[attr-defined]
            if "**" in kwargs:
                kd.opaque_keys.append((Sym("dictunpack"), kwargs["**"]))
            env[a.kwarg.arg] = kd
        elif kwargs:
            self.event("call_arity", func=getattr(fn, "name", "lambda"), unexpected_kw=sorted(kwargs))
            raise _Raise(self.make_exc("builtins.TypeError"), self.cur_where)

    def make_exc(self, qual: str, args: Optional[List[V]] = None) -> V:
        return Sym("exc", RefV(qual), tuple(args or ()))

    # ------------------------------------------------------------------------------------
    # statements
    # ------------------------------------------------------------------------------------
    def exec_block(self, body: List[ast.stmt], env: Dict[str, V], module: Module):
        for st in body:
            self.exec_stmt(st, env, module)

    def exec_stmt(self, st: ast.stmt, env: Dict[str, V], module: Module):
        self.cur_where = module.loc(st)
        if isinstance(st, ast.Expr):
            if isinstance(st.value, ast.Constant):
                return
            if isinstance(st.value, ast.Yield):
                self.ev_Yield(st.value, env, module)
                return
            if isinstance(st.value, ast.YieldFrom):
                self.list_extend(env["__yield__"], self.eval(st.value.value, env, module))
                return
            self.eval(st.value, env, module)
        elif isinstance(st, ast.Assign):
            v = self.eval(st.value, env, module)
            for t in st.targets:
                self.assign(t, v, env, module)
        elif isinstance(st, ast.AnnAssign):
            if st.value is not None:
                self.assign(st.target, self.eval(st.value, env, module), env, module)
        elif isinstance(st, ast.AugAssign):
            cur = self.eval(_load(st.target), env, module)
            rhs = self.eval(st.value, env, module)
            if isinstance(cur, (PyList, AbsList)) and isinstance(st.op, ast.Add):
                self.list_extend(cur, rhs)
                # `lst += x` extends in place, exactly like lst.extend(x): same ownership classification
                if getattr(cur, "created_in", None) is None:
                    self.event("mutate", target=_describe(cur), op="+=")
                else:
                    self.event("list_mutation", target=_describe(cur), op="extend", created_in=getattr(cur, "created_in", None),
                               frame=self._frame_id())
                v = cur
            else:
                v = self.binop(st.op, cur, rhs, module, st)
            self.assign(st.target, v, env, module)
        elif isinstance(st, ast.Return):
            raise _Return(self.eval(st.value, env, module) if st.value else NONE)
        elif isinstance(st, ast.Pass):
            return
        elif isinstance(st, ast.If):
            if self.truthy(self.eval(st.test, env, module), st.test):
                self.exec_block(st.body, env, module)
            else:
                self.exec_block(st.orelse, env, module)
        elif isinstance(st, ast.Raise):
            if st.exc is None:
                raise _Raise(env.get("__active_exc__", self.make_exc("builtins.Exception")), module.loc(st), st)
            exc = self.eval(st.exc, env, module)
            if isinstance(exc, RefV):
                exc = self.make_exc(exc.qual)
            self.event("raise", exc=exc, func=self.stack[-1][0] if self.stack else "")
            raise _Raise(exc, module.loc(st), st)
        elif isinstance(st, ast.For):
            self.exec_for(st, env, module)
        elif isinstance(st, ast.While):
            self.exec_while(st, env, module)
        elif isinstance(st, ast.Try):
            self.exec_try(st, env, module)
        elif isinstance(st, (ast.FunctionDef, ast.AsyncFunctionDef)):
            env[st.name] = FuncV(module, st, closure=env)
        elif isinstance(st, (ast.Import, ast.ImportFrom)):
            for a in st.names:
                env[(a.asname or a.name).split(".")[0]] = RefV(a.name if isinstance(st, ast.Import) else f"{st.module}.{a.name}")
        elif isinstance(st, ast.Break):
            raise _Break()
        elif isinstance(st, ast.Continue):
            raise _Continue()
        elif isinstance(st, ast.Assert):
            return
        elif isinstance(st, ast.Delete):
            for t in st.targets:
                if isinstance(t, ast.Name):
                    env.pop(t.id, None)
                else:
                    base = self.eval(t.value, env, module) if hasattr(t, "value") else None
                    self.event("mutate", target=_describe(base), op="del")
        elif isinstance(st, (ast.Global, ast.Nonlocal)):
            self.event("global_decl", names=list(st.names))
        elif isinstance(st, ast.With) and len(st.items) == 1 and self._with_contextmanager(st, env, module):
            pass
        elif isinstance(st, ast.With):
            suppressed: List[str] = []
            for it in st.items:
                v = self.eval(it.context_expr, env, module)
                if isinstance(v, Sym) and v.op == "call" and isinstance(v.args[0], RefV) and v.args[0].qual == "contextlib.suppress":
                    suppressed += [x.qual if isinstance(x, RefV) else repr(x) for x in v.args[1]]
                if it.optional_vars is not None:
                    self.assign(it.optional_vars, Sym("enter", v), env, module)
            if suppressed:
                # with suppress(E): body   ==   try: body / except E: pass
                saved = self.try_stack
                self.try_stack = saved + [suppressed]
                try:
                    self.exec_block(st.body, env, module)
                except _Raise as r:
                    q = self.exc_class(r.exc)
                    if not any(q is None or self.exc_isa(q, n) for n in suppressed):
                        raise
                finally:
                    self.try_stack = saved
            else:
                self.exec_block(st.body, env, module)
        elif isinstance(st, ast.Match):
            self.exec_match(st, env, module)
        elif isinstance(st, ast.ClassDef):
            env[st.name] = Sym("localclass", st.name)
        else:
            raise AnalysisError(f"statement {type(st).__name__} is outside the supported subset", module.loc(st))

    # ------------------------------------------------------------------------------------
    # with <in-repo @contextmanager generator>(...): the generator's body runs around the block
    # ------------------------------------------------------------------------------------
    def _with_contextmanager(self, st: ast.With, env: Dict[str, V], module: Module) -> bool:
        item = st.items[0]
        call = item.context_expr
        if not isinstance(call, ast.Call):
            return False
        try:
            fv = self.eval(call.func, env, module)
        except AnalysisError:
            return False
        fn = mod = None
        selfarg: List[V] = []
        cls = None
        if isinstance(fv, FuncV) and isinstance(fv.fn, ast.FunctionDef):
            fn, mod = fv.fn, fv.module
        elif isinstance(fv, BoundV):
            fn, mod, cls = fv.fn, fv.module, fv.cls
            decos = [ast.unparse(d) for d in fn.decorator_list]
            if "staticmethod" not in decos:
                selfarg = [fv.obj]
        if fn is None:
            return False
        decos = [ast.unparse(d).split(".")[-1] for d in fn.decorator_list]
        if "contextmanager" not in decos:
            return False
        if any(isinstance(n, ast.Return) and n.value is not None for n in _walk_own(fn)):
            raise AnalysisError("@contextmanager generator with a return value is outside the supported subset", mod.loc(fn))
        args = self.eval_seq(call.args, env, module)
        kwargs = {kw.arg: self.eval(kw.value, env, module) for kw in call.keywords if kw.arg is not None}
        genv: Dict[str, V] = {}
        self.bind_params(mod, fn, selfarg + list(args), kwargs, genv)
        genv["__class__"] = RefV(cls) if cls else NONE
        ran = {"body": False}

        def body(yielded: V):
            ran["body"] = True
            if item.optional_vars is not None:
                self.assign(item.optional_vars, yielded, env, module)
            self.exec_block(st.body, env, module)

        genv["__cm_body__"] = body
        self.stack.append((self.fn_key(mod, fn), mod))
        saved_try = self.try_stack
        try:
            try:
                self.exec_block(fn.body, genv, mod)
            except _Return as r:
                if ran["body"] and "__cm_body__" not in genv and r.v is not None and not self._is_cm_own_return(r):
                    raise
                raise
        finally:
            self.stack.pop()
            self.try_stack = saved_try
        if not ran["body"]:
            raise AnalysisError("@contextmanager generator did not yield on this path", mod.loc(fn))
        return True

    def _is_cm_own_return(self, r) -> bool:
        return False

    # ------------------------------------------------------------------------------------
    # match statements: tried case by case, like the if/elif chain they abbreviate
    # ------------------------------------------------------------------------------------
    def exec_match(self, st: "ast.Match", env: Dict[str, V], module: Module):
        subject = self.eval(st.subject, env, module)
        for case in st.cases:
            trial = dict(env)
            if self.match_pattern(case.pattern, subject, trial, module):
                if case.guard is not None and not self.truthy(self.eval(case.guard, trial, module), case.guard):
                    continue
                env.update(trial)
                self.exec_block(case.body, env, module)
                return

    def match_pattern(self, pat, subject: V, env: Dict[str, V], module: Module) -> bool:
        subject = self.resolve_alt(subject)
        if isinstance(pat, ast.MatchAs):
            if pat.pattern is not None and not self.match_pattern(pat.pattern, subject, env, module):
                return False
            if pat.name is not None:
                env[pat.name] = subject
            return True
        if isinstance(pat, ast.MatchOr):
            return any(self.match_pattern(p, subject, env, module) for p in pat.patterns)
        if isinstance(pat, ast.MatchValue):
            return self.equal(subject, self.eval(pat.value, env, module), False, _Lazy(pat.value))
        if isinstance(pat, ast.MatchSingleton):
            return self.equal(subject, Const(pat.value), True, f"is {pat.value}")
        if isinstance(pat, ast.MatchClass):
            cls = self.eval(pat.cls, env, module)
            if not self.isinstance_v(subject, cls):
                return False
            names: List[str] = []
            if pat.patterns:
                q = cls.qual if isinstance(cls, RefV) else ""
                short = q.rsplit(".", 1)[-1]
                if short in self.schema.classes:
                    names = [f.name for f in self.schema.classes[short].fields]  # dataclasses: __match_args__ = the fields
                else:
                    raise AnalysisError("positional class pattern on a class without known __match_args__", module.loc(pat))
                if len(pat.patterns) > len(names):
                    raise _Raise(self.make_exc("builtins.TypeError"), module.loc(pat))
            for i, sub in enumerate(pat.patterns):
                if not self.match_pattern(sub, self.getattr_v(subject, names[i], module, pat), env, module):
                    return False
            for attr, sub in zip(pat.kwd_attrs, pat.kwd_patterns):
                if not self.hasattr_v(subject, Const(attr)):
                    return False
                if not self.match_pattern(sub, self.getattr_v(subject, attr, module, pat), env, module):
                    return False
            return True
        if isinstance(pat, ast.MatchSequence):
            items = self.concrete_items(subject)
            if items is None or isinstance(subject, (Str,)) or (isinstance(subject, Const) and isinstance(subject.v, str)):
                if isinstance(subject, (NodeV, NewNode, Str)) or (isinstance(subject, Const) and not isinstance(subject.v, (tuple, list))):
                    return False
                raise AnalysisError("sequence pattern on a value of unknown length", module.loc(pat))
            star = [i for i, p in enumerate(pat.patterns) if isinstance(p, ast.MatchStar)]
            if not star:
                if len(items) != len(pat.patterns):
                    return False
                return all(self.match_pattern(p, v, env, module) for p, v in zip(pat.patterns, items))
            si = star[0]
            after = len(pat.patterns) - si - 1
            if len(items) < len(pat.patterns) - 1:
                return False
            for p, v in zip(pat.patterns[:si], items[:si]):
                if not self.match_pattern(p, v, env, module):
                    return False
            if pat.patterns[si].name:
                env[pat.patterns[si].name] = PyList(items[si:len(items) - after])
            for p, v in zip(pat.patterns[si + 1:], items[len(items) - after:] if after else []):
                if not self.match_pattern(p, v, env, module):
                    return False
            return True
        raise AnalysisError(f"pattern {type(pat).__name__} is outside the supported subset", module.loc(pat))

    def assign(self, target: ast.expr, v: V, env: Dict[str, V], module: Module):
        if isinstance(target, ast.Name):
            env[target.id] = v
        elif isinstance(target, (ast.Tuple, ast.List)):
            star = [i for i, e in enumerate(target.elts) if isinstance(e, ast.Starred)]
            rv = self.resolve_alt(v)
            if star and isinstance(rv, PyList) and rv.loop_parts and star[0] == len(target.elts) - 1 and len(rv.items) >= star[0]:
                # head, *rest = [a, b, ...] + <parts appended in loops>: the head comes from the concrete prefix
                si = star[0]
                for i, e in enumerate(target.elts[:si]):
                    self.assign(e, rv.items[i], env, module)
                rest = PyList(list(rv.items[si:]))
                rest.loop_parts = [(o, list(per)) for o, per in rv.loop_parts]
                rest.created_in = self._frame_id()
                if getattr(rv, "_minextra", 0):
                    rest._minextra = rv._minextra  # type: ignore[attr-defined]
                self.assign(target.elts[si].value, rest, env, module)
                return
            if isinstance(rv, PyList) and rv.loop_parts:
                v = self._to_abs(rv)
            items = self.unpack(v, target, module)
            if star:
                si = star[0]
                after = len(target.elts) - si - 1
                if isinstance(items, list):
                    head = items[:si]
                    tail = items[len(items) - after:] if after else []
                    mid = items[si:len(items) - after]
                    seq = head + [PyList(mid)] + tail
                else:
                    seq = None
                absl = self.resolve_alt(v)
                for i, e in enumerate(target.elts):
                    if seq is not None:
                        tv = seq[i]
                    elif isinstance(absl, (AbsList, ListV)):
                        tv = AbsList(absl.elem, max(0, self.list_minlen(absl) - (len(target.elts) - 1))) \
                            if isinstance(e, ast.Starred) else absl.elem
                    else:
                        tv = Sym("elem", v, i)
                    self.assign(e.value if isinstance(e, ast.Starred) else e, tv, env, module)
            else:
                absl = self.resolve_alt(v)
                for i, e in enumerate(target.elts):
                    if isinstance(items, list):
                        tv = items[i]
                    elif isinstance(absl, (AbsList, ListV)):
                        tv = absl.elem
                    else:
                        tv = Sym("elem", v, i)
                    self.assign(e, tv, env, module)
        elif isinstance(target, ast.Attribute):
            base = self.eval(target.value, env, module)
            self.store_attr(base, target.attr, v, module, target)
        elif isinstance(target, ast.Subscript):
            base = self.eval(target.value, env, module)
            idx = self.eval(target.slice, env, module)
            if isinstance(base, PyDict):
                from .interp_expr import dict_key
                kk = dict_key(idx)
                if kk is not None and not self.loop_ctx:
                    base.items[kk] = v
                elif not any(repr(idx) == repr(k2) and repr(v) == repr(v2) for k2, v2 in base.opaque_keys):
                    base.opaque_keys.append((idx, v))
                if getattr(base, 'created_in', None) != self._frame_id():
                    self.event("mutate", target=getattr(base, "shared_name", None) or _describe(base)[:60], op="setitem",
                               shared=getattr(base, "shared_name", None), keyv=idx, valv=v)
            elif isinstance(base, PyList) and isinstance(idx, Const) and isinstance(idx.v, int) and -len(base.items) <= idx.v < len(base.items):
                base.items[idx.v] = v
                own = getattr(base, "created_in", None) is not None
                self.event("list_mutation" if own else "mutate", target=_describe(base), op="setitem", created_in=getattr(base, "created_in", None),
                           frame=self._frame_id())
            elif isinstance(base, AbsList) and getattr(base, "created_in", None) is not None and self.loop_ctx and \
                    getattr(self.loop_ctx[-1], "enumerate_of", None) is base and len(self._round_tags) == len(self.loop_ctx) and \
                    ((isinstance(idx, Const) and idx.v == 0) or (isinstance(idx, Sym) and idx.op in ("index", "posindex"))):
                # xs[i] = f(x) inside `for i, x in enumerate(xs)` on a list of one's own: the element-wise image of xs
                self.event("list_mutation", target=_describe(base), op="setitem", created_in=base.created_in, frame=self._frame_id())
                hits = base.__dict__.setdefault("_map_hits", {})
                if "orig" not in hits:
                    hits["orig"] = base.elem
                hits[self._round_tags[-1]] = v
                if self._round_tags[-1] == 2 and 1 in hits:
                    base.elem = hits[1] if repr(hits[1]) == repr(v) else AltV([hits[1], v])
                    if getattr(base, "copy_of", None) is not None:
                        base.map_of = base.copy_of  # type: ignore[attr-defined]
                elif self._round_tags[-1] == 2:
                    base.elem = self.join_vals(hits["orig"], v)
            else:
                own = isinstance(base, (PyList, AbsList)) and getattr(base, "created_in", None) is not None
                self.event("list_mutation" if own else "mutate", target=_describe(base), op="setitem", created_in=getattr(base, "created_in", None),
                           frame=self._frame_id())
        else:
            raise AnalysisError(f"assignment target {type(target).__name__} unsupported", module.loc(target))

    def _frame_id(self) -> str:
        return self.stack[-1][0] if self.stack else ""

    def unpack(self, v: V, target, module: Module):
        n = len(target.elts)
        has_star = any(isinstance(e, ast.Starred) for e in target.elts)
        v = self.resolve_alt(v)
        if isinstance(v, ObjV) and v.cls in self.repo.classes and "typing.NamedTuple" in self.repo.mro(v.cls):
            # a NamedTuple unpacks as the tuple of its fields, in declaration order
            names = [st.target.id for st in self.repo.classes[v.cls].node.body if isinstance(st, ast.AnnAssign) and isinstance(st.target, ast.Name)]
            if all(nm in v.attrs for nm in names):
                v = PyTuple([v.attrs[nm] for nm in names])
        if isinstance(v, PSlice):
            # a, b, c = p : the production's symbols in order
            for i in range(len(v.values)):
                self.event("p_read", index=i)
            v = PyTuple(list(v.values))
        if isinstance(v, (PyTuple, PyList)) and not (isinstance(v, PyList) and v.loop_parts):
            if (not has_star and len(v.items) != n) or (has_star and len(v.items) < n - 1):
                self.event("unpack_mismatch", have=len(v.items), want=n)
                self.may_raise("builtins.ValueError", f"unpacking {len(v.items)} values into {n} targets", definite=True)
                raise _Raise(self.make_exc("builtins.ValueError"), self.cur_where)
            return list(v.items)
        if isinstance(v, Const) and isinstance(v.v, (tuple, list)):
            if (not has_star and len(v.v) != n) or (has_star and len(v.v) < n - 1):
                self.event("unpack_mismatch", have=len(v.v), want=n)
                self.may_raise("builtins.ValueError", f"unpacking {len(v.v)} values into {n} targets", definite=True)
                raise _Raise(self.make_exc("builtins.ValueError"), self.cur_where)
            return [Const(x) for x in v.v]
        if isinstance(v, AbsList):
            need = n - 1 if has_star else n
            if v.minlen < need or not has_star:
                self.event("unpack_unknown_len", value=_describe(v), want=n, minlen=v.minlen, star=has_star)
            return None
        self.event("unpack_opaque", value=_describe(v), want=n, star=has_star)
        return None

    def store_attr(self, base: V, attr: str, v: V, module: Module, node: ast.AST):
        if isinstance(base, ObjV):
            prop = self.find_property(base.cls, attr)
            if prop is not None:
                ci, getter, setter = prop
                if setter is None:
                    self.may_raise("builtins.AttributeError", f"property {attr} has no setter", definite=True)
                    raise _Raise(self.make_exc("builtins.AttributeError"), self.cur_where)
                self.call_function(ci.module, setter, [base, v], {}, ci.qual)  # assignment goes through the property's setter
                return
            base.attrs[attr] = v
            self.event("store_attr", obj=base.label, cls=base.cls, attr=attr, value=v)
        elif isinstance(base, TokV):
            base.attrs[attr] = v
        elif isinstance(base, (NodeV, NewNode)):
            self.event("mutate", target=_describe(base), op="setattr", attr=attr)
        elif isinstance(base, RefV):
            self.event("store_global", target=base.qual, attr=attr)
        else:
            self.event("store_foreign", target=_describe(base), attr=attr, value=v)

    # ------------------------------------------------------------------------------------
    def exec_for(self, st: ast.For, env: Dict[str, V], module: Module):
        it = self.resolve_alt(self.eval(st.iter, env, module))
        self._broke = False
        # text accumulated across the iterations of an abstract loop (s += sep + piece) is recognised as a join
        snaps: Dict[int, Dict[str, V]] = {0: {k: v for k, v in env.items() if self._is_text(v)}}
        overs: List[V] = []
        saved_hook = getattr(self, "_loop_round_hook", None)

        def hook(rnd, over):
            snaps[rnd] = {k: v for k, v in env.items() if self._is_text(v)}
            if rnd == 2:
                overs.append(over)

        self._loop_round_hook = hook
        try:
            self.iterate(it, lambda item: self._for_body(st, item, env, module), module, st)
        finally:
            self._loop_round_hook = saved_hook
        if 1 in snaps and 2 in snaps and overs:
            self._fold_text_accumulators(env, snaps, overs[-1])
        broke, self._broke = self._broke, False
        # the else clause runs only when the loop was not left through `break`
        if st.orelse and not broke:
            self.exec_block(st.orelse, env, module)

    @staticmethod
    def _is_text(v) -> bool:
        return isinstance(v, Str) or (isinstance(v, Const) and isinstance(v.v, str))

    def _fold_text_accumulators(self, env, snaps, over):
        for name, v0 in snaps[0].items():
            v1, v2 = snaps[1].get(name), snaps[2].get(name)
            if v1 is None or v2 is None or env.get(name) is not v2:
                continue
            p0, p1, p2 = ([q for q in to_str_parts(x) if not (q[0] == "lit" and q[1] == "")] for x in (v0, v1, v2))
            if repr(p1[:len(p0)]) != repr(p0) or repr(p2[:len(p1)]) != repr(p1):
                continue
            d1, d2 = p1[len(p0):], p2[len(p1):]
            if not d1 or len(d2) < len(d1):
                continue
            sep_parts, tail = d2[:len(d2) - len(d1)], d2[len(d2) - len(d1):]
            if repr(tail) != repr(d1) or any(q[0] != "lit" for q in sep_parts):
                continue
            sep = "".join(q[1] for q in sep_parts)
            piece = d1[0][1] if len(d1) == 1 and d1[0][0] == "dyn" and not d1[0][2] else Str(list(d1))
            env[name] = Str(list(p0) + [("join", Const(sep), piece, over)])

    def _for_body(self, st: ast.For, item: V, env, module):
        self.assign(st.target, item, env, module)
        try:
            self.exec_block(st.body, env, module)
        except _Continue:
            pass

    def iterate(self, it: V, body: Callable[[V], None], module: Module, node: ast.AST):
        """Run body for every element of `it`. Concrete sequences are unrolled; abstract lists run the
        body under a loop context (0 iterations is a separate path when the list may be empty)."""
        it = self.resolve_alt(it)
        if isinstance(it, Sym) and it.op in ("iter", "reversed") and it.args:
            it2 = it.args[0]
            if it.op == "iter":
                it = it2
        if isinstance(it, Sym) and it.op == "set" and it.args and isinstance(it.args[0], tuple) and \
                not any(isinstance(x, Sym) and x.op in ("elemof", "star") for x in it.args[0]):
            self.event("iterate_set", where=module.loc(node))
            it = PyList(list(it.args[0]))
        if isinstance(it, Const) and isinstance(it.v, (tuple, list, frozenset, set, dict, str)):
            if isinstance(it.v, (frozenset, set)):
                self.event("iterate_set", where=module.loc(node))
            seq = sorted(it.v, key=repr) if isinstance(it.v, (frozenset, set)) else list(it.v)
            it = PyList([Const(x) for x in seq])
        if isinstance(it, PyDict):
            it = PyList([Const(k) for k in it.items])
        if isinstance(it, PyList) and getattr(it, "_lazy", None) is not None:
            self.force_lazy(it)
        if isinstance(it, PyList) and getattr(it, "_gen", False):
            if it.loop_parts:
                if getattr(it, "_touched", False):
                    raise AnalysisError("a generator over an unknown number of items is iterated a second time: what is left of it is not modelled",
                                        module.loc(node))
                it._touched = True  # type: ignore[attr-defined]
            else:
                # what the generator has not handed out yet, from the front; a `break` leaves the rest for the next consumer
                try:
                    while it._pos < len(it.items):
                        item = it.items[it._pos]
                        it._pos += 1
                        body(item)
                except _Break:
                    self._broke = True
                return
        if isinstance(it, (PyList, PyTuple)) and not getattr(it, "loop_parts", None):
            try:
                for item in list(it.items):
                    body(item)
            except _Break:
                self._broke = True
            return
        # abstract iteration
        if isinstance(it, ListV):
            elem, minlen, over = it.elem, it.minlen, it
            if it.len_eq is not None:
                minlen = it.len_eq
        elif isinstance(it, AbsList):
            elem, minlen, over = it.elem, it.minlen, it
            src = getattr(it, "enumerate_of", None) or it
            base = getattr(src, "copy_of", None)
            if base is not None and isinstance(base, ListV):
                # a shallow copy (or its enumeration) is empty exactly when the copied list is
                try:
                    self._abstract_loop(elem, base.len_eq if base.len_eq is not None else base.minlen, over, body, empty_of=base)
                except _Break:
                    self._broke = True
                return
        elif isinstance(it, MapV):
            elem, minlen, over = it.elem, getattr(it.over, "minlen", 0), it
            if not getattr(it, "filtered", False):
                # an unfiltered image of a list is empty exactly when the list is: one fact, one name
                base = it.over
                while isinstance(base, MapV) and not getattr(base, "filtered", False):
                    base = base.over
                if isinstance(base, (ListV, AbsList)):
                    try:
                        self._abstract_loop(elem, self.list_minlen(base) if isinstance(base, AbsList) else (base.len_eq if base.len_eq is not None else base.minlen),
                                            over, body, empty_of=base)
                    except _Break:
                        self._broke = True
                    return
        elif isinstance(it, PyList):
            # concrete prefix then loop parts
            try:
                for item in list(it.items):
                    body(item)
                for over_, per in it.loop_parts:
                    meta = getattr(it, "_part_meta", {}).get(id(over_))
                    tagged = meta and meta["hits"] == 2 and self._rounds_run.get(id(over_)) == 2 and \
                        all(meta["tags"].get(repr(x)) for x in per)
                    if tagged:
                        # exactly one item per iteration of the producing loop: iteration k here sees what iteration k there made
                        fst = [x for x in per if 1 in meta["tags"][repr(x)]]
                        ltr = [x for x in per if 2 in meta["tags"][repr(x)]]
                        if fst and ltr:
                            self._abstract_loop(AltV(fst) if len(fst) != 1 else fst[0], self.list_minlen(over_), over_, body,
                                                later=AltV(ltr) if len(ltr) != 1 else ltr[0])
                            continue
                    self._abstract_loop(AltV(per) if len(per) != 1 else per[0], 0, over_, body)
            except _Break:
                self._broke = True
            return
        else:
            elem, minlen, over = Sym("elemof", it), 0, it
            self.event("iterate_opaque", value=_describe(it), where=module.loc(node))
        try:
            self._abstract_loop(elem, minlen, over, body)
        except _Break:
            self._broke = True

    def _abstract_loop(self, elem: V, minlen: int, over: V, body: Callable[[V], None], later: Optional[V] = None, empty_of: Optional[V] = None):
        loop_over = over
        if empty_of is not None:
            over = empty_of
        known_zero = isinstance(over, ListV) and over.len_eq == 0
        if known_zero:
            return
        if minlen == 0 and not (isinstance(over, ListV) and 0 in over.len_neq):
            key = f"empty({_describe(over)})"
            if key in self.truth:
                empty = self.truth[key]
            else:
                empty = self.choose(2, key) == 1
                self.truth[key] = empty
                self.cond(key, empty)
            if empty:
                if isinstance(over, ListV):
                    over.len_eq = 0
                return
            if isinstance(over, ListV):
                over.len_neq.add(0)
        over = loop_over
        self.loop_ctx.append(over)
        try:
            # two rounds so that loop-carried values reach their join
            hook = getattr(self, "_loop_round_hook", None)
            first, later = elem, (elem if later is None else later)
            if later is elem and isinstance(elem, PyTuple) and elem.items and isinstance(elem.items[0], Sym) and elem.items[0].op == "index":
                # enumerate(): the first iteration has index 0, every later one a positive index
                first = PyTuple([Const(0)] + list(elem.items[1:]))
                later = PyTuple([Sym("posindex", elem.items[0].args[0] if elem.items[0].args else None, hint="int")] + list(elem.items[1:]))
            self._round_tags.append(1)
            self._rounds_run[id(over)] = self._rounds_run.get(id(over), 0) + 1
            body(first)
            if hook:
                hook(1, over)
            self._round_tags[-1] = 2
            self._rounds_run[id(over)] += 1
            body(later)
            if hook:
                hook(2, over)
        finally:
            self.loop_ctx.pop()
            if len(self._round_tags) > len(self.loop_ctx):
                self._round_tags.pop()

    # ------------------------------------------------------------------------------------
    def exec_try(self, st: ast.Try, env: Dict[str, V], module: Module):
        handlers = []
        for h in st.handlers:
            names: List[str] = []
            if h.type is None:
                names = ["builtins.BaseException"]
            else:
                tv = self.eval(h.type, env, module)
                for x in (tv.items if isinstance(tv, PyTuple) else [tv]):
                    if isinstance(x, RefV):
                        names.append(x.qual)
                    elif isinstance(x, Const) and isinstance(x.v, tuple):
                        names += [getattr(y, "qual", repr(y)) for y in x.v]
                    else:
                        names.append(repr(x))
            handlers.append((names, h))
        # Operations inside the body that can raise fork *at the operation* (see may_raise /
        # external_may_raise); an explicit or forked raise is dispatched to the matching handler.
        saved = self.try_stack
        self.try_stack = saved + [[n for names, _ in handlers for n in names]]
        try:
            self.exec_block(st.body, env, module)
        except _Raise as r:
            self.try_stack = saved
            h = self._match_handler(r.exc, handlers)
            if h is None:
                self._finally(st, env, module)
                raise
            self.event("handler_entered", types=[n for names, hh in handlers if hh is h for n in names],
                       where=module.loc(h), exc=r.exc)
            self._run_handler(h, r.exc, env, module)
            self._finally(st, env, module)
            return
        except _Return:
            self.try_stack = saved
            self._finally(st, env, module)
            raise
        finally:
            self.try_stack = saved
        self.exec_block(st.orelse, env, module)
        self._finally(st, env, module)

    def _finally(self, st: ast.Try, env, module):
        if st.finalbody:
            self.exec_block(st.finalbody, env, module)

    def _run_handler(self, h: ast.ExceptHandler, exc: V, env, module):
        if h.name:
            env[h.name] = exc
        env["__active_exc__"] = exc
        self.exec_block(h.body, env, module)

    def _match_handler(self, exc: V, handlers):
        q = self.exc_class(exc)
        for names, h in handlers:
            for n in names:
                if q is None or self.exc_isa(q, n):
                    return h
        return None

    def exc_class(self, exc) -> Optional[str]:
        if isinstance(exc, Sym) and exc.op == "exc" and isinstance(exc.args[0], RefV):
            return exc.args[0].qual
        if isinstance(exc, RefV):
            return exc.qual
        return None

    BUILTIN_EXC_BASES = {
        "KeyError": "LookupError", "IndexError": "LookupError", "LookupError": "Exception",
        "UnicodeError": "ValueError", "ValueError": "Exception", "TypeError": "Exception",
        "AttributeError": "Exception", "StopIteration": "Exception", "ArithmeticError": "Exception",
        "ZeroDivisionError": "ArithmeticError", "OverflowError": "ArithmeticError", "RuntimeError": "Exception",
        "NotImplementedError": "RuntimeError", "RecursionError": "RuntimeError", "ImportError": "Exception",
        "AssertionError": "Exception", "NameError": "Exception", "OSError": "Exception",
        "Exception": "BaseException",
    }

    def exc_isa(self, q: str, base: str) -> bool:
        if q == base:
            return True
        bs = base.rsplit(".", 1)[-1]
        if q in self.repo.classes:
            for m in self.repo.mro(q):
                if m == base or (m.rsplit(".", 1)[-1] == bs and (m.startswith("builtins.") or "." not in m)):
                    return True
                if m.startswith("builtins.") and self._builtin_isa(m.rsplit(".", 1)[-1], bs):
                    return True
            return False
        return self._builtin_isa(q.rsplit(".", 1)[-1], bs)

    def _builtin_isa(self, short: str, base_short: str) -> bool:
        cur: Optional[str] = short
        for _ in range(8):
            if cur == base_short:
                return True
            cur = self.BUILTIN_EXC_BASES.get(cur)  # type: ignore[arg-type]
            if cur is None:
                return False
        return False

    def _caught_by_enclosing(self, excq: str) -> bool:
        return any(self.exc_isa(excq, n) for names in self.try_stack for n in names)

    def may_raise(self, excq: str, what: str = "", definite: bool = False):
        """A partial operation that can raise `excq`. If an enclosing try names it, the path forks
        here (raise now / continue); otherwise the possibility is only recorded."""
        caught = self._caught_by_enclosing(excq)
        self.event("may_raise", exc=excq, what=what, caught=caught, definite=definite,
                   func=self.stack[-1][0] if self.stack else "", in_exc_ctor=getattr(self, "_in_exc_ctor", None))
        if caught and not definite:
            if self.choose(2, f"raise:{excq}") == 1:
                self.cond(f"raises {excq.rsplit('.', 1)[-1]}", what or self.cur_where)
                raise _Raise(self.make_exc(excq), self.cur_where)

    def external_may_raise(self, what: str = ""):
        """An opaque operation (external call, node property, dynamic lookup): it may raise any of the
        exception types the enclosing try statements are prepared for."""
        types: List[str] = []
        for names in reversed(self.try_stack):
            for n in names:
                if n not in types:
                    types.append(n)
        if not types:
            return
        c = self.choose(1 + len(types), "extraise")
        if c:
            t = types[c - 1]
            self.cond(f"raises {t.rsplit('.', 1)[-1]}", what or self.cur_where)
            self.event("external_raise", exc=t, what=what)
            raise _Raise(self.make_exc(t), self.cur_where)

    # ------------------------------------------------------------------------------------
    # truthiness & comparisons
    # ------------------------------------------------------------------------------------
    def resolve_alt(self, v: V) -> V:
        while isinstance(v, AltV):
            v = v.options[self.choose(len(v.options), "alt")]
        return v

    def truthy(self, v: V, label: Any = "") -> bool:
        v = self.resolve_alt(v)
        if isinstance(v, Const):
            return bool(v.v)
        if isinstance(v, Sym) and v.op == "posindex":
            return True  # enumerate() index of an iteration after the first
        if isinstance(v, Sym) and v.op == "setand":
            # a & b is non-empty iff some element of the side with known elements is in the other side
            a, b = v.args
            for known, other in ((b, a), (a, b)):
                items = known.args[0] if known.args and isinstance(known.args[0], tuple) else None
                if items is not None and not any(isinstance(x, Sym) and x.op in ("elemof", "star") for x in items):
                    for x in items:
                        if self.contains(other, x, "set intersection"):
                            return True
                    return False
        if isinstance(v, Str):
            if v.is_const():
                return bool(v.const())
            if any(p[0] == "lit" and p[1] for p in v.parts):
                return True
        if isinstance(v, (PyList, PyTuple)):
            if v.items or not getattr(v, "loop_parts", None):
                return bool(v.items)
        if isinstance(v, PyDict):
            if v.items or not v.opaque_keys:
                return bool(v.items)
            return True
        if isinstance(v, (RefV, BoundV, FuncV)):
            return True
        if isinstance(v, NewNode):
            if self._custom_truth(AST_PREFIX + v.cls) is None:
                return True
            self.event("custom_truthiness", value=_describe(v), kinds=[v.cls])
            return self.unknown_bool(f"bool({_describe(v)})")
        if isinstance(v, ObjV):
            ct = self._custom_truth(v.cls) if v.cls in self.repo.classes else None
            if ct is None:
                return True
            r = self.call_function(ct[0].module, ct[1], [v], {}, ct[0].qual)
            if ct[1].name == "__len__":
                r = self.resolve_alt(r)
                return bool(r.v) if isinstance(r, Const) else self.unknown_bool(f"len({_describe(v)})>0")
            return self.truthy(r, label)
        if isinstance(v, NodeV) and v.kinds - {"NoneType"}:
            custom = {k for k in v.kinds if k != "NoneType" and self._custom_truth(AST_PREFIX + k) is not None}
            if custom:
                # a node class that defines __bool__/__len__: `if node:` no longer means `node is not None`
                if "NoneType" in v.kinds or custom != v.kinds:
                    pick = self.choose(2, f"customtruth({v.path})") == 0
                    self.cond(f"{v.path} is one of {sorted(custom)}", pick)
                    if pick:
                        v.kinds = set(custom)
                    else:
                        v.kinds = v.kinds - custom
                        return self.truthy(v, label)
                self.event("custom_truthiness", value=_describe(v), kinds=sorted(custom))
                return self.unknown_bool(f"bool({v.path})")
        if isinstance(v, NodeV):
            if "NoneType" in v.kinds:
                if len(v.kinds) == 1:
                    return False
                isnone = self.choose(2, f"none({v.path})") == 1
                self.cond(f"{v.path} is None", isnone)
                if isnone:
                    v.kinds = {"NoneType"}
                    return False
                v.kinds.discard("NoneType")
                return True
            return True  # dataclass instances define neither __bool__ nor __len__
        if isinstance(v, ListV):
            if v.len_eq is not None:
                return v.len_eq > 0
            if v.minlen > 0 or 0 in v.len_neq:
                return True
        if isinstance(v, AbsList) and v.minlen > 0:
            return True
        if isinstance(v, Sym) and v.op in ("visit", "exc", "typeof"):
            return True  # the translation of a node is a non-empty expression object
        key = "truth(" + _describe(v) + ")"
        if key in self.truth:
            return self.truth[key]
        r = self.choose(2, key) == 0
        self.truth[key] = r
        self.cond(key, r)
        if isinstance(v, ListV):
            if r:
                v.len_neq.add(0)
            else:
                v.len_eq = 0
        return r

    def _custom_truth(self, qual: str):
        """(class, def) of the __bool__ / __len__ an in-repo class resolves, if any"""
        cache = self.shared.setdefault("custom_truth", {})
        if qual not in cache:
            r = None
            if qual in self.repo.classes:
                r = self.repo.lookup_method(qual, "__bool__") or self.repo.lookup_method(qual, "__len__")
            cache[qual] = r
        return cache[qual]

    def sym_compare_eq(self, a: V, c: Any) -> bool:
        """a == c for an opaque value a and a python constant c, consistent along the path."""
        k = _describe(a)
        if k in self.sym_eq:
            return self.sym_eq[k] == c
        if c in self.sym_neq.get(k, ()):
            return False
        r = self.choose(2, f"{k}=={c!r}") == 0
        self.cond(f"{k}=={c!r}", r)
        if r:
            self.sym_eq[k] = c
        else:
            self.sym_neq.setdefault(k, set()).add(c)
        return r

    def unknown_bool(self, key: str) -> bool:
        if key in self.truth:
            return self.truth[key]
        r = self.choose(2, key) == 0
        self.truth[key] = r
        self.cond(key, r)
        return r
