"""Diagnostic replay (never the deciding step): runs a violation's witness filter through the real
library and prints what each stage does.  /venv/bin/python -m sa.replay <violation.json | filter text>"""
from __future__ import annotations

import json
import os
import sys


def show(filter_text: str):
    sys.path.insert(0, os.environ.get("ODATA_REPO", "/repo"))
    print(f"filter: {filter_text!r}")
    try:
        from odata_query.grammar import ODataLexer, ODataParser
    except Exception as e:  # pragma: no cover
        print("cannot import odata_query:", e)
        return
    try:
        tree = ODataParser().parse(ODataLexer().tokenize(filter_text))
        print("  parse      ->", tree)
    except Exception as e:
        print(f"  parse      -> {type(e).__module__}.{type(e).__name__}: {e}")
        return
    stages = []
    try:
        from odata_query.roundtrip import AstToODataVisitor
        stages.append(("roundtrip", lambda: AstToODataVisitor().visit(tree)))
    except Exception as e:
        print("  roundtrip import failed", e)
    try:
        from odata_query.sql import AstToAthenaSqlVisitor, AstToSqliteSqlVisitor, AstToSqlVisitor
        stages.append(("sql", lambda: AstToSqlVisitor().visit(tree)))
        stages.append(("sqlite", lambda: AstToSqliteSqlVisitor().visit(tree)))
        stages.append(("athena", lambda: AstToAthenaSqlVisitor().visit(tree)))
        stages.append(("sql+alias", lambda: AstToSqlVisitor(table_alias="t").visit(tree)))
    except Exception as e:
        print("  sql import failed", e)
    for name, f in stages:
        try:
            out = f()
            print(f"  {name:10s} -> {out!r}")
            if name == "roundtrip" and isinstance(out, str):
                try:
                    again = ODataParser().parse(ODataLexer().tokenize(out))
                    print(f"  {'reparse':10s} -> {'EQUAL' if again == tree else 'DIFFERENT: ' + repr(again)}")
                except Exception as e:
                    print(f"  {'reparse':10s} -> {type(e).__name__}: {e}")
        except Exception as e:
            print(f"  {name:10s} -> {type(e).__module__}.{type(e).__name__}: {e}")


def main(argv):
    if len(argv) < 2:
        print(__doc__)
        return 2
    arg = argv[1]
    if os.path.exists(arg):
        with open(arg) as f:
            v = json.load(f)
        print(f"violation: property={v.get('property')} rule={v.get('rule')} key={v.get('key')}")
        print(f"  where : {v.get('where')}")
        print(f"  detail: {v.get('detail')}")
        if v.get("witness"):
            show(v["witness"])
        else:
            print("  (no witness filter could be synthesised for this rule)")
    else:
        show(arg)
    return 0


if __name__ == "__main__":
    sys.exit(main(sys.argv))
