"""SQL template tokenisation and structure analysis.

A template is the symbolic string a SQL handler returns: literal text interleaved with holes
(results of self.visit on a child), raw pieces (node field values with their transform chains),
configuration values and joins over list fields. The literal text is tokenised with a small SQL
lexer; dynamic pieces are opaque tokens. On top: quote regions, parenthesis depth, the operators a
template exposes at depth 0, and the operator context of every hole.
"""
from __future__ import annotations

from dataclasses import dataclass, field
from typing import Any, Dict, List, Optional, Sequence, Set, Tuple

from .values import AltV, Const, ListV, MapV, NodeV, Str, Sym, V

WORD_OPS = {"AND", "OR", "NOT", "IS", "IN", "LIKE", "BETWEEN", "ILIKE", "GLOB", "REGEXP", "ESCAPE"}
SYM_OPS = ["||", "<=", ">=", "<>", "!=", "==", "<<", ">>", "=", "<", ">", "+", "-", "*", "/", "%", "&", "|"]
OPEN_WORDS = {"CASE"}
CLOSE_WORDS = {"END"}
# keywords that delimit operands inside special syntactic forms (never operators)
DELIM_WORDS = {"FROM", "FOR", "AS", "WHEN", "THEN", "ELSE", "YEAR", "MONTH", "DAY", "HOUR", "MINUTE", "SECOND"}
TYPED_LITERAL_WORDS = {"DATE", "TIME", "TIMESTAMP", "INTERVAL"}


@dataclass
class Tok:
    kind: str  # 'op' 'word' 'num' 'lp' 'rp' 'comma' 'dot' 'string' 'qident' 'hole' 'join' 'raw' 'cfg' 'other' 'bad'
    text: str = ""
    value: Any = None  # for dynamic tokens / contents of quote regions
    depth: int = 0
    pos: int = 0

    def __repr__(self):
        return f"{self.kind}:{self.text or self.value!r}"


def items_of(v: V) -> Optional[List[Any]]:
    """Flatten a string value into characters and dynamic pieces; None if v is not a string."""
    if isinstance(v, Const):
        return list(v.v) if isinstance(v.v, str) else None
    if isinstance(v, Sym) and (v.hint == "str" or v.op in ("field",)):
        return [("dyn", v, ())]
    if not isinstance(v, Str):
        return None
    out: List[Any] = []
    for p in v.parts:
        if p[0] == "lit":
            out.extend(p[1])
        else:
            out.append(p)
    return out


def classify_dyn(p) -> Tok:
    if p[0] == "join":
        return Tok("join", value=p)
    val, transforms = p[1], p[2]
    if isinstance(val, Sym) and val.op == "visit":
        return Tok("hole", value=p)
    if isinstance(val, Sym) and val.op == "cfg":
        return Tok("cfg", text=str(val.args[1]), value=p)
    if isinstance(val, Sym) and val.op in ("dispatch", "stubcall"):
        return Tok("hole", value=p)
    return Tok("raw", value=p)


def tokenize(items: Sequence[Any]) -> List[Tok]:
    toks: List[Tok] = []
    i = 0
    n = len(items)
    while i < n:
        c = items[i]
        if not isinstance(c, str):
            toks.append(classify_dyn(c))
            i += 1
            continue
        if c.isspace():
            i += 1
            continue
        if c in "'\"":
            q = c
            j = i + 1
            content: List[Any] = []
            closed = False
            while j < n:
                d = items[j]
                if d == q:
                    if j + 1 < n and items[j + 1] == q:
                        content.extend([q, q])
                        j += 2
                        continue
                    closed = True
                    break
                content.append(d)
                j += 1
            kind = "string" if q == "'" else "qident"
            if not closed:
                toks.append(Tok("bad", text=f"unterminated {kind}", value=content))
                return toks
            toks.append(Tok(kind, value=content))
            i = j + 1
            continue
        if c.isalpha() or c == "_":
            j = i
            while j < n and isinstance(items[j], str) and (items[j].isalnum() or items[j] == "_"):
                j += 1
            toks.append(Tok("word", text="".join(items[i:j]).upper()))
            i = j
            continue
        if c.isdigit():
            j = i
            while j < n and isinstance(items[j], str) and (items[j].isalnum() or items[j] == "."):
                j += 1
            toks.append(Tok("num", text="".join(items[i:j])))
            i = j
            continue
        if c == "(":
            toks.append(Tok("lp", "("))
            i += 1
            continue
        if c == ")":
            toks.append(Tok("rp", ")"))
            i += 1
            continue
        if c == ",":
            toks.append(Tok("comma", ","))
            i += 1
            continue
        if c == ".":
            toks.append(Tok("dot", "."))
            i += 1
            continue
        matched = False
        for op in SYM_OPS:
            if all(i + k < n and items[i + k] == ch for k, ch in enumerate(op)):
                toks.append(Tok("op", op))
                i += len(op)
                matched = True
                break
        if matched:
            continue
        toks.append(Tok("other", c))
        i += 1
    # merge IS NOT / NOT IN / NOT LIKE
    out: List[Tok] = []
    for t in toks:
        if t.kind == "word" and t.text in WORD_OPS:
            t = Tok("op", t.text)
        if out and out[-1].kind == "op" and t.kind == "op":
            if out[-1].text == "IS" and t.text == "NOT":
                out[-1] = Tok("op", "IS NOT")
                continue
            if out[-1].text == "NOT" and t.text in ("IN", "LIKE", "BETWEEN"):
                out[-1] = Tok("op", "NOT " + t.text)
                continue
        out.append(t)
    for k, t in enumerate(out):
        t.pos = k
    return out


@dataclass
class Structure:
    toks: List[Tok]
    balanced: bool
    problems: List[str]
    exposed: List[Tok]  # operator tokens at depth 0 (prefix/binary resolved in .text with 'u' prefix for unary)
    holes: List[Tok]

    def is_atomic(self) -> bool:
        return not self.exposed


def is_operand_end(t: Optional[Tok]) -> bool:
    return t is not None and t.kind in ("word", "num", "rp", "string", "qident", "hole", "join", "raw", "cfg") and \
        not (t.kind == "word" and t.text in DELIM_WORDS | OPEN_WORDS)


def analyse(toks: List[Tok]) -> Structure:
    problems: List[str] = []
    depth = 0
    stack: List[str] = []
    for t in toks:
        if t.kind == "bad":
            problems.append(t.text)
        if t.kind == "lp" or (t.kind == "word" and t.text in OPEN_WORDS):
            t.depth = depth
            depth += 1
            stack.append("(" if t.kind == "lp" else t.text)
            continue
        if t.kind == "rp" or (t.kind == "word" and t.text in CLOSE_WORDS):
            want = "(" if t.kind == "rp" else "CASE"
            if not stack:
                problems.append(f"unbalanced `{t.text}`")
                t.depth = depth
                continue
            top = stack.pop()
            if top != want:
                problems.append(f"`{t.text}` closes `{top}`")
            depth -= 1
            t.depth = depth
            continue
        t.depth = depth
    if stack:
        problems.append(f"unclosed {' '.join(stack)}")
    # unary vs binary for + and - ; prefix NOT
    exposed: List[Tok] = []
    prev: Optional[Tok] = None
    for t in toks:
        if t.kind == "op":
            unary = t.text in ("+", "-") and not is_operand_end(prev)
            if t.text == "NOT":
                unary = True
            t.value = "prefix" if unary else "binary"
            if not unary and not is_operand_end(prev):
                problems.append(f"operator `{t.text}` has no left operand")
            if t.depth == 0:
                exposed.append(t)
        prev = t
    if toks and toks[-1].kind == "op":
        problems.append(f"operator `{toks[-1].text}` has no right operand")
    for a, b in zip(toks, toks[1:]):
        if a.kind == "op" and b.kind == "op" and b.value == "binary":
            problems.append(f"operators `{a.text}` `{b.text}` are adjacent")
        if a.kind == "word" and a.text in ("WHEN",) and b.kind == "op" and b.value == "binary":
            problems.append(f"`WHEN {b.text}`: a simple CASE takes values, not comparisons")
    holes = [t for t in toks if t.kind in ("hole", "join")]
    return Structure(toks, not problems, problems, exposed, holes)


def neighbours(st: Structure, hole: Tok) -> Tuple[Optional[Tok], Optional[Tok]]:
    """Operator (or None for a delimiter) directly left and right of a hole."""
    i = hole.pos
    left = st.toks[i - 1] if i > 0 else None
    right = st.toks[i + 1] if i + 1 < len(st.toks) else None
    l = left if left is not None and left.kind == "op" else None
    r = right if right is not None and right.kind == "op" and right.value == "binary" else None
    return l, r


# ------------------------------------------------------------------------------------------------
# precedence tables (oracle; DESIGN appendix B). Higher binds tighter.
# ------------------------------------------------------------------------------------------------
def _table(rows: List[Tuple[Sequence[str], bool]]) -> Dict[str, Tuple[int, bool]]:
    out: Dict[str, Tuple[int, bool]] = {}
    for level, (ops, nonassoc) in enumerate(rows):
        for o in ops:
            out[o] = (level, nonassoc)
    return out


COMPARISONS = ("=", "==", "!=", "<>", "IS", "IS NOT", "IN", "NOT IN", "LIKE", "NOT LIKE", "BETWEEN", "NOT BETWEEN", "GLOB", "REGEXP")
ORDERINGS = ("<", "<=", ">", ">=")

# SQLite (lang_expr.html): || > * / % > + - > << >> & | > < <= > >= > = == != <> IS IN LIKE ... > NOT > AND > OR
SQLITE = _table([(("OR",), False), (("AND",), False), (("NOT",), False), (COMPARISONS, False), (ORDERINGS, False),
                 (("<<", ">>", "&", "|"), False), (("+", "-"), False), (("*", "/", "%"), False), (("||",), False),
                 (("u-", "u+"), False)])
# Trino / Athena (SqlBase.g4): * / % > + - > || > comparison predicates (non-associative) > NOT > AND > OR
TRINO = _table([(("OR",), False), (("AND",), False), (("NOT",), False), (COMPARISONS + ORDERINGS, True),
                (("||",), False), (("+", "-"), False), (("*", "/", "%"), False), (("u-", "u+"), False)])
# SQL-92: comparison predicates are non-associative; || is only defined between character primaries,
# so mixing it with arithmetic without parentheses is treated as unsafe (same level as + -, nonassoc).
SQL92 = _table([(("OR",), False), (("AND",), False), (("NOT",), False), (COMPARISONS + ORDERINGS, True),
                (("+", "-", "||"), False), (("*", "/", "%"), False), (("u-", "u+"), False)])
SQL92_MIXED_UNSAFE = {("||", "+"), ("||", "-"), ("+", "||"), ("-", "||")}
ASSOCIATIVE_REGROUP_OK = {"AND", "OR", "||"}


def op_key(t: Tok) -> str:
    if t.value == "prefix" and t.text in ("+", "-"):
        return "u" + t.text
    return t.text


def slot_safe(child_ops: List[Tok], left: Optional[Tok], right: Optional[Tok], table: Dict[str, Tuple[int, bool]],
              strict92: bool = False) -> Optional[str]:
    """None if a child exposing `child_ops` keeps its grouping between `left` and `right`; else why not."""
    if not child_ops:
        return None
    for c in child_ops:
        ck = op_key(c)
        if ck not in table:
            return f"operator `{c.text}` is unknown to the precedence oracle"
    loosest = min(table[op_key(c)][0] for c in child_ops)
    loose_ops = {op_key(c) for c in child_ops if table[op_key(c)][0] == loosest}
    for side, a in (("left", left), ("right", right)):
        if a is None:
            continue
        ak = op_key(a)
        if ak not in table:
            return f"operator `{a.text}` is unknown to the precedence oracle"
        la, nonassoc = table[ak]
        if strict92 and any((c, ak) in SQL92_MIXED_UNSAFE for c in loose_ops):
            return f"`{sorted(loose_ops)[0]}` next to `{a.text}`: string concatenation mixed with arithmetic"
        if loosest > la:
            continue
        if loosest < la:
            return f"child exposes `{sorted(loose_ops)[0]}` which binds looser than the adjacent `{a.text}`"
        # equal level
        if nonassoc:
            return f"`{sorted(loose_ops)[0]}` directly inside `{a.text}`: comparison predicates do not associate"
        if a.value == "prefix":
            continue  # prefix operator of the same level applied to an expression of that level: right-recursive, fine
        if side == "right":
            continue  # child is the left operand of a left-associative operator of the same level
        if loose_ops == {ak} and ak in ASSOCIATIVE_REGROUP_OK:
            continue
        return (f"child exposes `{sorted(loose_ops)[0]}` as the right operand of `{a.text}` (same level, left-associative): "
                "the SQL parser regroups it to the left")
    return None
