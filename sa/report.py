"""Reporting, exit codes, known findings and evidence for the static checks.

exit 0  every obligation discharged (known findings are printed as KNOWN-FINDING lines)
exit 1  at least one failed obligation that known_findings.json does not list
exit 2  ANALYSIS-ERROR: the analysis itself could not decide (anchor vanished, construct
        outside the supported subset, instance floor not reached, internal error)
"""
from __future__ import annotations

import hashlib
import json
import os
import sys
import time
import traceback
from dataclasses import dataclass, field
from typing import Any, Dict, List, Optional

VERIF = os.path.dirname(os.path.dirname(os.path.abspath(__file__)))
REPO = os.environ.get("ODATA_REPO", "/repo")
EVIDENCE_DIR = os.environ.get("SA_EVIDENCE_DIR") or os.path.join(VERIF, "evidence")  # redirected by the self-test tools only
KNOWN_FINDINGS = os.path.join(VERIF, "known_findings.json")


class AnalysisError(Exception):
    """The analysis cannot decide; never a verdict about the repository."""

    def __init__(self, msg: str, where: str = ""):
        super().__init__(msg)
        self.where = where


@dataclass
class Obligation:
    rule: str
    key: str
    ok: bool
    detail: str = ""
    where: str = ""  # file:line of the offending construct
    witness: Optional[str] = None  # a filter string exhibiting the failure, when synthesisable
    extra: Dict[str, Any] = field(default_factory=dict)


class Ctx:
    def __init__(self, prop: str, tier: str, seed: int):
        self.prop = prop
        self.tier = tier
        self.seed = seed
        self.obligations: List[Obligation] = []
        self.samples: List[Any] = []
        self.notes: List[str] = []
        self.assumptions: List[str] = []
        self.trusted: List[str] = []
        self.analysed: Dict[str, Any] = {}
        self.nontrivial_keys: set = set()
        self.t0 = time.time()
        self._seen: set = set()

    # -- recording ---------------------------------------------------------------------------
    def ok(self, rule: str, key: str, detail: str = "", nontrivial: bool = True, **extra):
        self._add(Obligation(rule, key, True, detail, extra=extra), nontrivial)

    def fail(self, rule: str, key: str, detail: str, where: str = "", witness: Optional[str] = None, **extra):
        self._add(Obligation(rule, key, False, detail, where, witness, extra), True)

    def check(self, cond: bool, rule: str, key: str, detail: str = "", where: str = "",
              witness: Optional[str] = None, **extra):
        if cond:
            self.ok(rule, key, detail, **extra)
        else:
            self.fail(rule, key, detail, where, witness, **extra)
        return cond

    def _add(self, ob: Obligation, nontrivial: bool):
        k = (ob.rule, ob.key)
        if k in self._seen:
            # same obligation reached twice (e.g. via two tiers of the same rule): keep a failure
            if not ob.ok:
                for i, o in enumerate(self.obligations):
                    if (o.rule, o.key) == k and o.ok:
                        self.obligations[i] = ob
            return
        self._seen.add(k)
        self.obligations.append(ob)
        if nontrivial:
            self.nontrivial_keys.add(k)

    def sample(self, obj: Any, limit: int = 40):
        if len(self.samples) < limit:
            self.samples.append(obj)

    def floor(self, what: str, count: int, minimum: int):
        """A rule matching fewer instances than confirmed by hand must not pass vacuously."""
        self.analysed[what] = count
        if count < minimum:
            raise AnalysisError(
                f"instance floor not reached for {what}: found {count}, expected at least {minimum}"
            )

    def assume(self, text: str):
        if text not in self.assumptions:
            self.assumptions.append(text)

    def trust(self, text: str):
        if text not in self.trusted:
            self.trusted.append(text)


def load_known() -> Dict[str, Any]:
    if not os.path.exists(KNOWN_FINDINGS):
        return {"known": [], "fixed": []}
    with open(KNOWN_FINDINGS) as f:
        return json.load(f)


def file_digest(path: str) -> str:
    with open(path, "rb") as f:
        return hashlib.sha256(f.read()).hexdigest()[:16]


def finish(ctx: Ctx, explanation: str, rule_text: str, digests: Dict[str, str]) -> int:
    known = load_known()
    known_keys = {(k["property"], k["rule"], k["key"]): k for k in known.get("known", [])}
    failures = [o for o in ctx.obligations if not o.ok]
    unlisted = []
    listed = []
    for o in failures:
        kk = (ctx.prop, o.rule, o.key)
        if kk in known_keys:
            k = known_keys[kk]
            # a known finding may enumerate the failing variants of its call site: anything beyond them is new
            if "variants" in k and "variants" in o.extra:
                new = sorted(set(o.extra["variants"]) - set(k["variants"]))
                if new:
                    o.detail = f"NEW variants beyond known finding {k.get('id', '')}: {', '.join(new)[:400]} :: " + o.detail
                    unlisted.append(o)
                    continue
            listed.append((o, k))
        else:
            unlisted.append(o)

    for o, k in listed:
        print(f"KNOWN-FINDING: property={ctx.prop} {k.get('id', '')} {o.rule} {o.key} :: {o.detail}"
              + (f" :: witness: {o.witness}" if o.witness else ""))

    if unlisted and _annotation_assumptions():
        # a helper was replaced by its return annotation: passing rules stay sound under that recorded assumption,
        # but a failed rule may be an artefact of the lost precision, so it is no verdict rather than an alarm
        o = unlisted[0]
        raise AnalysisError(
            f"{len(unlisted)} rule(s) failed (first: {o.rule} {o.key}: {o.detail[:200]}) but " + _annotation_assumptions()[0]
            + "; the failure cannot be told from lost precision", o.where)

    viol_dir = os.path.join(EVIDENCE_DIR, "violations")
    replay_paths = []
    if unlisted:
        os.makedirs(viol_dir, exist_ok=True)
        for n, o in enumerate(unlisted):
            path = os.path.join(viol_dir, f"{ctx.prop}-{n}.json")
            with open(path, "w") as f:
                json.dump({
                    "property": ctx.prop, "rule": o.rule, "key": o.key, "detail": o.detail,
                    "where": o.where, "witness": o.witness, "extra": _jsonable(o.extra),
                }, f, indent=1)
            replay_paths.append(path)
            print(f"{o.where or '?'}: [{ctx.prop}/{o.rule}] {o.key}: {o.detail}"
                  + (f" (witness: {o.witness})" if o.witness else ""))
            print(f"VIOLATION property={ctx.prop} replay={path}")

    wall = time.time() - ctx.t0
    n_ob = len(ctx.obligations)
    n_ok = sum(1 for o in ctx.obligations if o.ok)
    samples = ctx.samples[:40] or [{"rule": o.rule, "key": o.key, "detail": o.detail}
                                    for o in ctx.obligations[:20]]
    evidence = {
        "property_id": ctx.prop,
        "tier": ctx.tier,
        "seed": ctx.seed,
        "level": "other",
        "coverage": {
            "explanation": explanation,
            "evaluations": max(n_ob, 1),
            "distinct_nontrivial": max(len(ctx.nontrivial_keys), 0),
            "rule": rule_text,
            "samples": _jsonable(samples),
            "obligations": n_ob,
            "discharged": n_ok,
            "known_findings_matched": [f"{o.rule}|{o.key}" for o, _ in listed],
            "unlisted_failures": [f"{o.rule}|{o.key}" for o in unlisted],
            "analysed": _jsonable(ctx.analysed),
            "obligations_by_rule": _by_rule(ctx.obligations),
            "module_digests": digests,
            "trusted_base": ctx.trusted,
            "checker_cmd": f"cd /verif && /venv/bin/python -m sa.check {ctx.prop} --tier {ctx.tier}",
            "exhaustive": True,
            "notes": ctx.notes,
        },
        "assumptions": ctx.assumptions + _annotation_assumptions(),
        "wall_s": round(wall, 3),
        "violations": len(unlisted),
    }
    os.makedirs(EVIDENCE_DIR, exist_ok=True)
    with open(os.path.join(EVIDENCE_DIR, f"{ctx.prop}.json"), "w") as f:
        json.dump(evidence, f, indent=1, sort_keys=False)
    print(f"[{ctx.prop}/{ctx.tier}] obligations={n_ob} discharged={n_ok} known={len(listed)} "
          f"violations={len(unlisted)} wall={wall:.2f}s")
    return 1 if unlisted else 0


def _by_rule(obs: List[Obligation]) -> Dict[str, Dict[str, int]]:
    out: Dict[str, Dict[str, int]] = {}
    for o in obs:
        d = out.setdefault(o.rule, {"total": 0, "ok": 0})
        d["total"] += 1
        d["ok"] += 1 if o.ok else 0
    return out


def _jsonable(x: Any) -> Any:
    if isinstance(x, (str, int, float, bool)) or x is None:
        return x
    if isinstance(x, dict):
        return {str(k): _jsonable(v) for k, v in x.items()}
    if isinstance(x, (list, tuple, set, frozenset)):
        seq = sorted(x, key=repr) if isinstance(x, (set, frozenset)) else x
        return [_jsonable(v) for v in seq]
    return repr(x)


def analysis_error(prop: str, tier: str, seed: int, msg: str, where: str = "") -> int:
    print(f"ANALYSIS-ERROR property={prop} {where + ': ' if where else ''}{msg}")
    # evidence still written so that a reader sees the run did not decide anything
    os.makedirs(EVIDENCE_DIR, exist_ok=True)
    with open(os.path.join(EVIDENCE_DIR, f"{prop}.json"), "w") as f:
        json.dump({
            "property_id": prop, "tier": tier, "seed": seed, "level": "other",
            "coverage": {"explanation": "ANALYSIS-ERROR: " + msg, "evaluations": 1,
                         "distinct_nontrivial": 0, "samples": [msg]},
            "wall_s": 0.0, "violations": 0,
        }, f, indent=1)
    return 2


def _annotation_assumptions() -> List[str]:
    from . import icommon
    return [f"{func} contains a loop outside the supported forms and was replaced by its return annotation `{ann}` (not verified)"
            for func, ann in sorted(icommon.ANNOTATION_SUMMARIES)]
