"""Core F: the parser's image as a regular tree grammar.

Abstract interpretation of every lexer and grammar action (with the Core G interpreter) over shape
sets; fixpoint over the productions. Result: for every node class (split per operator kind for
Compare/BinOp/BoolOp/UnaryOp/CollectionLambda) and field, the set of kinds the parser can put there;
per non-terminal, the shapes its value can have; per (function, production) the explored paths with
their events (index errors, missing symbols, attribute reads on kinds lacking the field, raises).
"""
from __future__ import annotations

from dataclasses import dataclass, field
from typing import Any, Dict, FrozenSet, List, Optional, Set, Tuple

from .gram import GrammarModel, LexRule, Production
from .interp import FieldDesc, Interp, KindEnv, PathResult
from .model import Repo, Schema
from .report import AnalysisError
from .values import (NONE, AbsList, AltV, Const, ListV, MapV, NewNode, NodeV, ObjV, PSlice, PyList, PyTuple, Str, Sym,
                     TokV, V)

Shape = Tuple  # ('node', kind) | ('tuple', (frozenset, ...)) | ('list', frozenset, minlen) | ('none',) | ('scalar', t) | ('opaque', k)


@dataclass
class KindFlow:
    kinds: KindEnv
    image: Dict[str, Set[Shape]]
    token_shapes: Dict[str, Set[Shape]]
    token_paths: Dict[str, List[PathResult]]
    prod_paths: Dict[int, List[PathResult]]
    rounds: int
    expr_kinds: Set[str] = field(default_factory=set)
    dropped_tokens: List[str] = field(default_factory=list)

    def node_kinds(self, nt: str) -> Set[str]:
        return {s[1] for s in self.image.get(nt, ()) if s[0] == "node"}

    def all_kinds(self) -> Set[str]:
        """Every node kind reachable in the image of the start symbol."""
        out: Set[str] = set()
        todo = list(self.expr_kinds)
        while todo:
            k = todo.pop()
            if k in out or k == "NoneType":
                continue
            out.add(k)
            for (kk, d), fields in self.kinds.table.items():
                if kk != k:
                    continue
                for fd in fields.values():
                    if fd.shape in ("node", "list"):
                        todo.extend(fd.kinds)
        return out


class _Builder:
    def __init__(self, repo: Repo, schema: Schema, g: GrammarModel):
        self.repo = repo
        self.schema = schema
        self.g = g
        self.kenv = KindEnv(schema)
        self.kenv.strict = True  # type: ignore[attr-defined]
        self.image: Dict[str, Set[Shape]] = {p.name: set() for p in g.productions}
        self.token_shapes: Dict[str, Set[Shape]] = {}
        self.changed = False
        self.lex_ci = repo.classes[g.lexer_class]
        self.par_ci = repo.classes[g.parser_class]

    # ---- shapes ---------------------------------------------------------------------------
    def shapes_of(self, v: V, record: bool) -> Set[Shape]:
        if isinstance(v, AltV):
            out: Set[Shape] = set()
            for o in v.options:
                out |= self.shapes_of(o, record)
            return out
        if isinstance(v, NewNode):
            if record:
                self.record_node(v)
            return {("node", v.cls)}
        if isinstance(v, NodeV):
            return {("node", k) if k != "NoneType" else ("none",) for k in v.kinds}
        if isinstance(v, PyTuple):
            return {("tuple", tuple(frozenset(self.shapes_of(i, record)) for i in v.items))}
        if isinstance(v, PyList):
            elems: Set[Shape] = set()
            for i in v.items:
                elems |= self.shapes_of(i, record)
            for _, per in v.loop_parts:
                for i in per:
                    elems |= self.shapes_of(i, record)
            return {("list", frozenset(elems), len(v.items) + getattr(v, "_minextra", 0))}
        if isinstance(v, (AbsList, ListV)):
            return {("list", frozenset(self.shapes_of(v.elem, record)), v.minlen)}
        if isinstance(v, MapV):
            return {("list", frozenset(self.shapes_of(v.elem, record)), getattr(v.over, "minlen", 0))}
        if isinstance(v, Const):
            if v.v is None:
                return {("none",)}
            return {("scalar", type(v.v).__name__)}
        if isinstance(v, Str):
            return {("scalar", "str")}
        if isinstance(v, Sym):
            if v.hint:
                return {("scalar", v.hint)}
            if v.op in ("tupleof",):
                return {("scalar", "tuple")}
            return {("opaque", v.op)}
        if isinstance(v, TokV):
            return self.shapes_of(v.attrs.get("value", NONE), record)
        return {("opaque", type(v).__name__)}

    def record_node(self, n: NewNode):
        df = self.kenv.discr_field(n.cls)
        discr = None
        if df:
            dv = n.fields.get(df)
            ks = self._kinds_of(dv)
            if len(ks) == 1:
                discr = next(iter(ks))
        for key in ((n.cls, discr), (n.cls, None)) if discr else ((n.cls, None),):
            t = self.kenv.table.setdefault(key, {})
            for fname, fv in n.fields.items():
                d = self.desc_of(fv)
                old = t.get(fname)
                new = d if old is None else self.join_desc(old, d)
                if old is None or old.sig() != new.sig():
                    t[fname] = new
                    self.changed = True
        for fv in n.fields.values():
            self._record_inner(fv)

    def _record_inner(self, v: V):
        if isinstance(v, NewNode):
            self.record_node(v)
        elif isinstance(v, AltV):
            for o in v.options:
                self._record_inner(o)
        elif isinstance(v, (PyList, PyTuple)):
            for i in v.items:
                self._record_inner(i)
            for _, per in getattr(v, "loop_parts", []):
                for i in per:
                    self._record_inner(i)
        elif isinstance(v, (AbsList, MapV)):
            self._record_inner(v.elem)

    def _kinds_of(self, v: Optional[V]) -> Set[str]:
        out: Set[str] = set()
        for s in self.shapes_of(v, False) if v is not None else ():
            if s[0] == "node":
                out.add(s[1])
            elif s[0] == "none":
                out.add("NoneType")
        return out

    def desc_of(self, v: V) -> FieldDesc:
        shapes = self.shapes_of(v, False)
        if shapes and all(s[0] in ("node", "none") for s in shapes):
            return FieldDesc("node", {s[1] if s[0] == "node" else "NoneType" for s in shapes})
        if shapes and all(s[0] == "list" for s in shapes):
            ks: Set[str] = set()
            ml = min(s[2] for s in shapes)
            for s in shapes:
                for e in s[1]:
                    ks.add(e[1] if e[0] == "node" else f"<{e[0]}:{e[1] if len(e) > 1 else ''}>")
            return FieldDesc("list", ks, ml)
        if shapes and all(s[0] == "scalar" for s in shapes):
            ts = sorted({s[1] for s in shapes})
            return FieldDesc("scalar", pytype=ts[0] if len(ts) == 1 else "|".join(ts))
        return FieldDesc("scalar", pytype="|".join(sorted(repr(s) for s in shapes)) or "?")

    @staticmethod
    def join_desc(a: FieldDesc, b: FieldDesc) -> FieldDesc:
        if a.shape == b.shape == "node":
            return FieldDesc("node", a.kinds | b.kinds)
        if a.shape == b.shape == "list":
            return FieldDesc("list", a.kinds | b.kinds, min(a.minlen, b.minlen))
        if a.shape == b.shape == "scalar":
            if a.pytype == b.pytype:
                return a
            return FieldDesc("scalar", pytype="|".join(sorted(set(a.pytype.split("|")) | set(b.pytype.split("|")))))
        # mixed: keep node kinds and remember the scalar as a pseudo-kind
        kinds = set(a.kinds) | set(b.kinds)
        for d in (a, b):
            if d.shape == "scalar":
                kinds.add(f"<scalar:{d.pytype}>")
        return FieldDesc("node", kinds)

    # ---- values from shapes ---------------------------------------------------------------------
    def value_of(self, shapes: Set[Shape], path: str) -> V:
        groups: Dict[str, List[Shape]] = {}
        for s in shapes:
            groups.setdefault(s[0] if s[0] not in ("node", "none") else "node", []).append(s)
        opts: List[V] = []
        for gk, ss in sorted(groups.items()):
            if gk == "node":
                opts.append(NodeV(path, {s[1] if s[0] == "node" else "NoneType" for s in ss}))
            elif gk == "tuple":
                for s in sorted(ss, key=repr):
                    opts.append(PyTuple([self.value_of(set(pos), f"{path}[{i}]") for i, pos in enumerate(s[1])]))
            elif gk == "list":
                elems: Set[Shape] = set()
                for s in ss:
                    elems |= set(s[1])
                import re as _re
                m = _re.match(r"^p\[(\d+)\]$", path)
                al = AbsList(self.value_of(elems, f"{path}[*]"), min(s[2] for s in ss), [int(m.group(1))] if m else ["?"])
                al.created_in = "parse"  # type: ignore[attr-defined]
                al.from_symbol = path  # type: ignore[attr-defined]
                opts.append(al)
            elif gk == "scalar":
                ts = sorted({s[1] for s in ss})
                opts.append(Sym("symval", path, hint=ts[0] if len(ts) == 1 else None))
            else:
                opts.append(Sym("symval", path))
        if not opts:
            return NodeV(path, set())
        return opts[0] if len(opts) == 1 else AltV(opts)

    # ---- actions ----------------------------------------------------------------------------------
    def run_token(self, rule: LexRule) -> List[PathResult]:
        interp = Interp(self.repo, self.schema, self.kenv)
        ci = self.lex_ci

        def setup(it):
            selfv = ObjV(ci.qual, {}, "lexer")
            return ci.module, rule.func, [selfv, TokV(rule.name)], {}, ci.qual

        return interp.explore(setup)

    def normalise_token_text(self, rule: LexRule, paths: List[PathResult]):
        """`text.removeprefix(p)` / `text.removesuffix(s)` applied to the matched text of a rule whose every word starts with p /
        ends with s (and is at least that long) are the slices `text[len(p):]` / `text[:-len(s)]`: rewrite them, so that rules
        reading the stored text see one normal form."""
        from . import rx
        import re as _re
        from .values import NewNode as _NN
        cache: Dict[Tuple[str, str], bool] = {}

        def always(kind: str, lit: str) -> bool:
            if (kind, lit) not in cache:
                try:
                    pat = (_re.escape(lit) + r"[\s\S]*") if kind == "removeprefix" else (r"[\s\S]*" + _re.escape(lit))
                    alpha = rx.Alphabet.for_patterns([rule.pattern, pat], self.g.reflags, full=False)
                    lex = rx.compile_rule(rule.pattern, self.g.reflags, alpha).dfa
                    want = rx.compile_dfa(pat, self.g.reflags, alpha)
                    cache[(kind, lit)] = rx.difference_witness(lex, want, alpha) is None
                except Exception:
                    cache[(kind, lit)] = False
            return cache[(kind, lit)]

        def fix(val):
            if not (isinstance(val, Str) and len(val.parts) == 1 and val.parts[0][0] == "dyn" and isinstance(val.parts[0][1], Sym)
                    and val.parts[0][1].op == "toktext"):
                return val
            trs = list(val.parts[0][2])
            lo = hi = None
            i = 0
            seen = set()
            while i < len(trs) and trs[i][0] in ("removeprefix", "removesuffix") and trs[i][0] not in seen and trs[i][1] and always(trs[i][0], trs[i][1]):
                seen.add(trs[i][0])
                if trs[i][0] == "removeprefix":
                    lo = len(trs[i][1])
                else:
                    hi = -len(trs[i][1])
                i += 1
            if not i:
                return val
            if len(seen) == 2:
                # both ends removed: the word must hold both without overlap
                both = _re.escape([t for t in trs[:i] if t[0] == "removeprefix"][0][1]) + r"[\s\S]*" + _re.escape([t for t in trs[:i] if t[0] == "removesuffix"][0][1])
                try:
                    alpha = rx.Alphabet.for_patterns([rule.pattern, both], self.g.reflags, full=False)
                    if rx.difference_witness(rx.compile_rule(rule.pattern, self.g.reflags, alpha).dfa, rx.compile_dfa(both, self.g.reflags, alpha), alpha) is not None:
                        return val
                except Exception:
                    return val
            return Str([("dyn", val.parts[0][1], (("slice", lo, hi, None),) + tuple(trs[i:]))])

        for p in paths:
            if p.outcome == "return" and isinstance(p.value, TokV):
                v = p.value.attrs.get("value")
                if isinstance(v, _NN):
                    for k, fv in list(v.fields.items()):
                        v.fields[k] = fix(fv)
                elif isinstance(v, Str):
                    p.value.attrs["value"] = fix(v)

    def run_production(self, p: Production) -> List[PathResult]:
        interp = Interp(self.repo, self.schema, self.kenv, summaries=self.summaries)
        ci = self.par_ci
        shapes_per_sym = []
        for s in p.syms:
            if s in self.image:
                shapes_per_sym.append(self.image[s])
            elif s in self.token_shapes:
                shapes_per_sym.append(self.token_shapes[s])
            else:
                shapes_per_sym.append({("scalar", "str")})

        if any(not sh for sh in shapes_per_sym):
            self.observed = {}
            return []  # some right-hand-side symbol has no value yet: the production cannot fire

        def setup(it):
            selfv = ObjV(ci.qual, {}, "parser")
            vals = [self.value_of(sh, f"p[{i}]") for i, sh in enumerate(shapes_per_sym)]
            return ci.module, p.func, [selfv, PSlice(p, vals)], {}, ci.qual

        interp.shared = self.shared
        res = interp.explore(setup)
        self.observed = interp.observed_returns
        return res

    def build(self) -> KindFlow:
        token_paths: Dict[str, List[PathResult]] = {}
        dropped: List[str] = []
        for rule in self.g.rules:
            if rule.func is None:
                self.token_shapes[rule.name] = {("scalar", "str")}
                continue
            paths = self.run_token(rule)
            self.normalise_token_text(rule, paths)
            token_paths[rule.name] = paths
            shapes: Set[Shape] = set()
            for r in paths:
                if r.outcome == "return":
                    if isinstance(r.value, TokV):
                        shapes |= self.shapes_of(r.value.attrs.get("value", NONE), True)
                    elif isinstance(r.value, Const) and r.value.v is None:
                        dropped.append(rule.name)
                    else:
                        shapes |= {("opaque", "token")}
            self.token_shapes[rule.name] = shapes
        for l in self.g.literals:
            self.token_shapes[l] = {("scalar", "str")}

        self.summaries: Dict[str, V] = {}
        self.shared: Dict[str, Any] = {}
        prod_paths: Dict[int, List[PathResult]] = {}
        rounds = 0
        while True:
            rounds += 1
            if rounds > 30:
                raise AnalysisError("kind-flow fixpoint did not converge in 30 rounds")
            self.changed = False
            all_observed: Dict[str, List[V]] = {}
            for p in self.g.productions:
                paths = self.run_production(p)
                prod_paths[p.index] = paths
                for k, vs in self.observed.items():
                    all_observed.setdefault(k, []).extend(vs)
                for r in paths:
                    if r.outcome != "return":
                        continue
                    sh = self.shapes_of(r.value, True)
                    new = sh - self.image[p.name]
                    if new:
                        before = frozenset(self.image[p.name])
                        self.image[p.name] |= self._norm(new, self.image[p.name])
                        if frozenset(self.image[p.name]) != before:
                            self.changed = True
            # recursion summaries: join of everything each function was seen to return
            for k, vs in all_observed.items():
                if k not in self.shared.get("recursive_keys", ()):
                    continue
                j = self.join_returns(vs)
                if j is not None and repr(j) != repr(self.summaries.get(k)):
                    self.summaries[k] = j
                    self.changed = True
            if not self.changed:
                break
        kf = KindFlow(self.kenv, self.image, self.token_shapes, token_paths, prod_paths, rounds, set(), dropped)
        kf.expr_kinds = kf.node_kinds(self.g.start)
        return kf

    def _norm(self, new: Set[Shape], old: Set[Shape]) -> Set[Shape]:
        """Merge list shapes so that the image stays finite: one list shape per non-terminal."""
        out: Set[Shape] = set()
        for s in new:
            if s[0] == "list":
                olds = [o for o in old if o[0] == "list"]
                if olds:
                    o = olds[0]
                    old.discard(o)
                    out.add(("list", frozenset(set(o[1]) | set(s[1])), min(o[2], s[2])))
                    continue
            if s[0] == "tuple":
                olds = [o for o in old if o[0] == "tuple" and len(o[1]) == len(s[1])]
                if olds:
                    o = olds[0]
                    old.discard(o)
                    out.add(("tuple", tuple(frozenset(set(a) | set(b)) for a, b in zip(o[1], s[1]))))
                    continue
            out.add(s)
        return out

    def join_returns(self, vs: List[V]) -> Optional[V]:
        """Join of observed return values, for recursion summaries (lists of scalars/nodes)."""
        lists = [v for v in vs if isinstance(v, (PyList, AbsList))]
        if lists and len(lists) == len(vs):
            elem: Optional[V] = None
            minlen = None
            for l in lists:
                if isinstance(l, PyList):
                    n = len(l.items) + getattr(l, "_minextra", 0)
                    es = list(l.items) + [i for _, per in l.loop_parts for i in per]
                else:
                    n = l.minlen
                    es = [l.elem]
                minlen = n if minlen is None else min(minlen, n)
                for e in es:
                    if elem is None:
                        elem = e
                    elif repr(e) != repr(elem):
                        if isinstance(e, Sym) and isinstance(elem, Sym) and e.hint == elem.hint:
                            elem = Sym("joined", hint=e.hint)
                        else:
                            elem = Sym("joined")
            a = AbsList(elem if elem is not None else Sym("noelem"), minlen or 0)
            a.created_in = "summary"  # type: ignore[attr-defined]
            return a
        nodes = [v for v in vs if isinstance(v, (NewNode, NodeV))]
        if nodes and len(nodes) == len(vs):
            ks: Set[str] = set()
            for n in nodes:
                ks |= {n.cls} if isinstance(n, NewNode) else n.kinds
                if isinstance(n, NewNode):
                    self.record_node(n)
            return NodeV("<rec>", ks)
        return None


def build_kindflow(repo: Repo, schema: Schema, g: GrammarModel) -> KindFlow:
    return _Builder(repo, schema, g).build()
