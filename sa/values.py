"""Abstract values of the path-enumerating interpreter (Core G / Core F)."""
from __future__ import annotations

from typing import Any, Dict, List, Optional, Tuple

from .model import Ref


class V:
    pass


class Const(V):
    __slots__ = ("v",)

    def __init__(self, v: Any):
        self.v = v

    def __repr__(self):
        return f"Const({self.v!r})"

    def __eq__(self, o):
        return isinstance(o, Const) and type(o.v) is type(self.v) and o.v == self.v

    def __hash__(self):
        try:
            return hash(("Const", self.v))
        except TypeError:
            return hash(("Const", repr(self.v)))


NONE = Const(None)
TRUE = Const(True)
FALSE = Const(False)


class RefV(V):
    """A class / function / module-level object known by dotted name (in-repo or external)."""

    __slots__ = ("qual",)

    def __init__(self, qual: str):
        self.qual = qual

    def __repr__(self):
        return f"<{self.qual}>"

    def __eq__(self, o):
        return isinstance(o, RefV) and o.qual == self.qual

    def __hash__(self):
        return hash(("RefV", self.qual))

    @property
    def short(self):
        return self.qual.rsplit(".", 1)[-1]


class NodeV(V):
    """Abstract AST node given as input: a path and the set of kinds it may have."""

    def __init__(self, path: str, kinds, parent: Optional["NodeV"] = None, via: str = ""):
        self.path = path
        self.kinds = set(kinds)
        self.fields: Dict[str, V] = {}
        self.parent = parent
        self.via = via
        self.neq: set = set()  # identities known to differ (for == on nodes)
        # when the node is a Call: what is known about its function's dotted name on this path
        self.call_in = None  # type: Optional[set]
        self.call_out: set = set()

    def __repr__(self):
        ks = ",".join(sorted(self.kinds))
        return f"Node({self.path}:{{{ks}}})"

    def single(self) -> Optional[str]:
        return next(iter(self.kinds)) if len(self.kinds) == 1 else None


class NewNode(V):
    """AST node constructed by the analysed code."""

    def __init__(self, cls: str, fields: Dict[str, V], site: str = ""):
        self.cls = cls
        self.fields = fields
        self.site = site

    def __repr__(self):
        inner = ", ".join(f"{k}={v!r}" for k, v in self.fields.items())
        return f"{self.cls}({inner})"


class ListV(V):
    """Abstract list of nodes of unknown length (a node's list field)."""

    def __init__(self, path: str, elem: V, minlen: int = 0, owner: Optional[NodeV] = None, attr: str = ""):
        self.path = path
        self.elem = elem
        self.minlen = minlen
        self.owner = owner
        self.attr = attr
        self.len_eq: Optional[int] = None
        self.len_neq: set = set()

    def __repr__(self):
        return f"List({self.path}, elem={self.elem!r}, min={self.minlen})"


class PyList(V):
    def __init__(self, items: List[V]):
        self.items = list(items)
        # parts appended while iterating an abstract list: (over, [items per iteration])
        self.loop_parts: List[Tuple[V, List[V]]] = []
        self.created_in: Optional[str] = None

    def __repr__(self):
        s = "[" + ", ".join(repr(i) for i in self.items) + "]"
        if self.loop_parts:
            s += "+loop" + repr([(repr(o), p) for o, p in self.loop_parts])
        return s


class AbsList(V):
    """List of unknown length built by the analysed code (join of lists)."""

    def __init__(self, elem: V, minlen: int, order=None):
        self.elem = elem
        self.minlen = minlen
        # provenance of the items in list order: production-symbol indices, '?' when unknown
        self.order = list(order) if order is not None else ["?"]

    def __repr__(self):
        return f"AbsList({self.elem!r}, min={self.minlen})"


class PyTuple(V):
    def __init__(self, items: List[V]):
        self.items = list(items)

    def __repr__(self):
        return "(" + ", ".join(repr(i) for i in self.items) + ",)"


class PyDict(V):
    def __init__(self, items: Optional[Dict[Any, V]] = None):
        self.items: Dict[Any, V] = dict(items or {})
        self.opaque_keys: List[Tuple[V, V]] = []

    def __repr__(self):
        return "{" + ", ".join(f"{k!r}: {v!r}" for k, v in self.items.items()) + \
               ("".join(f", {k!r}: {v!r}" for k, v in self.opaque_keys)) + "}"


class MapV(V):
    """Result of mapping over an abstract list: [f(x) for x in xs]."""

    def __init__(self, over: V, elem: V, var: str = ""):
        self.over = over
        self.elem = elem
        self.var = var

    def __repr__(self):
        return f"Map({self.elem!r} for {self.over!r})"


class Sym(V):
    """Opaque symbolic term: op + args. Used for visit holes, field reads, external calls..."""

    def __init__(self, op: str, *args, hint: Optional[str] = None):
        self.op = op
        self.args = args
        self.hint = hint  # python type hint of the value when known ('str', 'int', ...)
        self._key: Optional[str] = None

    def key(self) -> str:
        if self._key is None:
            self._key = f"{self.op}(" + ",".join(_k(a) for a in self.args) + ")"
        return self._key

    def __repr__(self):
        return self.key()


def _k(a) -> str:
    if isinstance(a, NodeV):
        return a.path
    if isinstance(a, Sym):
        return a.key()
    if isinstance(a, ListV):
        return a.path
    if isinstance(a, (tuple, list)):
        return "[" + ",".join(_k(x) for x in a) + "]"
    return repr(a)


class Str(V):
    """Symbolic string: concatenation of parts. Part = ('lit', text) | ('dyn', value, transforms)
    | ('join', sep: Str, elem: V, over: V)."""

    def __init__(self, parts):
        norm = []
        for p in parts:
            if p[0] == "lit":
                if p[1] == "":
                    continue
                if norm and norm[-1][0] == "lit":
                    norm[-1] = ("lit", norm[-1][1] + p[1])
                    continue
            norm.append(p)
        self.parts = tuple(norm)

    def __repr__(self):
        out = []
        for p in self.parts:
            if p[0] == "lit":
                out.append(p[1])
            elif p[0] == "dyn":
                t = "".join("|" + ":".join(str(x) for x in tr) for tr in p[2])
                out.append("{" + _k(p[1]) + t + "}")
            else:
                out.append("{join " + repr(p[1]) + " " + repr(p[2]) + " over " + _k(p[3]) + "}")
        return "S'" + "".join(out) + "'"

    def is_const(self) -> bool:
        return all(p[0] == "lit" for p in self.parts)

    def const(self) -> str:
        return "".join(p[1] for p in self.parts)


class ObjV(V):
    """Instance of an in-repo class (self, or an object created by the analysed code)."""

    def __init__(self, cls: str, attrs: Optional[Dict[str, V]] = None, label: str = "self"):
        self.cls = cls
        self.attrs: Dict[str, V] = dict(attrs or {})
        self.label = label
        self.init_args: Optional[Tuple[list, dict]] = None

    def __repr__(self):
        return f"Obj({self.label}:{self.cls.rsplit('.', 1)[-1]})"


class BoundV(V):
    def __init__(self, obj: V, cls: str, fn, module):
        self.obj = obj
        self.cls = cls
        self.fn = fn
        self.module = module

    def __repr__(self):
        return f"Bound({self.obj!r}.{self.fn.name})"


class FuncV(V):
    def __init__(self, module, fn, closure=None):
        self.module = module
        self.fn = fn
        self.closure = closure

    def __repr__(self):
        name = getattr(self.fn, "name", "<lambda>")
        return f"Func({self.module.name}.{name})"


class AltV(V):
    """Join of alternatives; any use forks."""

    def __init__(self, options: List[V]):
        self.options = options

    def __repr__(self):
        return "Alt(" + " | ".join(repr(o) for o in self.options) + ")"


class PSlice(V):
    """The `p` argument of a grammar action."""

    def __init__(self, production, values: List[V]):
        self.production = production
        self.values = values

    def __repr__(self):
        return f"p<{self.production}>"


class TokV(V):
    """The `t` argument of a lexer action."""

    def __init__(self, rule_name: str):
        self.rule = rule_name
        self.attrs: Dict[str, V] = {"value": Sym("toktext", rule_name, hint="str"), "type": Const(rule_name)}

    def __repr__(self):
        return f"tok<{self.rule}>"


def lit(s: str) -> Str:
    return Str([("lit", s)])


def to_str_parts(v: V, transforms=()) -> Optional[list]:
    """Parts representing str(v)/format(v) for a value used in string context."""
    if isinstance(v, Const):
        if isinstance(v.v, str):
            return [("lit", _apply_tr(v.v, transforms))]
        if isinstance(v.v, (int, float, bool)) or v.v is None:
            return [("lit", _apply_tr(str(v.v), transforms))]
        return [("lit", _apply_tr(str(v.v), transforms))]
    if isinstance(v, Str):
        if not transforms:
            return list(v.parts)
        out = []
        for p in v.parts:
            if p[0] == "lit":
                out.append(("lit", _apply_tr(p[1], transforms)))
            elif p[0] == "dyn":
                out.append(("dyn", p[1], tuple(p[2]) + tuple(transforms)))
            else:
                out.append(("dyn", Sym("strjoin", p), tuple(transforms)))
        return out
    return [("dyn", v, tuple(transforms))]


def _apply_tr(s: str, transforms) -> str:
    for t in transforms:
        if t[0] == "replace":
            a, b = t[1], t[2]
            if isinstance(a, str) and isinstance(b, str):
                s = s.replace(a, b)
        elif t[0] == "upper":
            s = s.upper()
        elif t[0] == "lower":
            s = s.lower()
        elif t[0] == "str":
            pass
        elif t[0] == "strip":
            s = s.strip()
    return s
