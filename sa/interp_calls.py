"""Attribute access, calls and builtins for the abstract interpreter (mixed into Interp)."""
from __future__ import annotations

import ast
from typing import Any, Dict, List, Optional, Tuple

from .icommon import PathAbort, _Raise, _Return, _describe, _walk_own
from .model import Module, NotConst
from .report import AnalysisError
from .values import (FALSE, NONE, TRUE, AbsList, AltV, BoundV, Const, FuncV, ListV, MapV, NewNode, NodeV, ObjV,
                     PSlice, PyDict, PyList, PyTuple, RefV, Str, Sym, TokV, V, lit, to_str_parts)

AST_PREFIX = "odata_query.ast."
VISITOR_BASE = "odata_query.visitor.NodeVisitor"
PY_TYPES = {"builtins.str": str, "builtins.int": int, "builtins.float": float, "builtins.bool": bool,
            "builtins.tuple": tuple, "builtins.list": list, "builtins.dict": dict}


class CallMixin:
    # ------------------------------------------------------------------------------------
    # attribute reads
    # ------------------------------------------------------------------------------------
    def getattr_v(self, base: V, attr: str, module: Module, node=None) -> V:
        base = self.resolve_alt(base)
        if isinstance(base, ObjV):
            return self.obj_attr(base, attr, module, node)
        if isinstance(base, NodeV):
            return self.node_attr(base, attr)
        if isinstance(base, NewNode):
            if attr in base.fields:
                return base.fields[attr]
            return self.node_member(base, base.cls, attr)
        if isinstance(base, TokV):
            if attr in base.attrs:
                return base.attrs[attr]
            return Sym("attr", base.rule, attr)
        if isinstance(base, PSlice):
            nm = base.production.namemap()
            if attr in nm:
                self.event("p_read", index=nm[attr], name=attr)
                return base.values[nm[attr]]
            self.event("p_no_symbol", production=str(base.production), name=attr, valid=sorted(nm))
            self.may_raise("builtins.AttributeError", f"p.{attr}", definite=True)
            raise _Raise(self.make_exc("builtins.AttributeError"), self.cur_where)
        if isinstance(base, RefV):
            return self.ref_attr(base, attr)
        if isinstance(base, Sym) and base.op == "regex" and attr == "pattern":
            return Const(base.args[0])
        if isinstance(base, Sym) and base.op == "super":
            obj, after = base.args
            mro = self.repo.mro(obj.cls) if isinstance(obj, ObjV) else []
            if after in mro:
                for q in mro[mro.index(after) + 1:]:
                    ci = self.repo.classes.get(q)
                    if ci and attr in ci.methods:
                        return BoundV(obj, q, ci.methods[attr], ci.module)
            return Sym("attr", base, attr)
        if isinstance(base, Sym) and base.op == "typeof" and attr == "__name__":
            n = base.args[0]
            if isinstance(n, NodeV):
                if n.single():
                    return Const(n.single())
                return Sym("kindname", n, hint="str")
        if isinstance(base, Sym) and base.op == "fieldobj" and attr == "name":
            return Const(base.args[0])
        if isinstance(base, Sym) and base.op == "exc" and attr == "args":
            return PyTuple(list(base.args[1]))
        if isinstance(base, (Const, Str, PyList, PyTuple, PyDict, AbsList, ListV, MapV)) or \
                (isinstance(base, Sym) and (base.hint == "str" or base.op == "set")):
            # a value of a builtin type has the attributes of that type and no others
            # (the list-like values also stand for tuples and deques, the dict-like ones for the dict subclasses of collections)
            import collections
            seqs = (list, tuple, collections.deque)
            pts = {Str: (str,), PyList: seqs, PyDict: (dict, collections.OrderedDict, collections.defaultdict, collections.Counter),
                   AbsList: seqs, ListV: seqs, PyTuple: (tuple,)}.get(type(base))
            if isinstance(base, Const) and type(base.v) in (str, int, float, bool, tuple, bytes, type(None), frozenset):
                pts = (type(base.v),)
            if pts and not any(hasattr(t(), attr) for t in pts):  # of an instance: `().__name__` fails although `tuple.__name__` exists
                self.may_raise("builtins.AttributeError", f"{_describe(base)}.{attr}", definite=True)
                raise _Raise(self.make_exc("builtins.AttributeError"), self.cur_where)
            return Sym("bm", base, attr)
        if isinstance(base, (FuncV, BoundV)):
            if attr == "__name__":
                return Const(getattr(base.fn, "name", "<lambda>"))
            return Sym("attr", base, attr)
        return Sym("attr", base, attr)

    def find_property(self, cls: str, attr: str):
        """(class info, getter, setter) of a property defined with @property / @<name>.setter in the class or its bases"""
        for q in self.repo.mro(cls):
            ci = self.repo.classes.get(q)
            if ci is None:
                continue
            getter = setter = None
            for n, d in ci.all_defs:
                if n != attr or not isinstance(d, (ast.FunctionDef, ast.AsyncFunctionDef)):
                    continue
                decos = [ast.unparse(x) for x in d.decorator_list]
                if "property" in decos or "functools.cached_property" in decos or "cached_property" in decos:
                    getter = d
                elif f"{attr}.setter" in decos:
                    setter = d
            if getter is not None or setter is not None:
                return ci, getter, setter
            if any(n == attr for n, _ in ci.all_defs):
                return None
        return None

    def obj_attr(self, obj: ObjV, attr: str, module: Module, node=None) -> V:
        if attr in obj.attrs:
            return obj.attrs[attr]
        if attr == "__class__":
            return RefV(obj.cls)
        prop = self.find_property(obj.cls, attr)
        if prop is not None and prop[1] is not None:
            return self.call_function(prop[0].module, prop[1], [obj], {}, prop[0].qual)
        r = self.repo.lookup_attr(obj.cls, attr)
        if r is not None:
            ci, d = r
            if isinstance(d, (ast.FunctionDef, ast.AsyncFunctionDef)):
                decos = [ast.unparse(x) for x in d.decorator_list]
                if "staticmethod" in decos:
                    return FuncV(ci.module, d)
                if "property" in decos:
                    return self.call_function(ci.module, d, [obj], {}, ci.qual)
                b = BoundV(obj, ci.qual, d, ci.module)
                b.attr_name = attr  # type: ignore[attr-defined]
                others = [x for x in decos if x not in ("classmethod",)]
                if others:
                    b.decorators = others  # type: ignore[attr-defined]
                return b
            sk = f"{ci.qual}.{attr}"
            if sk in self.shared_objs:
                return self.shared_objs[sk]
            try:
                val = self.eval(d, {}, ci.module)
            except AnalysisError:
                return Sym("classattr", ci.qual, attr)
            if isinstance(val, (PyDict, PyList)):
                # a class-level container is one object shared by every instance
                val.created_in = None
                val.shared_name = sk
                self.shared_objs[sk] = val
            return val
        # not defined in the repo: external base class attribute, or instance data set elsewhere
        ext = [q for q in self.repo.mro(obj.cls) if q not in self.repo.classes]
        if ext and attr not in self.instance_attrs(obj.cls):
            return Sym("extattr", obj.label, attr)
        if not [q for q in ext if q != "builtins.object"] and attr not in self.instance_attrs(obj.cls) and \
                self.repo.lookup_attr(obj.cls, "__getattr__") is None and self.repo.lookup_attr(obj.cls, "__slots__") is None \
                and not attr.startswith("__") and not self._class_level_annotation(obj.cls, attr):
            # every class of the object is in the repository and none defines or assigns the attribute
            self.event("attr_missing_obj", cls=obj.cls, attr=attr)
            self.may_raise("builtins.AttributeError", f"{obj.label}.{attr}", definite=True)
            raise _Raise(self.make_exc("builtins.AttributeError"), self.cur_where)
        return Sym("cfg", obj.label, attr)

    def _class_level_annotation(self, cls: str, attr: str) -> bool:
        for q in self.repo.mro(cls):
            ci = self.repo.classes.get(q)
            if ci is None:
                continue
            for st in ci.node.body:
                if isinstance(st, ast.AnnAssign) and isinstance(st.target, ast.Name) and st.target.id == attr:
                    return True
        return False

    def instance_attrs(self, cls: str) -> set:
        cache = self.__dict__.setdefault("_inst_attrs", {})
        if cls not in cache:
            out = set()
            for q in self.repo.mro(cls):
                ci = self.repo.classes.get(q)
                if not ci:
                    continue
                for fn in ci.methods.values():
                    for n in ast.walk(fn):
                        if isinstance(n, ast.Attribute) and isinstance(n.ctx, ast.Store) and isinstance(n.value, ast.Name) \
                                and fn.args.args and n.value.id == fn.args.args[0].arg:
                            out.add(n.attr)
            cache[cls] = out
        return cache[cls]

    def enum_member_of(self, v: V) -> Optional[V]:
        """A reference `pkg.mod.Cls.NAME` to a member of an in-repo enum is that member (constants folded from module level name
        members this way)."""
        if not isinstance(v, RefV) or "." not in v.qual:
            return None
        cq, name = v.qual.rsplit(".", 1)
        ci = self.repo.classes.get(cq)
        if ci is None or name.startswith("_") or name not in ci.assigns:
            return None
        if not any(b in ("enum.Enum", "enum.IntEnum", "enum.StrEnum", "enum.Flag", "enum.IntFlag") for b in self.repo.mro(ci.qual)):
            return None
        return self.ref_attr(RefV(ci.qual), name)

    def ref_attr(self, base: RefV, attr: str) -> V:
        em = self.enum_member_of(base)
        if em is not None:
            return self.getattr_v(em, attr, self.repo.classes[em.cls].module)
        q = base.qual
        if q in self.repo.modules:
            mod = self.repo.modules[q]
            if attr in mod.functions or attr in mod.classes or attr in mod.assigns or attr in mod.imports:
                return self.lookup_global(attr, mod)
            sub = f"{q}.{attr}"
            if sub in self.repo.modules:
                return RefV(sub)
            self.may_raise("builtins.AttributeError", f"{q}.{attr}")
            self.event("module_attr_missing", module=q, attr=attr)
            return RefV(sub)
        if q in self.repo.classes:
            r = self.repo.lookup_attr(q, attr)
            if r is not None:
                ci, d = r
                if isinstance(d, (ast.FunctionDef, ast.AsyncFunctionDef)):
                    decos = [ast.unparse(x) for x in d.decorator_list]
                    if "classmethod" in decos:
                        b = BoundV(RefV(q), q, d, ci.module)  # bound to the class it was reached through
                        b.attr_name = attr  # type: ignore[attr-defined]
                        return b
                    return FuncV(ci.module, d)
                if isinstance(d, ast.expr) and not attr.startswith("_") and \
                        any(b in ("enum.Enum", "enum.IntEnum", "enum.StrEnum", "enum.Flag", "enum.IntFlag") for b in self.repo.mro(ci.qual)):
                    # a member of an in-repo enum: one object per member, with .name, .value and the class's methods
                    mk = f"{ci.qual}.{attr}"
                    if mk not in self.shared_objs:
                        val = self.eval(d, {}, ci.module)
                        self.shared_objs[mk] = ObjV(q, {"value": val, "_value_": val, "name": Const(attr), "_name_": Const(attr)}, f"enum:{ci.name}.{attr}")
                    return self.shared_objs[mk]
                try:
                    return self.eval(d, {}, ci.module)
                except AnalysisError:
                    return Sym("classattr", q, attr)
            if attr == "__name__":
                return Const(q.rsplit(".", 1)[-1])
            return RefV(f"{q}.{attr}")
        if attr == "__name__":
            return Const(q.rsplit(".", 1)[-1])
        return self.ref_value(self.repo.canonical(f"{q}.{attr}"))

    # ---- abstract nodes -------------------------------------------------------------------
    def node_discr(self, node: NodeV, kind: str) -> Optional[str]:
        df = self.kinds.discr_field(kind)
        if df and df in node.fields and isinstance(node.fields[df], NodeV):
            return node.fields[df].single()
        return None

    def node_attr(self, node: NodeV, attr: str) -> V:
        if attr in node.fields:
            return node.fields[attr]
        if attr == "__class__":
            return self.typeof(node)
        groups: Dict[Any, Tuple[Any, List[str]]] = {}
        for k in sorted(node.kinds):
            if k == "NoneType" or k not in self.schema.classes:
                sig, d = ("missing",), None
            else:
                d = self.kinds.desc(k, self.node_discr(node, k), attr)
                if d is not None:
                    sig = d.sig()
                elif attr in self.schema.classes[k].properties:
                    sig = ("prop",)
                elif attr in self.schema.classes[k].methods:
                    sig = ("meth",)
                else:
                    ca = self.repo.lookup_attr(AST_PREFIX + k, attr)
                    if ca is not None and isinstance(ca[1], ast.expr):
                        sig = ("classattr", ca[0].qual, ast.dump(ca[1]))  # a class-level constant, read through the instance
                    else:
                        sig = ("missing",)
            groups.setdefault(sig, (d, []))[1].append(k)
        sigs = sorted(groups, key=repr)
        sig = sigs[self.choose(len(sigs), f"attr({node.path}.{attr})")]
        d, ks = groups[sig]
        if len(sigs) > 1:
            node.kinds = set(ks)
            self.cond(f"kind({node.path}) in", tuple(ks))
        if sig == ("missing",):
            self.event("attr_missing", node=node.path, attr=attr, kinds=tuple(ks))
            self.may_raise("builtins.AttributeError", f"{node.path}.{attr} on {','.join(ks)}", definite=True)
            raise _Raise(self.make_exc("builtins.AttributeError"), self.cur_where)
        if sig[0] == "classattr":
            ca = self.repo.lookup_attr(AST_PREFIX + ks[0], attr)
            return self.eval(ca[1], {}, ca[0].module)
        if sig == ("prop",):
            self.event("node_prop", node=node.path, attr=attr, kinds=tuple(ks))
            v: V = Sym("prop", node, attr)
            self.prop_may_raise(ks, attr)
            return v
        if sig == ("meth",):
            return Sym("nodemeth", node, attr)
        if d.shape == "node":
            v = NodeV(f"{node.path}.{attr}", d.kinds, node, via=attr)
        elif d.shape == "list":
            elem = NodeV(f"{node.path}.{attr}[*]", d.kinds, node, via=attr)
            v = ListV(f"{node.path}.{attr}", elem, d.minlen, node, attr)
        else:
            v = Sym("field", node, attr, hint=d.pytype if d.pytype in ("str", "tuple", "int") else None)
            self.event("field_read", node=node.path, attr=attr, kinds=tuple(ks))
        node.fields[attr] = v
        return v

    def prop_may_raise(self, kinds: List[str], attr: str):
        """A node property whose body calls a partial conversion may raise ValueError."""
        for k in kinds:
            ci = self.repo.classes.get(AST_PREFIX + k)
            if not ci:
                continue
            r = self.repo.lookup_method(ci.qual, attr)
            if not r:
                continue
            for n in ast.walk(r[1]):
                if isinstance(n, ast.Call):
                    t = ast.unparse(n.func)
                    if t.endswith("fromisoformat") or t in ("isoparse", "UUID", "int", "float") or t.endswith(".unpack"):
                        if t in ("int", "float", "UUID"):
                            continue  # total on the token languages of the lexer (checked by C06)
                        self.may_raise("builtins.ValueError", f"{k}.{attr} -> {t}")
                        return

    def node_member(self, node: V, kind: str, attr: str) -> V:
        ci = self.repo.classes.get(AST_PREFIX + kind)
        if ci:
            r = self.repo.lookup_attr(ci.qual, attr)
            if r and isinstance(r[1], ast.FunctionDef):
                decos = [ast.unparse(x) for x in r[1].decorator_list]
                if "property" in decos:
                    return self.call_function(r[0].module, r[1], [node], {}, r[0].qual)
                return BoundV(node, r[0].qual, r[1], r[0].module)
        self.event("attr_missing", node=_describe(node), attr=attr, kinds=(kind,))
        self.may_raise("builtins.AttributeError", f"{kind}.{attr}", definite=True)
        raise _Raise(self.make_exc("builtins.AttributeError"), self.cur_where)

    def typeof(self, v: V) -> V:
        v = self.resolve_alt(v)
        if isinstance(v, NodeV):
            if getattr(self, "eager_typeof", False):
                self.force_single(v)
            if v.single():
                k = v.single()
                return RefV("builtins.NoneType" if k == "NoneType" else AST_PREFIX + k)
            return Sym("typeof", v)
        if isinstance(v, NewNode):
            return RefV(AST_PREFIX + v.cls)
        if isinstance(v, ObjV):
            return RefV(v.cls)
        if isinstance(v, Const):
            return RefV("builtins." + type(v.v).__name__)
        if isinstance(v, Str):
            return RefV("builtins.str")
        if isinstance(v, (PyList, AbsList, ListV, MapV)):
            return RefV("builtins.list")
        if isinstance(v, PyTuple):
            return RefV("builtins.tuple")
        if isinstance(v, PyDict):
            return RefV("builtins.dict")
        return Sym("typeof", v)

    # ------------------------------------------------------------------------------------
    # isinstance / hasattr
    # ------------------------------------------------------------------------------------
    def class_list(self, c: V) -> List[V]:
        c = self.resolve_alt(c)
        if isinstance(c, PyTuple):
            out: List[V] = []
            for x in c.items:
                out.extend(self.class_list(x))
            return out
        return [c]

    def isinstance_v(self, v: V, c: V) -> bool:
        v = self.resolve_alt(v)
        classes = self.class_list(c)
        if classes and isinstance(classes[0], (NodeV, NewNode, Str, PyList, PyDict, Const)):
            # the first thing isinstance() looks at is an instance, not a class: TypeError whatever the object is
            self.may_raise("builtins.TypeError", f"isinstance(_, {_describe(classes[0])})", definite=True)
            raise _Raise(self.make_exc("builtins.TypeError"), self.cur_where)
        quals = [x.qual for x in classes if isinstance(x, RefV)]
        unknown_cls = [x for x in classes if not isinstance(x, RefV)]
        kinds_t = [q[len(AST_PREFIX):] for q in quals if q.startswith(AST_PREFIX)]
        if isinstance(v, NodeV):
            yes = {k for k in v.kinds if k != "NoneType" and any(self.schema.is_sub(k, t) for t in kinds_t)}
            if "builtins.object" in quals:
                yes = set(v.kinds)
            if not yes:
                return False
            if yes == v.kinds:
                return True
            r = self.choose(2, f"isinstance({v.path})") == 0
            self.cond(f"isinstance({v.path},{'|'.join(sorted(kinds_t))})", r)
            v.kinds = set(yes) if r else v.kinds - yes
            return r
        if isinstance(v, NewNode):
            return any(self.schema.is_sub(v.cls, t) for t in kinds_t) or "builtins.object" in quals
        pt = None
        if isinstance(v, Const):
            pt = type(v.v)
        elif isinstance(v, Str):
            pt = str
        elif isinstance(v, (PyList, AbsList, ListV, MapV)):
            pt = list
        elif isinstance(v, PyTuple):
            pt = tuple
        elif isinstance(v, PyDict):
            pt = dict
        elif isinstance(v, Sym) and v.hint in ("str", "int", "tuple"):
            pt = {"str": str, "int": int, "tuple": tuple}[v.hint]
        if pt is not None:
            for q in quals:
                t = PY_TYPES.get(q)
                if t is not None and issubclass(pt, t):
                    return True
                if q == "builtins.object":
                    return True
            return False
        if isinstance(v, ObjV):
            mro = self.repo.mro(v.cls)
            if any(q in mro for q in quals):
                return True
            if all(q in self.repo.classes or q.startswith("builtins.") for q in quals) and not unknown_cls:
                ext = [q for q in mro if q not in self.repo.classes]
                if not ext or all(q.startswith(AST_PREFIX) for q in quals):
                    return False
        if isinstance(v, (RefV, FuncV, BoundV)) and all(q.startswith(AST_PREFIX) or q in PY_TYPES for q in quals) and not unknown_cls:
            return False
        if isinstance(v, Sym) and v.op == "exc" and isinstance(v.args[0], RefV):
            if any(self.exc_isa(v.args[0].qual, q) for q in quals):
                return True
        key = f"isinstance({_describe(v)},{'|'.join(sorted(q.rsplit('.', 1)[-1] for q in quals))})"
        return self.unknown_bool(key)

    def _node_method_tuple_width(self, n: NodeV, name: str) -> Optional[int]:
        """If the method of every class the node can have always returns a tuple of one fixed length, that length
        (found by evaluating the method once per class; cached)."""
        cache = self.shared.setdefault("node_method_width", {})
        widths = set()
        for kind in sorted(n.kinds):
            key = (kind, name)
            if key not in cache:
                cache[key] = None
                r = self.repo.lookup_method(AST_PREFIX + kind, name)
                if r is not None:
                    ci, fn = r
                    is_prop = any(isinstance(d, ast.Name) and d.id == "property" for d in fn.decorator_list)
                    if not is_prop:
                        try:
                            child = self.__class__(self.repo, self.schema, self.kinds)
                            child.shared = self.shared
                            paths = child.explore(lambda it_, ci=ci, fn=fn, kind=kind: (ci.module, fn, [NodeV("node", {kind})], {}, ci.qual), max_paths=2000)
                            ws = {len(p.value.items) if isinstance(p.value, PyTuple) else None for p in paths if p.outcome == "return"}
                            if len(ws) == 1 and None not in ws:
                                cache[key] = ws.pop()
                        except AnalysisError:
                            cache[key] = None
            widths.add(cache[key])
        if len(widths) == 1 and None not in widths:
            return widths.pop()
        return None

    def hasattr_v(self, v: V, name: V) -> bool:
        v = self.resolve_alt(v)
        if not (isinstance(name, Const) and isinstance(name.v, str)):
            return self.unknown_bool(f"hasattr({_describe(v)},{_describe(name)})")
        a = name.v
        if isinstance(v, NodeV):
            yes = {k for k in v.kinds if k != "NoneType" and self.schema.has_attr(k, a)}
            if not yes:
                return False
            if yes == v.kinds:
                return True
            r = self.choose(2, f"hasattr({v.path},{a})") == 0
            self.cond(f"hasattr({v.path},{a})", r)
            v.kinds = set(yes) if r else v.kinds - yes
            return r
        if isinstance(v, NewNode):
            return self.schema.has_attr(v.cls, a)
        if isinstance(v, ObjV):
            if a in v.attrs or self.repo.lookup_attr(v.cls, a) is not None:
                return True
            if all(q in self.repo.classes for q in self.repo.mro(v.cls)) and a not in self.instance_attrs(v.cls):
                return False
        if isinstance(v, (Const, Str, PyList, PyTuple, PyDict)):
            t = {Const: type(getattr(v, "v", None)), Str: str, PyList: list, PyTuple: tuple, PyDict: dict}[type(v)]
            return hasattr(t, a)
        return self.unknown_bool(f"hasattr({_describe(v)},{a})")

    # ------------------------------------------------------------------------------------
    # calls
    # ------------------------------------------------------------------------------------
    def ev_Call(self, e: ast.Call, env, module):
        func = self.eval(e.func, env, module)
        args = self.eval_seq(e.args, env, module)
        kwargs: Dict[str, V] = {}
        star_kw: List[V] = []
        for kw in e.keywords:
            v = self.eval(kw.value, env, module)
            if kw.arg is None:
                v = self.resolve_alt(v)
                if isinstance(v, PyDict) and not v.opaque_keys and all(k[0] == "c" and isinstance(k[1], str) for k in v.items):
                    for k, x in v.items.items():
                        kwargs[k[1]] = x
                else:
                    star_kw.append(v)
            else:
                kwargs[kw.arg] = v
        self.cur_where = module.loc(e)
        if star_kw:
            kwargs["**"] = star_kw[0]
        return self.call_v(func, args, kwargs, module, e, env)

    def call_v(self, func: V, args: List[V], kwargs: Dict[str, V], module: Module, node, env=None) -> V:
        func = self.resolve_alt(func)
        if isinstance(func, BoundV):
            return self.call_bound(func, args, kwargs, module, node)
        if isinstance(func, FuncV):
            q = f"{func.module.name}.{getattr(func.fn, 'name', '<lambda>')}"
            ov = getattr(self, "func_overrides", None)
            if ov and q in ov:
                return ov[q](self, args, kwargs)
            if q in self.opaque_funcs:
                self.event("call_repo_func", func=q, args=args)
                return Sym("call", RefV(q), tuple(args), _kw(kwargs))
            if isinstance(func.fn, ast.FunctionDef) and func.fn.decorator_list and not getattr(func, "bound_cls", None) and args:
                regs = self.repo.singledispatch_table(func.module, func.fn)
                if regs is not None:
                    # functools.singledispatch: the implementation registered for the most specific class of the first argument
                    a0 = self.resolve_alt(args[0])
                    cands = []
                    for texpr, rm, impl in regs:
                        tv = self.eval(texpr, {}, rm)
                        tq = tv.qual if isinstance(tv, RefV) else ""
                        depth = len(self.repo.mro(tq)) if tq in self.repo.classes else (2 if tq != "builtins.object" else 0)
                        cands.append((depth, tv, rm, impl))
                    for _, tv, rm, impl in sorted(cands, key=lambda c: -c[0]):
                        if self.isinstance_v(a0, tv):
                            return self.call_function(rm, impl, [a0] + list(args[1:]), kwargs, None)
                    return self.call_function(func.module, func.fn, [a0] + list(args[1:]), kwargs, None,
                                              closure=func.closure if isinstance(func.closure, dict) else None)
            args = self.flatten_stars(args)
            if any(isinstance(a, Sym) and a.op == "star" for a in args) and not self.stars_fit_vararg(func.fn, args, 0):
                self.event("star_call", func=q)
                return Sym("call", RefV(q), tuple(args), _kw(kwargs))
            if "**" in kwargs:
                extra = kwargs.pop("**")
                if isinstance(extra, PyDict) and not extra.opaque_keys and not extra.items:
                    pass
                else:
                    kwargs["**"] = extra
            if getattr(func, "bound_cls", None):
                return self.call_function(func.module, func.fn, args, {k: v for k, v in kwargs.items() if k != "**"},
                                          func.bound_cls, closure=func.closure if isinstance(func.closure, dict) else None)
            if q in self.summarise_funcs and not kwargs and args and \
                    all(isinstance(a, (NodeV, Const, RefV)) for a in args) and any(isinstance(a, NodeV) for a in args):
                return self.call_summarised(q, func, args)
            return self.call_function(func.module, func.fn, args, kwargs, None, closure=func.closure if isinstance(func.closure, dict) else None)
        if isinstance(func, RefV):
            return self.call_ref(func, args, kwargs, module, node, env)
        if isinstance(func, ObjV) and func.cls in self.repo.classes and self.repo.lookup_method(func.cls, "__call__") is not None:
            # an instance of an in-repo class with __call__
            return self.call_v(self.getattr_v(func, "__call__", module, node), args, kwargs, module, node, env)
        if isinstance(func, Sym):
            if func.op == "partial":
                f0, a0, kw0 = func.args
                kw = dict(kw0 or ())
                kw.update(kwargs)
                return self.call_v(f0, list(a0) + list(args), kw, module, node, env)
            if func.op == "attrgetter" and len(args) == 1 and not kwargs:
                v = args[0]
                for part in func.args[0].split("."):
                    v = self.getattr_v(self.resolve_alt(v), part, module, node)
                return v
            if func.op == "itemgetter" and len(args) == 1 and not kwargs:
                return self.getitem(self.resolve_alt(args[0]), func.args[0], module, node)
            if func.op == "methodcaller" and len(args) == 1 and not kwargs:
                m = self.getattr_v(self.resolve_alt(args[0]), func.args[0], module, node)
                return self.call_v(m, list(func.args[1]), dict(func.args[2] or ()), module, node, env)
            if func.op == "attr" and func.args[1] == "get" and len(args) in (1, 2) and not kwargs and isinstance(func.args[0], Sym) \
                    and func.args[0].op == "cfg":
                # <mapping attribute of self>.get(k[, default]): the same two cases as `m[k] if k in m else default`
                if self.contains(func.args[0], self.resolve_alt(args[0]), "mapping.get"):
                    return Sym("item", func.args[0], args[0])
                return args[1] if len(args) == 2 else NONE
            if func.op == "attr" and func.args[1] in ("group", "__getitem__") and isinstance(func.args[0], Sym) and func.args[0].op == "rematch1" \
                    and (not args or (len(args) == 1 and isinstance(args[0], Const) and args[0].v == 0)) and not kwargs:
                return func.args[0].args[0]  # the whole match of a single-character pattern: that character
            if func.op == "attr" and func.args[1] == "sub" and len(args) == 2 and not kwargs and isinstance(func.args[0], Sym) \
                    and func.args[0].op == "regex" and isinstance(self.resolve_alt(args[0]), (FuncV, BoundV)):
                # REGEX.sub(callback, text) for a pattern that is one class of literal characters: the callback is evaluated per
                # character; if each gets a constant replacement, this is the chain of replaces (when they are independent)
                chars = _single_char_class(func.args[0].args[0], func.args[0].args[1] if len(func.args[0].args) > 1 else ())
                base_txt = self.resolve_alt(args[1])
                if chars is not None and (isinstance(base_txt, Str) or (isinstance(base_txt, Const) and isinstance(base_txt.v, str)) or (isinstance(base_txt, Sym) and base_txt.hint == "str")):
                    pairs = []
                    for ch in chars:
                        r = self.call_v(self.resolve_alt(args[0]), [Sym("rematch1", Const(ch))], {}, module, node, env)
                        if isinstance(r, Const) and isinstance(r.v, str):
                            pairs.append((ch, r.v))
                        else:
                            pairs = None
                            break
                    if pairs is not None and all(pairs[j][0] not in pairs[i][1] for i in range(len(pairs)) for j in range(i + 1, len(pairs))):
                        s2 = Str(to_str_parts(base_txt, tuple(("replace", k, r) for k, r in pairs)))
                        return Const(s2.const()) if s2.is_const() else s2
            if func.op == "attr" and func.args[1] == "groups" and not args and not kwargs:
                # <constant regex>.match/fullmatch/search(text).groups(): one entry per capture group of the pattern
                mt = func.args[0]
                if isinstance(mt, Sym) and mt.op == "call" and isinstance(mt.args[0], Sym) and mt.args[0].op == "attr" and \
                        mt.args[0].args[1] in ("match", "fullmatch", "search") and isinstance(mt.args[0].args[0], Sym) and mt.args[0].args[0].op == "regex":
                    import re as _re
                    try:
                        n = _re.compile(mt.args[0].args[0].args[0]).groups
                    except _re.error:
                        n = None
                    if n is not None:
                        call = Sym("call", func, (), ())
                        return PyTuple([Sym("elem", call, i) for i in range(n)])
            if func.op == "calldecorated":
                m, fn, a, kw, cls = self._deco_target
                return self.call_decorated(m, fn, a, kw, cls)
            if func.op == "bm":
                return self.call_builtin_method(func.args[0], func.args[1], args, kwargs, module, node)
            if func.op == "nodemeth":
                n, name = func.args
                if name.startswith("_") and not name.startswith("__") and isinstance(n, NodeV) and len(n.kinds) == 1:
                    # a private helper of the node's own class: evaluated, not treated as an opaque node method
                    r0 = self.repo.lookup_method(AST_PREFIX + next(iter(n.kinds)), name)
                    if r0 is not None and len(self.stack) < self.inline_depth + 2:
                        decos0 = [ast.unparse(x) for x in r0[1].decorator_list]
                        if "staticmethod" in decos0:
                            return self.call_function(r0[0].module, r0[1], list(args), kwargs, r0[0].qual)
                        if "classmethod" in decos0:
                            return self.call_function(r0[0].module, r0[1], [RefV(r0[0].qual)] + list(args), kwargs, r0[0].qual)
                        if "property" not in decos0:
                            return self.call_function(r0[0].module, r0[1], [n] + list(args), kwargs, r0[0].qual)
                self.event("node_method", node=_describe(n), method=name)
                if name == "unpack" or name.startswith("py_"):
                    self.may_raise("builtins.ValueError", f"{_describe(n)}.{name}()")
                res = Sym("meth", n, name, tuple(args), hint="str" if name in ("full_name", "wkt") else None)
                if not args and not kwargs and isinstance(n, NodeV):
                    width = self._node_method_tuple_width(n, name)
                    if width is not None:
                        return PyTuple([Sym("elem", res, i) for i in range(width)])
                return res
            if func.op == "dynmethod":
                obj, prefix, key = func.args
                self.event("dispatch", prefix=prefix, key=key, args=args, kwargs=dict(kwargs),
                           caught=[n for names in self.try_stack for n in names])
                return Sym("dispatch", prefix, key, tuple(args), _kw(kwargs))
            if func.op == "typeof" and isinstance(func.args[0], NodeV):
                n = func.args[0]
                self.force_single(n)
                return self.call_v(self.typeof(n), args, kwargs, module, node, env)
        self.event("extcall", func=func, args=args, kwargs=dict(kwargs))
        self.external_may_raise(f"call {_describe(func)}")
        return Sym("call", func, tuple(args), _kw(kwargs))

    def call_decorated(self, module: Module, fn, args: List[V], kwargs: Dict[str, V], cls: Optional[str]) -> V:
        """Call a function through its decorators (in-repo decorators are evaluated: their wrapper is a
        closure that eventually calls the function)."""
        f: V = FuncV(module, fn)
        f.bound_cls = cls  # type: ignore[attr-defined]
        for d in reversed(fn.decorator_list):
            txt = ast.unparse(d)
            if txt in ("staticmethod", "classmethod", "property"):
                continue
            dv = self.eval(d, {}, module)
            f = self.call_v(dv, [f], {}, module, d)
        if isinstance(f, FuncV) and f.fn is fn:
            return self.call_function(module, fn, args, kwargs, cls)
        return self.call_v(f, args, kwargs, module, fn)

    def call_summarised(self, q: str, func: FuncV, args: List[V]) -> V:
        """Call a pure in-repo function through a summary: the function is explored separately on
        fresh copies of its node arguments; paths are grouped by outcome; the caller chooses a group
        and the arguments' kind sets are narrowed to the union over that group (sound join)."""
        def akey(a):
            if isinstance(a, NodeV):
                return (a.path.count("."), tuple(sorted(a.kinds)))
            return repr(a)

        key = (q, tuple(akey(a) for a in args))
        cache = self.shared.setdefault("summaries", {})
        inprog = self.shared.setdefault("in_progress", set())
        if key not in cache:
            if key in inprog:
                self.event("summary_recursion", func=q)
                return Sym("summary_rec", q, tuple(_describe(a) for a in args))
            inprog.add(key)
            try:
                child = self.__class__(self.repo, self.schema, self.kinds, tuple(self.opaque_funcs), self.summaries,
                                       self.inline_depth)
                child.shared = self.shared
                child.summarise_funcs = self.summarise_funcs
                child.eager_typeof = True

                def setup(it, args=args):
                    fresh = [NodeV(f"${i}", a.kinds) if isinstance(a, NodeV) else a for i, a in enumerate(args)]
                    it._cur_args = fresh
                    return func.module, func.fn, fresh, {}, None


                groups: Dict[str, Dict[str, Any]] = {}
                for res in child.explore(setup):
                    okey = res.outcome + ":" + repr(res.value)
                    g = groups.setdefault(okey, {"outcome": res.outcome, "value": res.value, "where": res.where,
                                                 "kinds": [set() for _ in args], "events": {},
                                                 "names_in": [set() for _ in args], "names_any": [False for _ in args],
                                                 "names_out": [None for _ in args]})
                    for i, ks in enumerate(res.entry.get("arg_kinds", [])):
                        if ks is not None:
                            g["kinds"][i] |= ks
                            if "Call" in ks:
                                # what this path learnt about the called function's name
                                eqs = [v for k, v in res.entry.get("sym_eq", {}).items() if f"${i}.func" in k and isinstance(v, str)]
                                neqs = set()
                                for k, v in res.entry.get("sym_neq", {}).items():
                                    if f"${i}.func" in k:
                                        neqs |= {x for x in v if isinstance(x, str)}
                                if eqs:
                                    g["names_in"][i].add(eqs[0])
                                else:
                                    g["names_any"][i] = True
                                    g["names_out"][i] = neqs if g["names_out"][i] is None else (g["names_out"][i] & neqs)
                    for ev in res.events:
                        if ev.kind in ("may_raise", "attr_missing", "index_maybe_out_of_range"):
                            g["events"][ev.kind + repr(sorted(ev.data.items(), key=lambda kv: kv[0]))] = ev
                cache[key] = list(groups.values())
            finally:
                inprog.discard(key)
        groups_l = cache[key]
        feasible = [g for g in groups_l
                    if all(not isinstance(a, NodeV) or (g["kinds"][i] & a.kinds) for i, a in enumerate(args))]
        if not feasible:
            raise PathAbort()
        g = feasible[self.choose(len(feasible), f"summary({q})")]
        for i, a in enumerate(args):
            if isinstance(a, NodeV):
                new = a.kinds & g["kinds"][i]
                if new != a.kinds:
                    a.kinds = set(new)
                if "Call" in a.kinds and "names_in" in g:
                    if not g["names_any"][i]:
                        a.call_in = set(g["names_in"][i]) if a.call_in is None else (a.call_in & g["names_in"][i])
                    else:
                        out = (g["names_out"][i] or set()) - g["names_in"][i]
                        a.call_out |= out
        if len(feasible) > 1:
            self.cond(f"{q.rsplit('.', 1)[-1]}({','.join(_describe(a) for a in args)})", repr(g["value"]))
        for ev in g["events"].values():
            self.events.append(ev)
        if g["outcome"] == "raise":
            raise _Raise(g["value"], g["where"])
        return g["value"]

    def call_bound(self, b: BoundV, args, kwargs, module, node) -> V:
        name = b.fn.name
        obj = b.obj
        if name == "visit" and isinstance(obj, ObjV) and VISITOR_BASE in self.repo.mro(obj.cls) and \
                not getattr(self, "inline_visit", False):
            arg = args[0] if args else kwargs.get("node", NONE)
            self.event("visit", visitor=obj.label, vcls=obj.cls, arg=arg, nargs=len(args) + len(kwargs))
            # the handlers behind the hole may fill the visitor's collections (joins, annotations, ...)
            for k, av in list(obj.attrs.items()):
                if isinstance(av, (PyList, PyDict)):
                    obj.attrs[k] = Sym("collected", obj.label, k)
            return Sym("visit", obj.label, arg)
        stub = getattr(self, "stub_methods", None)
        looked_up = getattr(b, "attr_name", name)
        if stub is not None and stub(looked_up) and len(self.stack) >= 1:
            self.event("stub_call", name=looked_up, cls=b.cls, args=list(args), kwargs=dict(kwargs))
            # the handler behind the stub can raise whatever an enclosing try is prepared to catch
            self.external_may_raise(f"handler {looked_up}")
            return Sym("stubcall", f"{b.cls}.{looked_up}", tuple(args))
        decos = getattr(b, "decorators", None)
        if decos and not getattr(self, "_in_decorated", False):
            self.event("decorated_call", func=name, decorators=decos)
            return self.call_decorated(b.module, b.fn, [obj] + list(args), kwargs, b.cls)
        args = self.flatten_stars(args)
        if any(isinstance(a, Sym) and a.op == "star" for a in args) and not self.stars_fit_vararg(b.fn, args, 1):
            self.event("star_call", func=name)
            return Sym("call", Sym("attr", obj, name), tuple(args), _kw(kwargs))
        return self.call_function(b.module, b.fn, [obj] + list(args), kwargs, b.cls)

    def flatten_stars(self, args: List[V]) -> List[V]:
        """f(a, *xs): a starred argument whose items are known is spliced in place"""
        if not any(isinstance(a, Sym) and a.op == "star" for a in args):
            return list(args)
        out: List[V] = []
        for a in args:
            if isinstance(a, Sym) and a.op == "star":
                items = self.concrete_items(self.resolve_alt(a.args[0]))
                if items is not None and not any(isinstance(x, Sym) and x.op in ("elemof", "star") for x in items):
                    out.extend(items)
                    continue
            out.append(a)
        return out

    @staticmethod
    def stars_fit_vararg(fn, args: List[V], bound: int) -> bool:
        """Do all starred arguments of unknown length land in the callee's *args parameter?"""
        a = getattr(fn, "args", None)
        if a is None or a.vararg is None:
            return False
        npos = len(a.posonlyargs) + len(a.args) - bound
        first = next(i for i, x in enumerate(args) if isinstance(x, Sym) and x.op == "star")
        return first >= npos

    def call_ref(self, func: RefV, args, kwargs, module, node, env) -> V:
        q = func.qual
        if q.startswith("builtins."):
            return self.call_builtin(q[9:], args, kwargs, module, node, env)
        if q.startswith(AST_PREFIX) and q[len(AST_PREFIX):] in self.schema.classes:
            return self.construct_node(q[len(AST_PREFIX):], args, kwargs, module, node)
        if q in self.repo.classes:
            return self.instantiate(q, args, kwargs, module, node)
        if q in ("operator.contains", "_operator.contains") and len(args) == 2:
            return Const(self.contains(self.resolve_alt(args[0]), self.resolve_alt(args[1]), "operator.contains"))
        if q in ("operator.eq", "_operator.eq") and len(args) == 2:
            return Const(self.equal(self.resolve_alt(args[0]), self.resolve_alt(args[1]), False, "operator.eq"))
        if q in ("operator.ne", "_operator.ne") and len(args) == 2:
            return Const(not self.equal(self.resolve_alt(args[0]), self.resolve_alt(args[1]), False, "operator.ne"))
        if q in ("operator.is_",) and len(args) == 2:
            return Const(self.equal(self.resolve_alt(args[0]), self.resolve_alt(args[1]), True, "operator.is_"))
        if q in ("operator.not_",) and len(args) == 1:
            return Const(not self.truthy(args[0], "operator.not_"))
        if q in ("operator.invert", "operator.inv", "_operator.invert", "_operator.inv") and len(args) == 1 and not kwargs:
            return Sym("unop", "Invert", self.resolve_alt(args[0]))  # same value as `~x`
        if q in ("functools.wraps", "functools.update_wrapper"):
            return RefV("builtins.__identity__")
        if q in ("functools.lru_cache", "functools.cache"):
            # a memoised function computes what the function computes (whether sharing the cached object is harmless is C20's rule)
            if len(args) == 1 and not kwargs and isinstance(args[0], (FuncV, BoundV)):
                return args[0]
            return RefV("builtins.__identity__")
        if q == "re.compile" and args and isinstance(args[0], (Const,)) and isinstance(args[0].v, str):
            fl = args[1] if len(args) > 1 else kwargs.get("flags")
            flags: Tuple[str, ...] = ()
            ok = True
            if fl is not None:
                if isinstance(fl, RefV):
                    flags = tuple(fl.qual.split("|"))
                elif isinstance(fl, Const) and fl.v in (0, None):
                    flags = ()
                else:
                    ok = False
            if ok:
                return Sym("regex", args[0].v, flags)
        if q == "functools.partial" and args:
            return Sym("partial", args[0], tuple(args[1:]), _kw(kwargs))
        if q in ("operator.attrgetter", "_operator.attrgetter") and len(args) == 1 and isinstance(args[0], Const) and isinstance(args[0].v, str):
            return Sym("attrgetter", args[0].v)
        if q in ("operator.itemgetter", "_operator.itemgetter") and len(args) == 1:
            return Sym("itemgetter", args[0])
        if q in ("operator.methodcaller", "_operator.methodcaller") and args and isinstance(args[0], Const) and isinstance(args[0].v, str):
            return Sym("methodcaller", args[0].v, tuple(args[1:]), _kw(kwargs))
        if q == "itertools.accumulate" and len(args) == 1 and not kwargs:
            items = self.concrete_items(self.resolve_alt(args[0]))
            if items is not None:
                out_a: List[V] = []
                acc = None
                for x in items:
                    acc = x if acc is None else self.binop(ast.Add(), acc, x, module, node)
                    out_a.append(acc)
                res_a = PyList(out_a)
                res_a.created_in = self._frame_id()  # type: ignore[attr-defined]
                return res_a
        if q in ("collections.deque", "_collections.deque") and len(args) <= 1 and not kwargs:
            # a deque is a list that can also grow at the left (appendleft: see list_method)
            dq = PyList([])
            dq.created_in = self._frame_id()  # type: ignore[attr-defined]
            if args:
                self.list_extend(dq, self.resolve_alt(args[0]))
            return dq
        if q == "itertools.accumulate" and 1 <= len(args) <= 2 and set(kwargs) <= {"func", "initial"} and not (len(args) == 2 and "func" in kwargs):
            # running left fold: [initial,] then acc = f(acc, item) for every item; the results so far are collected in order
            f = args[1] if len(args) == 2 else kwargs.get("func")
            it = self.resolve_alt(args[0])
            init = kwargs.get("initial")
            if isinstance(init, Const) and init.v is None:
                init = None
            out_l = PyList([])
            out_l.created_in = self._frame_id()  # type: ignore[attr-defined]
            out_l._loop_depth = len(self.loop_ctx)  # type: ignore[attr-defined]
            box = {"acc": init}
            if init is not None:
                out_l.items.append(init)
            else:
                items0 = self.concrete_items(it)
                if items0 is None and isinstance(it, PyList) and it.items:
                    items0 = None
                if items0 is not None:
                    if not items0:
                        return out_l
                    box["acc"], it = items0[0], PyList(items0[1:])
                    out_l.items.append(box["acc"])
                else:
                    box = None  # type: ignore[assignment]
            if box is not None:
                def body_acc(item):
                    box["acc"] = self.binop(ast.Add(), box["acc"], item, module, node) if f is None else self.call_v(f, [box["acc"], item], {}, module, node, env)
                    self.list_append(out_l, box["acc"])

                self.iterate(it, body_acc, module, node)
                return out_l
        if q in ("itertools.chain", "itertools.chain.from_iterable"):
            seqs = list(args)
            if q.endswith("from_iterable") and len(args) == 1:
                inner = self.concrete_items(self.resolve_alt(args[0]))
                seqs = inner if inner is not None else None
            if seqs is not None:
                parts = [self.concrete_items(self.resolve_alt(x)) for x in seqs]
                if all(p is not None for p in parts):
                    return PyList([x for p in parts for x in p])
                out = PyList([])
                out.created_in = self._frame_id()  # type: ignore[attr-defined]
                for x in seqs:
                    self.list_extend(out, self.resolve_alt(x))
                return out
        if q in ("functools.reduce", "_functools.reduce") and len(args) in (2, 3) and not kwargs:
            # left fold: acc = f(acc, item) for every item (abstract iterables: the loop abstraction of `for`)
            f, it = args[0], self.resolve_alt(args[1])
            box = {"acc": args[2] if len(args) == 3 else None}
            if box["acc"] is None:
                items = self.concrete_items(it)
                if not items:
                    self.event("extcall", func=func, args=args, kwargs={})
                    return Sym("call", func, tuple(args), ())
                box["acc"], it = items[0], PyList(items[1:])

            def body(item):
                box["acc"] = self.call_v(f, [box["acc"], item], {}, module, node, env)

            self.iterate(it, body, module, node)
            return box["acc"]
        if q == "dataclasses.replace" and len(args) == 1 and "**" not in kwargs:
            # a copy of the node with some fields changed: built through the class's constructor, like any other new node
            n = self.resolve_alt(args[0])
            kind = None
            if isinstance(n, NodeV) and "NoneType" not in n.kinds:
                self.force_single(n)
                kind = n.single()
            elif isinstance(n, NewNode):
                kind = n.cls
            if kind in self.schema.classes:
                names = [f.name for f in self.schema.classes[kind].fields]
                if all(k in names for k in kwargs):
                    vals = {fn: (kwargs[fn] if fn in kwargs else self.getattr_v(n, fn, module, node)) for fn in names}
                    return self.construct_node(kind, [], vals, module, node)
        if q == "dataclasses.fields" and len(args) == 1:
            n = self.resolve_alt(args[0])
            if isinstance(n, NodeV):
                self.force_single(n)
                kind = n.single()
            elif isinstance(n, NewNode):
                kind = n.cls
            else:
                kind = None
            if kind in self.schema.classes:
                return PyTuple([Sym("fieldobj", f.name) for f in self.schema.classes[kind].fields])
        self.event("extcall", func=func, args=args, kwargs=dict(kwargs))
        self.external_may_raise(f"call {func.qual}")
        return Sym("call", func, tuple(args), _kw(kwargs))

    def construct_node(self, kind: str, args, kwargs, module, node) -> V:
        nc = self.schema.classes[kind]
        fields: Dict[str, V] = {}
        names = [f.name for f in nc.fields]
        flat: List[V] = []
        for a in args:
            if isinstance(a, Sym) and a.op == "star":
                items = self.concrete_items(self.resolve_alt(a.args[0]))
                if items is None:
                    self.event("node_ctor_star_opaque", kind=kind)
                    return Sym("call", RefV(AST_PREFIX + kind), tuple(args), _kw(kwargs))
                flat.extend(items)
            else:
                flat.append(a)
        if len(flat) > len(names):
            self.event("node_ctor_arity", kind=kind, given=len(flat), fields=len(names))
            self.may_raise("builtins.TypeError", f"{kind}() takes {len(names)} fields", definite=True)
            raise _Raise(self.make_exc("builtins.TypeError"), self.cur_where)
        for n, a in zip(names, flat):
            fields[n] = a
        for k, v in kwargs.items():
            if k == "**":
                continue
            if k not in names or k in fields:
                self.event("node_ctor_arity", kind=kind, bad_kw=k)
                self.may_raise("builtins.TypeError", f"{kind}({k}=)", definite=True)
                raise _Raise(self.make_exc("builtins.TypeError"), self.cur_where)
            fields[k] = v
        for f in nc.fields:
            if f.name not in fields:
                if f.has_default:
                    fields[f.name] = Const(()) if f.shape == "tuple_scalar" else Sym("default", kind, f.name)
                else:
                    self.event("node_ctor_arity", kind=kind, missing=f.name)
                    self.may_raise("builtins.TypeError", f"{kind}() missing {f.name}", definite=True)
                    raise _Raise(self.make_exc("builtins.TypeError"), self.cur_where)
        fields = {n: fields[n] for n in names}
        nn = NewNode(kind, fields, self.cur_where)
        self.event("new_node", node=nn)
        post = self.repo.lookup_method(AST_PREFIX + kind, "__post_init__")
        if post is not None and len(self.stack) < self.inline_depth + 2:
            # the generated __init__ of a dataclass ends by calling __post_init__: validations there can refuse the node
            self.call_function(post[0].module, post[1], [nn], {}, post[0].qual)
        return nn

    def instantiate(self, q: str, args, kwargs, module, node) -> V:
        ci = self.repo.classes[q]
        mro = self.repo.mro(q)
        is_exc = any(m.rsplit(".", 1)[-1] in ("Exception", "BaseException") or
                     (m.startswith("builtins.") and m.endswith("Error")) for m in mro)
        if is_exc:
            self.event("new_exc", cls=q, args=args)
            r = self.repo.lookup_method(q, "__init__")
            if r is not None and getattr(self, "run_exc_ctors", False) and not getattr(self, "_in_exc_ctor", None) \
                    and len(self.stack) < self.inline_depth + 3:
                # building the exception runs its constructor: if that fails, the failure is what propagates
                dummy = ObjV(q, {}, label=f"exc:{ci.name}")
                self._in_exc_ctor = q
                try:
                    self.call_function(r[0].module, r[1], [dummy] + list(args), {k: v for k, v in kwargs.items() if k != "**"}, r[0].qual)
                finally:
                    self._in_exc_ctor = None
            return Sym("exc", RefV(q), tuple(args), _kw(kwargs))
        obj = ObjV(q, {}, label=f"new:{ci.name}")
        obj.init_args = (list(args), dict(kwargs))
        self.event("new_obj", cls=q, obj=obj, args=args, kwargs=dict(kwargs))
        r = self.repo.lookup_method(q, "__init__")
        if r is not None and len(self.stack) < self.inline_depth:
            try:
                self.call_function(r[0].module, r[1], [obj] + list(args), kwargs, r[0].qual)
            except _Raise:
                raise
        elif r is None and self._is_dataclass(q):
            self._dataclass_init(q, obj, args, kwargs, module)
        return obj

    def _is_dataclass(self, q: str) -> bool:
        ci = self.repo.classes.get(q)
        if ci is None:
            return False
        for d in ci.node.decorator_list:
            t = ast.unparse(d.func if isinstance(d, ast.Call) else d)
            if t.split(".")[-1] == "dataclass":
                return True
        if any(b in ("typing.NamedTuple",) for b in ci.bases):
            return True
        return False

    def _dataclass_init(self, q: str, obj: ObjV, args, kwargs, module):
        """The generated __init__ of an in-repo dataclass: annotated class-level names in MRO order, defaults from the class body."""
        fields: List[Tuple[str, Optional[ast.expr], Any]] = []
        for cq in reversed(self.repo.mro(q)):
            ci = self.repo.classes.get(cq)
            if ci is None or not self._is_dataclass(cq):
                continue
            for st in ci.node.body:
                if isinstance(st, ast.AnnAssign) and isinstance(st.target, ast.Name):
                    ann = ast.unparse(st.annotation)
                    if ann.startswith("ClassVar") or ann.startswith("typing.ClassVar"):
                        continue
                    fields = [f for f in fields if f[0] != st.target.id] + [(st.target.id, st.value, ci)]
        pos = list(args)
        kw = {k: v for k, v in kwargs.items() if k != "**"}
        if len(pos) > len(fields):
            self.may_raise("builtins.TypeError", f"{q.rsplit('.', 1)[-1]}() takes {len(fields)} fields", definite=True)
            raise _Raise(self.make_exc("builtins.TypeError"), self.cur_where)
        for i, (name, default, ci) in enumerate(fields):
            if i < len(pos):
                obj.attrs[name] = pos[i]
            elif name in kw:
                obj.attrs[name] = kw.pop(name)
            elif default is not None:
                dv = self.eval(default, {}, ci.module)
                if isinstance(dv, Sym) and dv.op == "call" and isinstance(dv.args[0], RefV) and dv.args[0].qual.endswith("dataclasses.field"):
                    dkw = dict(dv.args[2] or ())
                    if "default" in dkw:
                        dv = dkw["default"]
                    elif "default_factory" in dkw:
                        dv = self.call_v(dkw["default_factory"], [], {}, ci.module, None)
                obj.attrs[name] = dv
            else:
                self.may_raise("builtins.TypeError", f"{q.rsplit('.', 1)[-1]}() missing {name}", definite=True)
                raise _Raise(self.make_exc("builtins.TypeError"), self.cur_where)
        if kw:
            self.may_raise("builtins.TypeError", f"{q.rsplit('.', 1)[-1]}() got an unexpected keyword", definite=True)
            raise _Raise(self.make_exc("builtins.TypeError"), self.cur_where)
        post = self.repo.lookup_method(q, "__post_init__")
        if post is not None and len(self.stack) < self.inline_depth:
            self.call_function(post[0].module, post[1], [obj], {}, post[0].qual)

    # ------------------------------------------------------------------------------------
    # builtins
    # ------------------------------------------------------------------------------------
    def call_builtin(self, name: str, args, kwargs, module, node, env) -> V:
        a = [self.resolve_alt(x) for x in args]
        if name == "__identity__" and len(a) == 1:
            return a[0]
        if name == "staticmethod" and len(a) == 1 and not kwargs:
            return a[0]  # looked up through the class or an instance, a staticmethod is the function it wraps
        if name == "isinstance" and len(a) == 2:
            return Const(self.isinstance_v(a[0], a[1]))
        if name == "issubclass" and len(a) == 2:
            if isinstance(a[0], RefV):
                quals = [x.qual for x in self.class_list(a[1]) if isinstance(x, RefV)]
                if a[0].qual in self.repo.classes or a[0].qual.startswith(AST_PREFIX):
                    return Const(any(qq in self.repo.mro(a[0].qual) for qq in quals))
            return Const(self.unknown_bool(f"issubclass({_describe(a[0])},{_describe(a[1])})"))
        if name == "hasattr" and len(a) == 2:
            return Const(self.hasattr_v(a[0], a[1]))
        if name == "type" and len(a) == 1:
            return self.typeof(a[0])
        if name == "len" and len(a) == 1:
            v = a[0]
            if isinstance(v, Const) and isinstance(v.v, (str, tuple, list, dict, frozenset)):
                return Const(len(v.v))
            if isinstance(v, (PyList, PyTuple)) and not getattr(v, "loop_parts", None):
                return Const(len(v.items))
            if isinstance(v, PyDict) and not v.opaque_keys:
                return Const(len(v.items))
            if isinstance(v, ListV) and v.len_eq is not None:
                return Const(v.len_eq)
            if isinstance(v, PSlice):
                return Const(len(v.values))
            if isinstance(v, (NodeV, NewNode)):
                self.may_raise("builtins.TypeError", f"len({_describe(v)})", definite=True)
                raise _Raise(self.make_exc("builtins.TypeError"), self.cur_where)
            if isinstance(v, Sym) and v.hint is None and v.op in ("visit", "call", "stubcall", "dispatch", "arg"):
                # the result of a translation / an external call: not known to be sized
                self.may_raise("builtins.TypeError", f"len({_describe(v)})")
            return Sym("len", v, hint="int")
        if name == "str":
            if not a:
                return Const("")
            v = a[0]
            if isinstance(v, Const):
                return Const(str(v.v))
            if isinstance(v, Str):
                return v
            if isinstance(v, (NodeV, NewNode)):
                self.event("node_in_string", node=_describe(v))
            return Str(to_str_parts(v, (("str",),)))
        if name == "repr" and len(a) == 1:
            if isinstance(a[0], Const):
                return Const(repr(a[0].v))
            return Str(to_str_parts(a[0], (("repr",),)))
        if name in ("int", "float") and len(a) >= 1:
            v = a[0]
            if isinstance(v, Const):
                try:
                    return Const(int(v.v) if name == "int" else float(v.v))
                except Exception:
                    self.may_raise("builtins.ValueError", f"{name}({v.v!r})", definite=True)
                    raise _Raise(self.make_exc("builtins.ValueError"), self.cur_where)
            self.may_raise("builtins.ValueError", f"{name}({_describe(v)})")
            return Sym("call", RefV("builtins." + name), (v,), (), hint="int" if name == "int" else None)
        if name == "bool":
            return Const(self.truthy(a[0], "bool()")) if a else FALSE
        if name in ("any", "all") and len(a) == 1:
            return self.any_all(name, a[0], module, node)
        if name in ("list", "tuple"):
            if not a:
                if name == "tuple":
                    return PyTuple([])
                l0 = PyList([])
                l0.created_in = self._frame_id()
                l0._loop_depth = len(self.loop_ctx)  # type: ignore[attr-defined]
                return l0
            v = a[0]
            items = self.concrete_items(v)
            if items is None and isinstance(v, PyDict) and not v.opaque_keys:
                from .interp_expr import key_to_val
                items = [key_to_val(k) for k in v.items]
            if isinstance(v, Sym) and v.op == "set":
                self.event("iterate_set", where=self.cur_where)
                items = list(v.args[0])
            if isinstance(v, Const) and isinstance(v.v, frozenset):
                self.event("iterate_set", where=self.cur_where)
            if items is not None:
                if name == "list":
                    l = PyList(items)
                    l.created_in = self._frame_id()
                    return l
                if all(isinstance(i, Const) and isinstance(i.v, (str, int, float, bool, type(None))) for i in items):
                    return Const(tuple(i.v for i in items))
                return PyTuple(items)
            if isinstance(v, (ListV, AbsList, MapV, PyList)):
                if name == "list":
                    if isinstance(v, PyList):
                        n = PyList(list(v.items))
                        n.loop_parts = list(v.loop_parts)
                        n.created_in = self._frame_id()
                        for extra in ("_minextra", "_tail_start", "_part_meta", "rev"):
                            if hasattr(v, extra):
                                setattr(n, extra, getattr(v, extra))  # same elements in the same order: same bounds
                        return n
                    if isinstance(v, (ListV, AbsList)):
                        from .interp_expr import _prov_list
                        cp = AbsList(v.elem, self.list_minlen(v), _prov_list(v))  # same items in the same order
                        cp.created_in = self._frame_id()  # type: ignore[attr-defined]
                        cp.copy_of = v  # type: ignore[attr-defined]  # a shallow copy: same elements, same length, a list of its own
                        return cp
                    if isinstance(v, MapV):
                        # list(map(f, xs)) / list(<generator over xs>): the same element-wise image of xs, as a list
                        m2 = MapV(v.over, v.elem, v.var)
                        if getattr(v, "filtered", False):
                            m2.filtered = True  # type: ignore[attr-defined]
                        return m2
                    return AbsList(v.elem, self.list_minlen(v))
                return Sym("tupleof", v)
            return Sym("call", RefV("builtins." + name), tuple(a), ())
        if name == "str.maketrans" and len(a) == 2 and all(isinstance(x, Const) and isinstance(x.v, str) for x in a) and len(a[0].v) == len(a[1].v):
            return Sym("transtable", tuple(zip(a[0].v, a[1].v)))
        if name == "str.maketrans" and len(a) == 1 and isinstance(a[0], PyDict) and not a[0].opaque_keys:
            pairs = []
            for (tag, k), v in a[0].items.items():
                if tag == "c" and isinstance(k, str) and len(k) == 1 and isinstance(v, Const) and isinstance(v.v, str):
                    pairs.append((k, v.v))
                else:
                    pairs = None
                    break
            if pairs is not None:
                return Sym("transtable", tuple(pairs))
        if name == "dict.fromkeys" and a:
            from .interp_expr import dict_key
            keys = self.concrete_items(self.resolve_alt(a[0]))
            val = a[1] if len(a) > 1 else NONE
            if keys is not None and all(dict_key(k) is not None for k in keys):
                d = PyDict()
                d.created_in = self._frame_id()  # type: ignore[attr-defined]
                for k in keys:
                    d.items[dict_key(k)] = val
                return d
            return Sym("call", RefV("builtins.dict.fromkeys"), tuple(a), _kw(kwargs))
        if name == "dict":
            from .interp_expr import dict_key
            d = PyDict()
            d.created_in = self._frame_id()  # type: ignore[attr-defined]
            if a and isinstance(a[0], PyDict):
                d.items.update(a[0].items)
                d.opaque_keys.extend(a[0].opaque_keys)
            elif a and isinstance(self.resolve_alt(a[0]), (MapV, AbsList, ListV)) and isinstance(self.resolve_alt(a[0]).elem, PyTuple) \
                    and len(self.resolve_alt(a[0]).elem.items) == 2:
                # dict(<pairs produced by a comprehension over an abstract iterable>): one symbolic entry, as a dict comprehension gives
                k, v = self.resolve_alt(a[0]).elem.items
                d.opaque_keys.append((k, v))
            elif a:
                pairs = self.concrete_items(self.resolve_alt(a[0]))
                ok = pairs is not None
                if ok:
                    for pr in pairs:
                        kv = self.concrete_items(pr)
                        if kv is None or len(kv) != 2 or dict_key(kv[0]) is None:
                            ok = False
                            break
                if not ok:
                    return Sym("call", RefV("builtins.dict"), tuple(a), _kw(kwargs))
                for pr in pairs:
                    kv = self.concrete_items(pr)
                    d.items[dict_key(kv[0])] = kv[1]
            for k, v in kwargs.items():
                d.items[("c", k)] = v
            return d
        if name in ("set", "frozenset"):
            if a:
                src = self.resolve_alt(a[0])
                if isinstance(src, Sym) and src.op == "set":
                    return Sym("set", tuple(src.args[0]))
                if isinstance(src, PyDict) and not src.opaque_keys:
                    from .interp_expr import key_to_val
                    return Sym("set", tuple(key_to_val(k) for k in src.items))
                if isinstance(src, Const) and isinstance(src.v, (frozenset, set, tuple, list)):
                    return Sym("set", tuple(Const(x) for x in (sorted(src.v, key=repr) if isinstance(src.v, (set, frozenset)) else src.v)))
                if isinstance(src, Const) and isinstance(src.v, str):
                    return Sym("set", tuple(Const(x) for x in sorted(set(src.v))))  # the characters of a constant text
            return Sym("set", tuple(self.concrete_items(a[0]) or [Sym("elemof", a[0])]) if a else ())
        if name == "getattr" and len(a) >= 2:
            return self.builtin_getattr(a, module, node)
        if name == "setattr" and len(a) == 3:
            if isinstance(a[1], Const) and isinstance(a[1].v, str):
                self.store_attr(a[0], a[1].v, a[2], module, node)
            else:
                self.event("mutate", target=_describe(a[0]), op="setattr-dynamic")
            return NONE
        if name == "super":
            selfv = None
            cls = None
            if env is not None:
                c = env.get("__class__")
                cls = c.qual if isinstance(c, RefV) else None
                for k, v in env.items():
                    if isinstance(v, ObjV) and k != "__class__":
                        selfv = v
                        break
            if a:
                cls = a[0].qual if isinstance(a[0], RefV) else cls
                selfv = a[1] if len(a) > 1 else selfv
            if selfv is None or cls is None:
                return Sym("super", NONE, "")
            return Sym("super", selfv, cls)
        if name in ("filter", "itertools.filterfalse") and len(a) == 2 and not kwargs:
            items = self.concrete_items(a[1])
            if items is not None and not any(isinstance(x, Sym) and x.op in ("elemof", "star") for x in items):
                keep_true = name == "filter"
                out_f = PyList([])
                out_f.created_in = self._frame_id()  # type: ignore[attr-defined]
                out_f._loop_depth = len(self.loop_ctx)  # type: ignore[attr-defined]
                for x in items:
                    t = x if (isinstance(a[0], Const) and a[0].v is None) else self.call_v(a[0], [x], {}, module, node, env)
                    if self.truthy(t, "filter") == keep_true:
                        out_f.items.append(x)
                return out_f
        if name == "next" and a and isinstance(a[0], PyList) and getattr(a[0], "_gen", False):
            gq = a[0]
            if getattr(gq, "_lazy", None) is not None:
                self.force_lazy(gq)
            if not gq.loop_parts:
                # a generator over known items hands out the next one it still holds
                if gq._pos < len(gq.items):
                    gq._pos += 1
                    return gq.items[gq._pos - 1]
                if len(a) >= 2:
                    return a[1]
                self.may_raise("builtins.StopIteration", "next(<exhausted generator>)", definite=True)
                raise _Raise(self.make_exc("builtins.StopIteration"), self.cur_where)
            # a generator over an unknown number of items: one of its elements; the known lower bound of what it still holds shrinks
            left = getattr(gq, "_minextra", 0) + max(0, len(gq.items) - getattr(gq, "_pos", 0))
            if left >= 1:
                if getattr(gq, "_minextra", 0) >= 1:
                    gq._minextra -= 1
            elif len(a) < 2:
                self.may_raise("builtins.StopIteration", f"next({_describe(gq)[:60]})")
            return self._elem_of_pylist(gq)
        if name == "next":
            v = a[0] if a else NONE
            if isinstance(v, PyList) and not v.loop_parts and getattr(v, "created_in", None) is not None:
                # next(<generator expression over concrete items>): its first element, or StopIteration / the default
                if v.items:
                    return v.items[0]
                if len(a) >= 2:
                    return a[1]
                self.may_raise("builtins.StopIteration", "next(<empty generator>)", definite=True)
                raise _Raise(self.make_exc("builtins.StopIteration"), self.cur_where)
            if isinstance(v, Sym) and v.op == "iter":
                src = v.args[0]
                items = self.concrete_items(src)
                if items:
                    return items[0]
                if isinstance(src, (ListV, AbsList, MapV)):
                    if self.list_minlen(src) < 1 and len(a) < 2:
                        self.may_raise("builtins.StopIteration", f"next(iter({_describe(src)}))")
                    return src.elem
            if len(a) < 2:
                self.may_raise("builtins.StopIteration", f"next({_describe(v)})")
            return Sym("next", v)
        if name == "iter" and a:
            return Sym("iter", a[0])
        if name == "reversed" and a:
            items = self.concrete_items(a[0])
            if items is not None:
                return PyList(list(reversed(items)))
            r = self.reversed_view(a[0])
            if r is not None:
                return r
            return Sym("reversed", a[0])
        if name == "enumerate" and a:
            items = self.concrete_items(a[0])
            if items is not None:
                return PyList([PyTuple([Const(i), x]) for i, x in enumerate(items)])
            if isinstance(a[0], (ListV, AbsList, MapV)):
                en = AbsList(PyTuple([Sym("index", a[0], hint="int"), a[0].elem]), self.list_minlen(a[0]))
                en.enumerate_of = a[0]  # type: ignore[attr-defined]
                return en
        if name == "map" and len(a) == 2:
            items = self.concrete_items(a[1])
            if items is not None:
                out_l = PyList([self.call_v(a[0], [x], {}, module, node, env) for x in items])
                out_l.created_in = self._frame_id()  # type: ignore[attr-defined]
                return out_l
            if isinstance(a[1], (AbsList, ListV, MapV)) or (isinstance(a[1], PyList) and a[1].loop_parts):
                src = a[1]
                e0 = src.elem if not isinstance(src, PyList) else self._elem_of_pylist(src)
                return MapV(src, self.call_v(a[0], [e0], {}, module, node, env))
            if isinstance(a[1], Sym) and a[1].op == "call" and not kwargs:
                # an iterable the analysis knows nothing about (e.g. mapping.keys()): the image of its elements, one by one
                src = a[1]
                self.event("iterate_opaque", value=_describe(src), where=self.cur_where)
                self.loop_ctx.append(src)
                try:
                    img = self.call_v(a[0], [Sym("elemof", src)], {}, module, node, env)
                finally:
                    self.loop_ctx.pop()
                return MapV(src, img)
        if name == "zip" and len(a) == 1 and isinstance(a[0], Sym) and a[0].op == "star":
            cols = self.unzip(self.resolve_alt(a[0].args[0]))
            if cols is not None:
                return PyTuple(cols)
        if name == "zip" and len(a) >= 2 and not kwargs and all(isinstance(x, (MapV, AbsList, ListV)) for x in a):
            # element-wise pairs of sequences of unknown length (as long as the shortest)
            zl = AbsList(PyTuple([x.elem for x in a]), min(self.list_minlen(x) if not isinstance(x, MapV) else 0 for x in a))
            zl.zip_of = tuple(a)  # type: ignore[attr-defined]
            return zl
        if name == "zip" and a:
            its = [self.concrete_items(x) for x in a]
            if all(i is not None for i in its):
                return PyList([PyTuple(list(t)) for t in zip(*its)])  # type: ignore[arg-type]
        if name == "sorted" and a:
            items = self.concrete_items(a[0])
            if isinstance(a[0], (Const,)) and isinstance(a[0].v, frozenset):
                return PyList([Const(x) for x in sorted(a[0].v, key=repr)])
            if items is not None and all(isinstance(i, Const) for i in items) and not kwargs:
                try:
                    return PyList([Const(x) for x in sorted(i.v for i in items)])
                except TypeError:
                    pass
        if name == "range" and a and all(isinstance(x, Const) and isinstance(x.v, int) for x in a):
            r = range(*[x.v for x in a])
            n_r = max(0, (r.stop - r.start + (r.step - (1 if r.step > 0 else -1))) // r.step)  # len(r) overflows for huge ranges
            if n_r <= 64:
                return PyList([Const(i) for i in r])
            return Sym("range", *a)  # too long to enumerate: membership in it is a question about a run-time number
        if name == "callable" and a:
            if isinstance(a[0], (FuncV, BoundV, RefV)):
                return TRUE
        if name == "print":
            return NONE
        if name == "object":
            return Sym("object")
        if name == "sum" and 1 <= len(a) <= 2 and set(kwargs) <= {"start"}:
            items = self.concrete_items(self.resolve_alt(a[0]))
            start = a[1] if len(a) == 2 else kwargs.get("start", Const(0))
            if items is not None and all(isinstance(x, Const) and isinstance(x.v, (int, float)) for x in items) and isinstance(start, Const) \
                    and isinstance(start.v, (int, float)):
                return Const(sum((x.v for x in items), start.v))
            if items is not None and not any(isinstance(x, Sym) and x.op in ("elemof", "star") for x in items) and \
                    not all(isinstance(x, Const) for x in items):
                # the left fold start + x1 + x2 + ...; an integer 0 start adds nothing
                acc = start
                for x in items:
                    if acc is start and isinstance(acc, Const) and acc.v == 0 and type(acc.v) is int:
                        acc = x
                    else:
                        acc = self.binop(ast.Add(), acc, x, module, node)
                return acc
        if name in ("min", "max", "sum", "abs", "round") and a and all(isinstance(x, Const) for x in a):
            try:
                return Const({"min": min, "max": max, "sum": sum, "abs": abs, "round": round}[name](*[x.v for x in a]))
            except Exception:
                pass
        if name in ("ValueError", "TypeError", "KeyError", "IndexError", "AttributeError", "NotImplementedError",
                    "RuntimeError", "Exception", "ImportError", "LookupError", "AssertionError", "BaseException",
                    "StopIteration", "ArithmeticError", "ZeroDivisionError", "OverflowError", "NameError", "OSError",
                    "UnicodeError", "RecursionError", "MemoryError", "UnicodeDecodeError", "UnicodeEncodeError", "FloatingPointError",
                    "EOFError", "TimeoutError"):
            self.event("new_exc", cls="builtins." + name, args=a)
            return Sym("exc", RefV("builtins." + name), tuple(a), _kw(kwargs))
        return Sym("call", RefV("builtins." + name), tuple(a), _kw(kwargs))

    def _elem_of_pylist(self, l: PyList) -> V:
        e = None
        for i in l.items:
            e = self.join_vals(e, i)
        for _, per in l.loop_parts:
            for i in per:
                e = self.join_vals(e, i)
        return e if e is not None else Sym("noelem")

    def any_all(self, name: str, seq: V, module, node) -> V:
        if getattr(seq, "_lazy", None) is not None:
            r = self.lazy_any_all(name, seq)
            if r is not None:
                return r
        items = self.concrete_items(seq)
        if items is not None:
            for it in items:
                t = self.truthy(it, name)
                if name == "any" and t:
                    return TRUE
                if name == "all" and not t:
                    return FALSE
            return Const(name == "all")
        if isinstance(seq, MapV):
            if isinstance(seq.elem, Const):
                # constant predicate over an abstract list
                t = bool(seq.elem.v)
                if name == "any":
                    return Const(t and self.list_minlen(seq.over) > 0) if (not t or self.list_minlen(seq.over) > 0) else \
                        Const(self.unknown_bool(f"nonempty({_describe(seq.over)})"))
                return TRUE if t else (FALSE if self.list_minlen(seq.over) > 0 else
                                       Const(not self.unknown_bool(f"nonempty({_describe(seq.over)})")))
        return Const(self.unknown_bool(f"{name}({_describe(seq)})"))

    def builtin_getattr(self, a: List[V], module, node) -> V:
        obj, name = a[0], a[1]
        default = a[2] if len(a) > 2 else None
        if isinstance(name, Const) and isinstance(name.v, str):
            if default is None:
                return self.getattr_v(obj, name.v, module, node)
            if isinstance(obj, (NodeV, NewNode, ObjV)):
                if self.hasattr_v(obj, name):
                    return self.getattr_v(obj, name.v, module, node)
                return default
            if isinstance(obj, Sym) or isinstance(obj, RefV):
                return Sym("getattr", obj, name.v, default)
            return default
        # dynamic attribute name
        if isinstance(obj, ObjV):
            prefix = ""
            key: V = name
            if isinstance(name, Str) and name.parts and name.parts[0][0] == "lit":
                prefix = name.parts[0][1]
                key = Str(name.parts[1:])
            self.event("dynamic_getattr", obj=obj.label, cls=obj.cls, prefix=prefix, key=key, has_default=default is not None)
            if default is None:
                self.may_raise("builtins.AttributeError", f"getattr({obj.label}, {name!r})")
            else:
                self.event("dynamic_getattr_default", default=default, prefix=prefix)
                if (isinstance(default, Sym) and default.op == "sentinel") or (isinstance(default, Const) and default.v is None):
                    # a marker for "no such method": the two cases are told apart later (`is MISSING`), so they are two paths here;
                    # the missing case is the one an `except AttributeError` around a two-argument getattr would take
                    found = self.unknown_bool(f"hasattr({obj.label}, {_describe(name)})")
                    if not found:
                        self.event("may_raise", exc="builtins.AttributeError", what=f"getattr({obj.label}, {name!r})", caught=True, definite=False,
                                   func=self._frame_id(), in_exc_ctor=None)
                        return default
                    return Sym("dynmethod", obj, prefix, key)
            return Sym("dynmethod", obj, prefix, key) if default is None else Sym("dynmethod_or", obj, prefix, key, default)
        if isinstance(obj, (NodeV, NewNode)):
            # getattr(node, field.name) inside iter_dataclass_fields: name from a concrete field list
            if isinstance(name, Sym) and name.op == "fieldname":
                return self.getattr_v(obj, name.args[0], module, node)
        if default is None:
            self.may_raise("builtins.AttributeError", f"getattr({_describe(obj)}, {_describe(name)})")
        return Sym("getattr", obj, name, default if default is not None else NONE)

    # ------------------------------------------------------------------------------------
    # methods of builtin values
    # ------------------------------------------------------------------------------------
    def call_builtin_method(self, base: V, name: str, args, kwargs, module, node) -> V:
        a = [self.resolve_alt(x) for x in args]
        base = self.resolve_alt(base)
        if isinstance(base, Const) and isinstance(base.v, str) or isinstance(base, Str) or (isinstance(base, Sym) and base.hint == "str"):
            return self.str_method(base, name, a, kwargs, module, node)
        if isinstance(base, (PyList, AbsList, ListV, MapV)):
            return self.list_method(base, name, a, kwargs, module, node)
        if isinstance(base, PyDict):
            return self.dict_method(base, name, a, kwargs)
        if isinstance(base, Sym) and base.op == "set" and len(a) == 1 and name in ("isdisjoint", "issuperset", "__contains__"):
            if name == "__contains__":
                return Const(self.contains(base, a[0], "set.__contains__"))
            others = self.concrete_items(a[0])
            if others is None and isinstance(a[0], Sym) and a[0].op == "set" and not any(isinstance(x, Sym) and x.op == "elemof" for x in a[0].args[0]):
                others = list(a[0].args[0])
            if others is not None:
                if name == "isdisjoint":      # no element of the argument is in the set (checked left to right, like any())
                    for x in others:
                        if self.contains(base, x, "isdisjoint"):
                            return FALSE
                    return TRUE
                for x in others:              # issuperset: every element of the argument is in the set
                    if not self.contains(base, x, "issuperset"):
                        return FALSE
                return TRUE
        if isinstance(base, Const) and isinstance(base.v, dict):
            from .interp_expr import from_py
            return self.dict_method(from_py(base.v), name, a, kwargs)
        if isinstance(base, PyTuple) or (isinstance(base, Const) and isinstance(base.v, tuple)):
            if name == "index" or name == "count":
                return Sym("call", Sym("attr", base, name), tuple(a), ())
        if isinstance(base, Const) and all(isinstance(x, Const) for x in a):
            try:
                r = getattr(base.v, name)(*[x.v for x in a])
                from .interp_expr import from_py
                return from_py(r)
            except Exception:
                pass
        return Sym("call", Sym("attr", base, name), tuple(a), _kw(kwargs))

    def str_method(self, base: V, name: str, a: List[V], kwargs, module, node) -> V:
        if isinstance(base, Const) and all(isinstance(x, Const) for x in a) and name not in ("join", "format"):
            try:
                from .interp_expr import from_py
                return from_py(getattr(base.v, name)(*[x.v for x in a]))
            except Exception:
                self.may_raise("builtins.ValueError", f"str.{name}")
                return Sym("call", Sym("attr", base, name), tuple(a), ())
        if name == "join" and len(a) == 1:
            sep = base
            seq = a[0]
            items = self.concrete_items(seq)
            if isinstance(seq, Sym) and seq.op == "set":
                self.event("iterate_set", where=self.cur_where)
            if isinstance(seq, Const) and isinstance(seq.v, frozenset):
                self.event("iterate_set", where=self.cur_where)
            if items is not None:
                parts: list = []
                for i, it in enumerate(items):
                    if i:
                        parts.extend(to_str_parts(sep))
                    if isinstance(it, (NodeV, NewNode)) or (isinstance(it, Const) and not isinstance(it.v, str)):
                        self.event("bad_join_item", value=_describe(it))
                        self.may_raise("builtins.TypeError", "join of non-str")
                    parts.extend(to_str_parts(it))
                s = Str(parts)
                return Const(s.const()) if s.is_const() else s
            if isinstance(seq, PyList) and seq.loop_parts and getattr(seq, "rev", False):
                rseq = AbsList(self._elem_of_pylist(seq), len(seq.items) + getattr(seq, "_minextra", 0))
                rseq.rev = True  # type: ignore[attr-defined]
                seq = rseq
            if isinstance(seq, PyList) and seq.loop_parts:
                parts = []
                k_tail = getattr(seq, "_tail_start", len(seq.items))
                for i, it in enumerate(seq.items[:k_tail]):
                    if i:
                        parts.extend(to_str_parts(sep))
                    parts.extend(to_str_parts(it))
                tail_items = list(seq.items[k_tail:])
                for over, per in seq.loop_parts:
                    meta = getattr(seq, "_part_meta", {}).get(id(over))
                    sq = (meta or {}).get("seq", {})
                    if meta and self._rounds_run.get(id(over)) == 2 and len(sq.get(1, [])) == 1 and len(sq.get(2, [])) == 2 and \
                            repr(sq[2][1]) == repr(sq[1][0]) and isinstance(sq[2][0], Const) and isinstance(sq[2][0].v, str) and \
                            isinstance(sep, Const) and isinstance(sep.v, str):
                        # the first iteration appends A, every later one S then A: the pieces of S.join(A ...) (with the outer separator around S)
                        if k_tail and parts:
                            parts.extend(to_str_parts(sep))
                        parts.append(("join", Const(sep.v + sq[2][0].v + sep.v), sq[1][0], getattr(over, "enumerate_of", None) or over))
                        continue
                    elem = per[0] if len(per) == 1 else AltV(per)
                    parts.append(("join", sep, elem, over))
                for it in tail_items:
                    parts.extend(to_str_parts(sep))
                    parts.extend(to_str_parts(it))
                return Str(parts)
            if isinstance(seq, Sym) and seq.op == "call" and isinstance(seq.args[0], Sym) and seq.args[0].op == "attr" and seq.args[0].args[1] == "split" \
                    and isinstance(seq.args[0].args[0], Sym) and seq.args[0].args[0].op == "regex" and len(seq.args[1]) == 1 and not seq.args[2]:
                # new.join(REGEX.split(text))  ==  REGEX.sub(new, text)  when REGEX has no capture group and cannot match the empty string
                import re as _re
                rxv = seq.args[0].args[0]
                try:
                    cre = _re.compile(rxv.args[0])
                    plain = cre.groups == 0 and cre.fullmatch("") is None and _rx_min_width(rxv.args[0]) > 0
                except _re.error:
                    plain = False
                if plain and isinstance(sep, Const) and isinstance(sep.v, str) and "\\" not in sep.v:
                    return Sym("call", Sym("attr", rxv, "sub"), (sep, seq.args[1][0]), (), hint="str")
            if isinstance(seq, AbsList) and getattr(seq, "_split_of", None) is not None and seq.minlen == 1 and seq.order == ["?"] \
                    and isinstance(sep, Const) and isinstance(sep.v, str):
                # new.join(text.split(old))  ==  text.replace(old, new)   (old is a non-empty constant)
                sbase, ssep = seq._split_of
                if isinstance(ssep, str) and ssep and repr(seq.elem) == repr(Sym("splitpart", sbase, ssep, hint="str")):
                    s2 = Str(to_str_parts(sbase, (("replace", ssep, sep.v),)))
                    return Const(s2.const()) if s2.is_const() else s2
            if isinstance(seq, MapV) and getattr(seq, "_charmap", None) and isinstance(sep, Const) and sep.v == "":
                # "".join(c * 2 if c in CHARS else c for c in text)  ==  text with each of CHARS doubled (disjoint single characters: any order)
                return Str(to_str_parts(seq.over, tuple(("replace", c, c + c) for c in seq._charmap)))
            if isinstance(seq, (MapV, ListV, AbsList)):
                return Str([("join", sep, seq.elem, seq.over if isinstance(seq, MapV) else seq)])
            return Str([("join", sep, Sym("elemof", seq), seq)])
        if name == "translate" and len(a) == 1 and isinstance(a[0], ObjV) and "builtins.dict" in self.repo.mro(a[0].cls) and \
                getattr(a[0], "init_args", None) and len(a[0].init_args[0]) == 1 and isinstance(a[0].init_args[0][0], Sym) \
                and a[0].init_args[0][0].op == "transtable" and not a[0].attrs:
            # a translation table with a default: characters of the table are mapped as it says, every other code point goes
            # through __missing__.  identity on a set S + constant default c  ==  re.sub('[^S]', c, text)
            pairs = a[0].init_args[0][0].args[0]
            miss = self.repo.lookup_method(a[0].cls, "__missing__")
            default = None
            if miss is not None:
                rets = [n.value for n in _walk_own(miss[1]) if isinstance(n, ast.Return)]
                if len(rets) == 1 and isinstance(rets[0], ast.Constant) and isinstance(rets[0].value, str):
                    default = rets[0].value
            if default is not None and all(k == r for k, r in pairs) and "\\" not in default:
                import re as _re
                cls_chars = "".join(_re.escape(k) for k, _ in pairs)
                rxv = Sym("regex", "[^" + cls_chars + "]", ())
                return Sym("call", Sym("attr", rxv, "sub"), (Const(default), base), (), hint="str")
        if name == "translate" and len(a) == 1 and isinstance(a[0], Sym) and a[0].op == "transtable":
            pairs = a[0].args[0]
            # a simultaneous single-character substitution equals the chain of replaces in table order when no replacement
            # text contains a character that a later step would rewrite
            independent = all(pairs[j][0] not in pairs[i][1] for i in range(len(pairs)) for j in range(i + 1, len(pairs)))
            if independent:
                s2 = Str(to_str_parts(base, tuple(("replace", k, r) for k, r in pairs)))
            else:
                s2 = Str(to_str_parts(base, (("translate", repr(pairs)),)))
            return Const(s2.const()) if s2.is_const() else s2
        tr = None
        if name == "replace" and len(a) >= 2:
            tr = ("replace", a[0].v if isinstance(a[0], Const) else _describe(a[0]), a[1].v if isinstance(a[1], Const) else _describe(a[1]))
        elif name in ("upper", "lower", "casefold", "strip", "lstrip", "rstrip", "title", "capitalize", "swapcase"):
            tr = (name,) + tuple(x.v if isinstance(x, Const) else _describe(x) for x in a)
        elif name in ("removeprefix", "removesuffix") and len(a) == 1 and isinstance(a[0], Const) and isinstance(a[0].v, str) and not kwargs:
            # conditional removal; where the text is known to start/end that way (a token of a rule whose language does) it is
            # the slice - see kindflow.normalise_token_text
            tr = (name, a[0].v)
        if tr is not None:
            s = Str(to_str_parts(base, (tr,)))
            return Const(s.const()) if s.is_const() else s
        if name == "split":
            sep = a[0].v if a and isinstance(a[0], Const) else None
            res = AbsList(Sym("splitpart", base, sep, hint="str"), 1)
            res.created_in = self._frame_id()  # type: ignore[attr-defined]  # str.split always returns a list of its own
            if len(a) == 1 and not kwargs:
                res._split_of = (base, sep)  # type: ignore[attr-defined]
            return res
        if name in ("rpartition", "partition") and len(a) == 1 and isinstance(a[0], Const) and isinstance(a[0].v, str) and a[0].v:
            # (head, sep-or-empty, tail): always three strings
            return PyTuple([Sym(name, base, a[0].v, i, hint="str") for i in range(3)])
        if name in ("startswith", "endswith", "isdigit", "isupper", "islower", "isalpha", "isalnum", "isidentifier"):
            return Const(self.unknown_bool(f"{_describe(base)}.{name}({','.join(_describe(x) for x in a)})"))
        if name == "format":
            tmpl = base.v if isinstance(base, Const) and isinstance(base.v, str) else (base.const() if isinstance(base, Str) and base.is_const() else None)
            if tmpl is not None and "**" not in kwargs and not any(isinstance(x, Sym) and x.op == "star" for x in a):
                # a constant template with plain replacement fields ({} / {0} / {name}, no conversion, no format spec) is concatenation
                import string as _string
                try:
                    fields = list(_string.Formatter().parse(tmpl))
                except ValueError:
                    fields = None
                parts: list = []
                auto = 0
                ok = fields is not None
                for lit_text, fname, spec, conv in (fields or []):
                    if lit_text:
                        parts.append(("lit", lit_text))
                    if fname is None:
                        continue
                    if spec or conv or any(c in fname for c in ".["):
                        ok = False
                        break
                    if fname == "":
                        idx, auto = auto, auto + 1
                        val = a[idx] if idx < len(a) else None
                    elif fname.isdigit():
                        val = a[int(fname)] if int(fname) < len(a) else None
                    else:
                        val = kwargs.get(fname)
                    if val is None:
                        ok = False
                        break
                    from .interp_expr import is_strlike as _is_strlike
                    rv = self.resolve_alt(val)
                    parts.extend(to_str_parts(rv) if _is_strlike(rv) else to_str_parts(rv, (("str",),)))
                if ok:
                    st = Str(parts)
                    return Const(st.const()) if st.is_const() else st
            return Str([("dyn", Sym("format", base, tuple(a), _kw(kwargs)), ())])
        if name in ("encode",):
            return Sym("call", Sym("attr", base, name), tuple(a), ())
        return Sym("call", Sym("attr", base, name), tuple(a), _kw(kwargs), hint="str" if name in ("removeprefix", "removesuffix", "zfill", "ljust", "rjust") else None)

    def list_method(self, base: V, name: str, a: List[V], kwargs, module, node) -> V:
        own = isinstance(base, (PyList, AbsList)) and getattr(base, "created_in", None) is not None
        if name == "insert" and len(a) == 2 and isinstance(a[0], Const) and a[0].v == 0 and isinstance(base, PyList) and base.created_in is not None \
                and (self.loop_ctx or base.loop_parts):
            name, a = "appendleft", [a[1]]  # xs.insert(0, x) grows the list at the left, like deque.appendleft
        if name in ("appendleft", "popleft", "extendleft"):
            if not (isinstance(base, PyList) and base.created_in is not None):
                raise AnalysisError(f"deque.{name} on a sequence not built in this function", self.cur_where)
            self.event("list_mutation", target=_describe(base), op=name, created_in=base.created_in, frame=self._frame_id())
            if name == "popleft" and not a:
                return self.list_method(base, "pop", [Const(0)], {}, module, node)
            if name == "appendleft" and len(a) == 1:
                if not self.loop_ctx and not base.loop_parts:
                    base.items.insert(0, a[0])
                    return NONE
                if not base.items and (not base.loop_parts or getattr(base, "rev", False)):
                    # only ever grown at the left, inside loops: the reverse of the same appends (`rev`: parity of reversals)
                    self.list_append(base, a[0])
                    base.rev = True  # type: ignore[attr-defined]
                    return NONE
            raise AnalysisError(f"deque.{name}: growth at both ends of an abstract sequence is not supported", self.cur_where)
        if name in ("append", "extend", "insert") and isinstance(base, PyList) and getattr(base, "rev", False) and base.loop_parts:
            raise AnalysisError(f"{name} on a sequence grown at the left inside a loop is not supported", self.cur_where)
        if name in ("append", "extend", "insert", "pop", "remove", "clear", "sort", "reverse"):
            if isinstance(base, ListV) or (isinstance(base, PyList) and base.created_in is None) or isinstance(base, MapV):
                self.event("mutate", target=_describe(base), op=name)
            else:
                self.event("list_mutation", target=_describe(base), op=name, created_in=getattr(base, "created_in", None),
                           frame=self._frame_id())
        if name == "append" and len(a) == 1:
            self.list_append(base, a[0])
            return NONE
        if name == "extend" and len(a) == 1:
            self.list_extend(base, a[0])
            return NONE
        if name == "reverse" and not a and isinstance(base, PyList) and not base.loop_parts and not self.loop_ctx:
            base.items.reverse()
            return NONE
        if name == "insert" and len(a) == 2 and isinstance(base, PyList) and isinstance(a[0], Const) and not base.loop_parts and not self.loop_ctx:
            base.items.insert(a[0].v, a[1])
            return NONE
        if name == "pop":
            idx = a[0].v if a and isinstance(a[0], Const) else -1
            if isinstance(base, PyList) and not base.loop_parts and not getattr(base, "_minextra", 0):
                if not base.items:
                    self.may_raise("builtins.IndexError", "pop from empty list", definite=True)
                    raise _Raise(self.make_exc("builtins.IndexError"), self.cur_where)
                try:
                    return base.items.pop(idx)
                except IndexError:
                    self.may_raise("builtins.IndexError", f"pop({idx})", definite=True)
                    raise _Raise(self.make_exc("builtins.IndexError"), self.cur_where)
            if isinstance(base, PyList):
                base = self._to_abs(base)
            if self.list_minlen(base) < 1:
                self.event("pop_maybe_empty", value=_describe(base))
                self.may_raise("builtins.IndexError", f"{_describe(base)}.pop()")
            if isinstance(base, AbsList):
                base.minlen = max(0, base.minlen - 1)
            return getattr(base, "elem", Sym("elemof", base))
        if name == "copy":
            if isinstance(base, PyList):
                n = PyList(list(base.items))
                n.loop_parts = list(base.loop_parts)
                n.created_in = self._frame_id()
                return n
            return AbsList(getattr(base, "elem", Sym("elemof", base)), self.list_minlen(base))
        if name in ("index", "count"):
            return Sym("call", Sym("attr", base, name), tuple(a), (), hint="int")
        return Sym("call", Sym("attr", base, name), tuple(a), _kw(kwargs))

    def reversed_view(self, v: V) -> Optional[V]:
        """reversed(x) / x[::-1] of an abstract sequence: the same elements; `rev` records the parity of reversals"""
        out = None
        if isinstance(v, (ListV, AbsList, MapV)):
            out = AbsList(v.elem, self.list_minlen(v))
        elif isinstance(v, PyList):
            out = AbsList(self._elem_of_pylist(v), len(v.items) + getattr(v, "_minextra", 0))
        if out is not None:
            out.rev = not getattr(v, "rev", False)  # type: ignore[attr-defined]
            out.reversed_of = v  # type: ignore[attr-defined]
        return out

    def unzip(self, v: V) -> Optional[List[V]]:
        """zip(*rows) for an abstract list of same-width tuples: one abstract list per column"""
        rows: List[V] = []
        if isinstance(v, PyList):
            rows = list(v.items) + [x for _, per in v.loop_parts for x in per]
        elif isinstance(v, (AbsList, ListV, MapV)):
            e = v.elem
            rows = list(e.options) if isinstance(e, AltV) else [e]
        if not rows or not all(isinstance(r, PyTuple) for r in rows):
            return None
        widths = {len(r.items) for r in rows}
        if len(widths) != 1:
            return None
        cols: List[V] = []
        for i in range(widths.pop()):
            if isinstance(v, PyList):
                c = PyList([r.items[i] for r in v.items])
                c.loop_parts = [(o, [x.items[i] for x in per]) for o, per in v.loop_parts]
                c.created_in = self._frame_id()  # type: ignore[attr-defined]
                if getattr(v, "_minextra", 0):
                    c._minextra = v._minextra  # type: ignore[attr-defined]
            else:
                opts = [r.items[i] for r in rows]
                c = AbsList(opts[0] if len(opts) == 1 else AltV(opts), self.list_minlen(v))
            cols.append(c)
        return cols

    def _to_abs(self, l: PyList) -> V:
        """In-place widening is not possible for PyList; callers that keep the alias see the AbsList
        through the `_abs` back-pointer."""
        ab = getattr(l, "_abs", None)
        if ab is None:
            ab = AbsList(self._elem_of_pylist(l), len(l.items) + getattr(l, "_minextra", 0))
            l._abs = ab  # type: ignore[attr-defined]
        return ab

    def dict_method(self, d: PyDict, name: str, a: List[V], kwargs) -> V:
        from .interp_expr import dict_key, key_to_val
        if name == "get" and a:
            default = a[1] if len(a) > 1 else NONE
            kk = dict_key(a[0])
            if kk is not None:
                if kk in d.items:
                    return d.items[kk]
                if not d.opaque_keys:
                    return default
                return Sym("dictget", d, a[0], default)
            hit = self._same_opaque_key(d, a[0])
            if hit is not None:
                return hit
            if getattr(d, "shared_name", None):
                self.event("shared_miss_assumed", target=d.shared_name)
                return self.dict_lookup_opaque(d, a[0], default)
            if d.opaque_keys and not isinstance(a[0], (Const, RefV)):
                # d.get(k, default) with a symbolic key: the same two cases as `d[k] if k in d else default`
                if self.contains(d, self.resolve_alt(a[0]), "dict.get"):
                    return Sym("item", d, a[0])
                return default
            return self.dict_lookup_opaque(d, a[0], default)
        if name == "items":
            if not d.opaque_keys:
                return PyList([PyTuple([key_to_val(k), v]) for k, v in d.items.items()])
            items = [PyTuple([key_to_val(k), v]) for k, v in d.items.items()] + [PyTuple([k, v]) for k, v in d.opaque_keys]
            e = None
            for i in items:
                e = self.join_vals(e, i)
            return AbsList(e if e is not None else Sym("noelem"), 0)
        if name == "keys":
            return PyList([key_to_val(k) for k in d.items] + [k for k, _ in d.opaque_keys])
        if name == "values":
            return PyList(list(d.items.values()) + [v for _, v in d.opaque_keys])
        if name in ("update", "pop", "setdefault", "clear", "popitem"):
            if getattr(d, "created_in", None) != self._frame_id():
                if name == "setdefault" and len(a) == 2 and getattr(d, "shared_name", None):
                    self.event("mutate", target=d.shared_name, op="setitem", shared=d.shared_name, keyv=a[0], valv=a[1])
                else:
                    self.event("mutate", target=getattr(d, "shared_name", None) or _describe(d), op=name, shared=getattr(d, "shared_name", None))
            if name == "setdefault" and len(a) == 2:
                kk = dict_key(a[0])
                if kk is not None:
                    if kk in d.items:
                        return d.items[kk]
                    d.items[kk] = a[1]
                    return a[1]
                hit = self._same_opaque_key(d, a[0])
                if hit is not None:
                    return hit
                d.opaque_keys.append((a[0], a[1]))
                return a[1]
            if name == "update":
                done = True
                if a:
                    src = self.resolve_alt(a[0])
                    if isinstance(src, PyDict):
                        d.items.update(src.items)
                        d.opaque_keys.extend(src.opaque_keys)
                    else:
                        pairs = self.concrete_items(src)
                        kvs = [self.concrete_items(pr) for pr in pairs] if pairs is not None else None
                        if kvs is not None and all(kv is not None and len(kv) == 2 and dict_key(kv[0]) is not None for kv in kvs):
                            for kv in kvs:
                                d.items[dict_key(kv[0])] = kv[1]
                        else:
                            done = False
                for k, v in kwargs.items():
                    if k == "**":
                        done = False
                    else:
                        d.items[("c", k)] = v
                if not done:
                    d.opaque_keys.append((Sym("unknown-update"), Sym("unknown-update")))
                return NONE
            if name == "clear":
                d.items.clear()
                d.opaque_keys.clear()
                return NONE
            if name == "popitem":
                d.opaque_keys.append((Sym("unknown-popitem"), Sym("unknown-popitem")))
            if name == "pop" and a:
                kk = dict_key(a[0])
                if kk is not None and kk in d.items:
                    return d.items.pop(kk)
                if len(a) > 1:
                    return a[1]
                self.may_raise("builtins.KeyError", f"pop({_describe(a[0])})")
                return Sym("dictpop", d, a[0])
        return Sym("call", Sym("attr", d, name), tuple(a), _kw(kwargs))


def _kw(kwargs: Dict[str, V]) -> tuple:
    return tuple(sorted(kwargs.items(), key=lambda kv: kv[0]))


def _rx_min_width(pattern: str) -> int:
    """Minimal width of a match of the pattern (0 = can match the empty string), from the parsed pattern."""
    import re as _re
    try:
        parser = _re._parser  # type: ignore[attr-defined]
    except AttributeError:  # pragma: no cover
        import sre_parse as parser  # type: ignore
    try:
        return parser.parse(pattern).getwidth()[0]
    except Exception:
        return 0


def _single_char_class(pattern: str, flags) -> Optional[List[str]]:
    """The characters of a pattern that is exactly one literal or one class of literal characters (no ranges, no negation)."""
    if flags and any("I" in str(f) for f in (flags if isinstance(flags, (tuple, list)) else (flags,))):
        return None
    import re as _re
    try:
        parser = _re._parser  # type: ignore[attr-defined]
    except AttributeError:  # pragma: no cover
        import sre_parse as parser  # type: ignore
    try:
        p = list(parser.parse(pattern))
    except Exception:
        return None
    if len(p) != 1:
        return None
    op, av = p[0]
    name = str(op)
    if name == "LITERAL":
        return [chr(av)]
    if name == "IN":
        out = []
        for o2, a2 in av:
            if str(o2) != "LITERAL":
                return None
            out.append(chr(a2))
        return out
    return None
