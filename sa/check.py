"""CLI: cd /verif && /venv/bin/python -m sa.check <Cxx> [--tier quick|thorough]"""
from __future__ import annotations

import argparse
import importlib
import os
import sys
import traceback

from .report import AnalysisError, Ctx, analysis_error, finish


def main(argv=None) -> int:
    ap = argparse.ArgumentParser()
    ap.add_argument("prop")
    ap.add_argument("--tier", default=os.environ.get("VERIF_TIER", "quick"), choices=["quick", "thorough"])
    args = ap.parse_args(argv)
    prop = args.prop.upper()
    try:
        seed = int(os.environ.get("VERIF_SEED", "0"))
    except ValueError:
        seed = 0
    ctx = Ctx(prop, args.tier, seed)
    try:
        from .env import Env

        mod = importlib.import_module(f"sa.props.{prop.lower()}")
        env = Env(args.tier)
        mod.run(ctx, env)
        return finish(ctx, mod.EXPLANATION, mod.RULE_TEXT, env.repo.digests())
    except AnalysisError as e:
        # a violation that was already established stays a violation, whatever could not be analysed afterwards
        from .report import load_known
        known = {(k["property"], k["rule"], k["key"]) for k in load_known().get("known", [])}
        if any(not o.ok and (prop, o.rule, o.key) not in known for o in ctx.obligations):
            print(f"NOTE property={prop} analysis incomplete: {e}")
            try:
                return finish(ctx, getattr(mod, "EXPLANATION", "") + " [analysis incomplete: " + str(e) + "]", getattr(mod, "RULE_TEXT", ""), env.repo.digests())
            except Exception:
                pass
        return analysis_error(prop, args.tier, seed, str(e), getattr(e, "where", ""))
    except ModuleNotFoundError as e:
        if e.name and e.name.startswith("sa.props."):
            return analysis_error(prop, args.tier, seed, f"no check is implemented for {prop}")
        traceback.print_exc()
        return analysis_error(prop, args.tier, seed, f"internal error: {e!r}")
    except RecursionError as e:
        traceback.print_exc(limit=5)
        return analysis_error(prop, args.tier, seed, f"internal error: {e!r}")
    except Exception as e:  # a traceback must never look like a violation
        traceback.print_exc()
        return analysis_error(prop, args.tier, seed, f"internal error: {e!r}")


if __name__ == "__main__":
    sys.exit(main())
