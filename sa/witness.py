"""Synthesis of witness filter strings for (parent, slot, child) triples (diagnostic only)."""
from __future__ import annotations

from typing import Dict, List, Optional, Tuple

from .props import oracles as O

KW = O.OPERATOR_KEYWORD

SORT_EXAMPLE = {"S": "name", "N": "price", "T": "created", "D": "duration'PT1H'", "B": "flag", "G": "geography'POINT(1 2)'",
                "C": "tags", "X": "x"}
LITERALS = {
    "Integer": "5", "Float": "1.5", "String": "'s'", "Boolean": "true", "Null": "null", "Date": "2020-01-01",
    "Time": "12:00:00", "DateTime": "2020-01-01T12:00:00Z", "Duration": "duration'P1D'", "GUID": "00000000-0000-0000-0000-000000000001",
    "Geography": "geography'POINT(1 2)'", "List": "(1, 2)", "Identifier": "a", "Attribute": "rel/a",
    "CollectionLambda": "items/any(i: i/v eq 1)", "NamedParam": "p=1",
}
BOOLEAN_KINDS = {"Compare", "BoolOp", "CollectionLambda"}


def call_example(func: str, override: Optional[Dict[int, str]] = None) -> str:
    sorts = O.ODATA_FUNCTION_PARAMS.get(func)
    lo = O.ODATA_FUNCTION_ARITY.get(func, (1, 1))[0]
    args = []
    for i in range(lo):
        if override and i in override:
            args.append(override[i])
            continue
        s = sorts[i][0] if sorts and i < len(sorts) else "X"
        if func in ("contains", "startswith", "endswith", "indexof") and i == 1:
            args.append("'x'")
        elif func == "substring" and i >= 1:
            args.append("1")
        else:
            args.append(SORT_EXAMPLE.get(s, "x"))
    return f"{func}({', '.join(args)})"


def example(kind: str, discr: Optional[str] = None, func: Optional[str] = None, names=("b", "c")) -> str:
    l, r = names
    if kind == "Call":
        return call_example(func or "length")
    if kind == "BinOp":
        return f"{l} {KW.get(discr or 'Add', 'add')} {r}"
    if kind == "Compare":
        if discr == "In":
            return f"{l} in (1, 2)"
        return f"{l} {KW.get(discr or 'Eq', 'eq')} {r}"
    if kind == "BoolOp":
        return f"{l} eq 1 {KW.get(discr or 'And', 'and')} {r} eq 2"
    if kind == "UnaryOp":
        return f"not {l}" if discr == "Not" else f"-{l}"
    return LITERALS.get(kind, kind.lower())


def needs_parens(kind: str) -> bool:
    return kind in ("BinOp", "Compare", "BoolOp", "UnaryOp")


def embed(parent_kind: str, parent_discr: Optional[str], slot: str, child: str, child_kind: str, func: Optional[str] = None,
          child_is_boolean: bool = False) -> str:
    c = f"({child})" if needs_parens(child_kind) else child
    if parent_kind == "BinOp":
        kw = KW.get(parent_discr or "Add", "add")
        e = f"{c} {kw} 2" if slot.endswith("left") else f"a {kw} {c}"
        return f"{e} gt 0"
    if parent_kind == "Compare":
        kw = KW.get(parent_discr or "Eq", "eq")
        other = "true" if child_is_boolean else "1"
        if parent_discr == "In":
            return f"{c} in (1, 2)" if slot.endswith("left") else f"a in {c}"
        return f"{c} {kw} {other}" if slot.endswith("left") else f"{other} {kw} {c}"
    if parent_kind == "BoolOp":
        kw = KW.get(parent_discr or "And", "and")
        return f"{c} {kw} d eq 4" if slot.endswith("left") else f"d eq 4 {kw} {c}"
    if parent_kind == "UnaryOp":
        return f"not {c}" if parent_discr == "Not" else f"-{c} gt 0"
    if parent_kind == "List":
        return f"a in ({c}, 2)"
    if parent_kind == "Call" and func:
        idx = 0
        import re
        m = re.search(r"\[(\d+)\]", slot)
        if m:
            idx = int(m.group(1))
        ex = call_example(func, {idx: c})
        ret = O.ODATA_FUNCTION_RETURN.get(func)
        if ret == "Boolean":
            return ex
        if ret in ("Integer", "Float"):
            return f"{ex} gt 0"
        return f"{ex} eq 'x'"
    return c
