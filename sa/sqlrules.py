"""Template-level analysis of the raw SQL visitors, shared by C01, C07, C09 and C12."""
from __future__ import annotations

import re
from dataclasses import dataclass, field
from typing import Any, Dict, Iterable, List, Optional, Sequence, Set, Tuple

from . import heval, rx, sqltok, witness
from .interp import PathResult
from .props import oracles as O
from .report import AnalysisError
from .values import AltV, Const, ListV, MapV, NodeV, PyList, Str, Sym, V

DISCR_BASES = ("_BinOpToken", "_Comparator", "_BoolOpToken", "_UnaryOpToken", "_CollectionOperator")

# value sorts: S string, N number, T temporal, D duration, B boolean, G geo, C collection, U guid, X anything
LITERAL_SORT = {"Integer": "N", "Float": "N", "String": "S", "Boolean": "B", "Date": "T", "DateTime": "T", "Time": "T",
                "Duration": "D", "GUID": "U", "Geography": "G", "List": "C", "Null": "X", "Identifier": "X", "Attribute": "X"}
RETURN_SORT = {"Boolean": "B", "Integer": "N", "Float": "N", "String": "S", "Date": "T", "Time": "T", "DateTime": "T", "ARG": "X", None: "X"}


def sort_of(kind: str, discr: Optional[str] = None, func: Optional[str] = None) -> Set[str]:
    if kind == "Call":
        if func in ("concat", "substring"):
            return {"S", "C"}
        return {RETURN_SORT.get(O.ODATA_FUNCTION_RETURN.get(func or ""), "X")}
    if kind in LITERAL_SORT:
        return {LITERAL_SORT[kind]}
    if kind == "BinOp":
        return {"N", "T", "D"}
    if kind == "UnaryOp":
        return {"B"} if discr == "Not" else {"N", "D"}
    if kind in ("Compare", "BoolOp", "CollectionLambda"):
        return {"B"}
    return {"X"}


def slot_sorts(parent_kind: str, parent_discr: Optional[str], via: str) -> Set[str]:
    if parent_kind == "BinOp":
        return {"N", "T", "D"}
    if parent_kind == "BoolOp":
        return {"B"}
    if parent_kind == "UnaryOp":
        return {"B"} if parent_discr == "Not" else {"N", "D"}
    if parent_kind == "Compare":
        if parent_discr == "In" and via == "right":
            return {"C"}
        return {"S", "N", "T", "D", "B", "G", "U", "X"}  # any single value, booleans included
    if parent_kind == "List":
        return {"S", "N", "T", "D", "B", "U", "X"}
    return {"X"}


def compatible(child: Set[str], slot: Set[str]) -> bool:
    return "X" in child or "X" in slot or bool(child & slot)


def param_sorts(funcs: Sequence[str], index: int) -> Set[str]:
    out: Set[str] = set()
    for f in funcs:
        ps = O.ODATA_FUNCTION_PARAMS.get(f)
        if ps is None or index >= len(ps):
            out.add("X")
        else:
            out |= set(ps[index])
    return out or {"X"}


@dataclass
class Tmpl:
    vcls: str
    owner: str  # 'visit_Compare' / 'sqlfunc_indexof'
    label: str  # 'Compare[Eq]' / 'indexof/2'
    kind: Optional[str]
    discr: Optional[str]
    funcs: List[str]
    nargs: Optional[int]
    path: PathResult
    items: Optional[List[Any]]
    st: Optional[sqltok.Structure]
    where: str

    @property
    def is_string(self) -> bool:
        return self.items is not None

    def text(self) -> str:
        if self.items is None:
            return repr(self.path.value)
        out = []
        for it in self.items:
            if isinstance(it, str):
                out.append(it)
            elif it[0] == "join":
                out.append("{" + _hole_path(it[2]) + " joined by " + repr(_plain(it[1])) + "}")
            else:
                v = it[1]
                tr = "".join("|" + ":".join(str(x) for x in t) for t in it[2])
                if isinstance(v, Sym) and v.op == "visit":
                    out.append("{" + _hole_path(v) + tr + "}")
                elif isinstance(v, Sym) and v.op == "cfg":
                    out.append("{self." + str(v.args[1]) + tr + "}")
                else:
                    out.append("{RAW " + _short(v) + tr + "}")
        return "".join(out)


def _plain(v):
    if isinstance(v, Const):
        return v.v
    if isinstance(v, Str) and v.is_const():
        return v.const()
    return repr(v)


def _short(v) -> str:
    r = repr(v)
    return r if len(r) < 80 else r[:77] + "..."


def _hole_path(v) -> str:
    if isinstance(v, Sym) and v.op == "visit":
        a = v.args[1]
        return getattr(a, "path", repr(a))
    return repr(v)


def hole_node(tok: sqltok.Tok) -> Optional[NodeV]:
    p = tok.value
    v = p[2] if p[0] == "join" else p[1]
    if isinstance(v, AltV):
        v = v.options[0]
    if isinstance(v, Sym) and v.op == "visit" and isinstance(v.args[1], NodeV):
        return v.args[1]
    return None


def _gap_of(r: str) -> str:
    i = r.find("elemof(call(<builtins.")
    return r[i + 7:i + 80]


class SqlAnalysis:
    def __init__(self, env, vcls: str):
        self.env = env
        self.vcls = vcls
        self.H = heval.get(env)
        self.schema = env.schema
        self.kf = env.kindflow
        self.short = self.H.short(vcls)
        self._op_text: Dict[str, Optional[str]] = {}
        self.node_tmpls: Dict[Tuple[str, Optional[str]], Optional[List[Tmpl]]] = {}
        self.func_tmpls: Dict[Tuple[str, int], List[Tmpl]] = {}
        self.func_handler: Dict[str, Optional[str]] = {}
        self._build()

    # ---- dialect ------------------------------------------------------------------------------------------
    def dialect(self) -> str:
        q = self.vcls.lower()
        if "sqlite" in q:
            return "sqlite"
        if "athena" in q:
            return "athena"
        return "standard"

    def tables(self) -> List[Tuple[str, Dict[str, Tuple[int, bool]], bool]]:
        d = self.dialect()
        if d == "sqlite":
            return [("SQLite", sqltok.SQLITE, False)]
        if d == "athena":
            return [("Trino/Athena", sqltok.TRINO, False)]
        return [("SQL-92", sqltok.SQL92, True), ("Trino", sqltok.TRINO, False)]

    # ---- construction -----------------------------------------------------------------------------------------
    def is_op_token_kind(self, k: str) -> bool:
        return any(self.schema.is_sub(k, b) for b in DISCR_BASES)

    def op_text(self, kind: str) -> Optional[str]:
        if kind not in self._op_text:
            paths = self.H.eval_visit(self.vcls, kind)
            txt = None
            if paths and all(p.outcome == "return" for p in paths):
                vals = {_plain(p.value) for p in paths}
                if len(vals) == 1 and isinstance(next(iter(vals)), str):
                    txt = next(iter(vals))
            self._op_text[kind] = txt
        return self._op_text[kind]

    def _items(self, value: V) -> Optional[List[Any]]:
        items = sqltok.items_of(value)
        if items is None:
            return None
        out: List[Any] = []
        for it in items:
            if not isinstance(it, str) and it[0] == "dyn" and isinstance(it[1], Sym) and it[1].op == "visit" and not it[2]:
                n = it[1].args[1]
                if isinstance(n, NodeV) and n.kinds and all(self.is_op_token_kind(k) for k in n.kinds) and len(n.kinds) == 1:
                    t = self.op_text(next(iter(n.kinds)))
                    if t is not None:
                        out.extend(t)
                        continue
            out.append(it)
        return out

    def _mk(self, owner, label, kind, discr, funcs, nargs, p: PathResult) -> Tmpl:
        items = self._items(p.value) if p.outcome == "return" else None
        st = sqltok.analyse(sqltok.tokenize(items)) if items is not None else None
        return Tmpl(self.vcls, owner, label, kind, discr, funcs, nargs, p, items, st, p.entry.get("where", ""))

    def _build(self):
        H = self.H
        for kind, discr in H.kind_cases():
            paths = H.eval_visit(self.vcls, kind, discr)
            label = kind + (f"[{discr}]" if discr else "")
            if paths is None:
                self.node_tmpls[(kind, discr)] = None
                continue
            self.node_tmpls[(kind, discr)] = [self._mk("visit_" + kind, label, kind, discr, [], None, p) for p in paths]
        d = H.dispatch(self.vcls)
        handlers = H.func_handlers(self.vcls)
        by_handler: Dict[str, List[str]] = {}
        for full in H.table:
            parts = full.split(".")
            hn = d.handler_name(tuple(parts[:-1]), parts[-1]) if d else None
            if hn in handlers:
                self.func_handler[full] = hn
                by_handler.setdefault(hn, []).append(full)
            else:
                self.func_handler[full] = None
        self.handler_funcs = by_handler
        for hn, funcs in by_handler.items():
            counts: Set[int] = set()
            for f in funcs:
                lo, hi = H.table[f]
                counts |= set(range(lo, hi + 1))
            for n in sorted(counts):
                fs = [f for f in funcs if H.table[f][0] <= n <= H.table[f][1]]
                paths = H.eval_func(self.vcls, hn, n)
                self.func_tmpls[(hn, n)] = [self._mk(hn, f"{'/'.join(fs)}/{n}", None, None, fs, n, p) for p in paths]

    # ---- enumeration ----------------------------------------------------------------------------------------------
    def all_tmpls(self) -> Iterable[Tmpl]:
        for t in self._all_tmpls():
            if t.path.outcome == "return" and "elemof(call(<builtins." in repr(t.path.value):
                # the handler iterates over the result of a builtin (zip, enumerate, map ...) applied to something the evaluator does not
                # enumerate (an Enum class, a starred remainder): the term is the evaluator's gap, not the handler's SQL - no verdict
                raise AnalysisError(f"{t.owner} builds its SQL text by iterating over `{_gap_of(repr(t.path.value))}`, which the evaluator does "
                                    "not enumerate: the emitted text cannot be reconstructed", t.where)
            yield t

    def _all_tmpls(self) -> Iterable[Tmpl]:
        for v in self.node_tmpls.values():
            if v:
                yield from v
        for v in self.func_tmpls.values():
            yield from v

    def child_variants(self, n: NodeV) -> List[Tuple[str, Optional[str], Optional[str]]]:
        """(kind, discr, func) variants a hole's node can take on this path."""
        out: List[Tuple[str, Optional[str], Optional[str]]] = []
        for k in sorted(n.kinds):
            if k in ("NoneType",) or k not in self.schema.classes:
                continue
            if k == "Call":
                for f in self.H.table:
                    if n.call_in is not None and f not in n.call_in:
                        continue
                    if f in n.call_out:
                        continue
                    out.append((k, None, f))
                continue
            df = self.kf.kinds.discr_field(k)
            if df:
                allowed = None
                fv = n.fields.get(df)
                if isinstance(fv, NodeV):
                    allowed = set(fv.kinds)
                ds = sorted(d for (kk, d) in self.kf.kinds.table if kk == k and d is not None)
                for dd in ds:
                    if allowed is None or dd in allowed:
                        out.append((k, dd, None))
                continue
            out.append((k, None, None))
        return out

    def child_tmpls(self, kind: str, discr: Optional[str], func: Optional[str]) -> Optional[List[Tmpl]]:
        """Templates a child variant can produce; None = no handler (generic_visit -> None)."""
        if kind == "Call":
            hn = self.func_handler.get(func or "")
            if hn is None:
                return []  # visit_Call refuses (UnsupportedFunctionException)
            lo, hi = self.H.table[func]
            out: List[Tmpl] = []
            for n in range(lo, hi + 1):
                out.extend(self.func_tmpls.get((hn, n), []))
            return out
        return self.node_tmpls.get((kind, discr))

    def slot_info(self, t: Tmpl, n: NodeV) -> Tuple[str, Set[str]]:
        """(slot name, admissible sorts) of a hole inside template t."""
        path = n.path
        if t.kind is not None:
            via = n.via or path.rsplit(".", 1)[-1]
            return via, slot_sorts(t.kind, t.discr, via.replace("[*]", ""))
        m = re.search(r"args\[(\d+)\]", path)
        idx = int(m.group(1)) if m else 0
        return f"args[{idx}]", param_sorts(t.funcs, idx)

    def variant_label(self, kind, discr, func) -> str:
        if kind == "Call":
            return f"Call[{func}]"
        return kind + (f"[{discr}]" if discr else "")


# ------------------------------------------------------------------------------------------------
# raw pieces: where do they come from, which characters can they contain
# ------------------------------------------------------------------------------------------------
@dataclass
class RawOrigin:
    kinds: Set[str]
    attr: str
    note: str = ""
    extra_transforms: Tuple = ()
    sanitised_to: Optional[str] = None  # regex character class the value is forced into (re.sub of a negated class)


def raw_origin(v: V) -> Optional[RawOrigin]:
    """Trace a raw string piece back to the node field it was read from."""
    if isinstance(v, ListV) and isinstance(v.owner, NodeV):
        return RawOrigin(set(v.owner.kinds), v.attr, "list field rendered with str()")
    if isinstance(v, Sym):
        if v.op == "field" and isinstance(v.args[0], NodeV):
            return RawOrigin(set(v.args[0].kinds), v.args[1])
        if v.op == "prop" and isinstance(v.args[0], NodeV):
            return RawOrigin(set(v.args[0].kinds), v.args[1], "property")
        if v.op == "meth" and isinstance(v.args[0], NodeV):
            return RawOrigin(set(v.args[0].kinds), v.args[1] + "()", "method")
        if v.op == "splitpart" and isinstance(v.args[1], str) and len(v.args[1]) == 1:
            # a piece of the text cut at every occurrence of one character: the same origin, and free of that character
            o = raw_origin(v.args[0])
            if o:
                o.sanitised_to = "[^" + re.escape(v.args[1]) + "]"
                o.note += f" split at {v.args[1]!r}"
            return o
        if v.op == "elem":
            o = raw_origin(v.args[0])
            if o:
                o.note += f" element {v.args[1]}"
            return o
        if v.op == "call":
            f = v.args[0]
            # compiled_regex.sub(repl, value): result characters = value characters not matching + repl
            if isinstance(f, Sym) and f.op in ("attr", "extattr") and f.args[-1] == "sub" and isinstance(f.args[0], Sym) and f.args[0].op == "regex":
                args = v.args[1]
                if len(args) >= 2:
                    inner = args[1]
                    o = None
                    if isinstance(inner, Str) and len(inner.parts) == 1 and inner.parts[0][0] == "dyn":
                        o = raw_origin(inner.parts[0][1])
                        if o:
                            o.extra_transforms = tuple(inner.parts[0][2])
                    else:
                        o = raw_origin(inner)
                    if o:
                        pat = f.args[0].args[0]
                        repl = args[0].v if isinstance(args[0], Const) else None
                        m = re.fullmatch(r"\[\^([^\]]+)\]", pat)
                        if m and isinstance(repl, str):
                            o.sanitised_to = "[" + m.group(1) + re.escape(repl) + "]"
                        o.note += f" re.sub({pat!r})"
                    return o
    if isinstance(v, Str) and len(v.parts) == 1 and v.parts[0][0] == "dyn":
        o = raw_origin(v.parts[0][1])
        if o:
            o.extra_transforms = tuple(v.parts[0][2]) + o.extra_transforms
        return o
    return None


class TokenLanguages:
    """Token rule languages per literal kind (Core D), for alphabet questions about raw pieces."""

    def __init__(self, env, extra_patterns: Sequence[str] = (), full: bool = False):
        self.env = env
        g = env.grammar
        self.g = g
        pats = [r.pattern for r in g.rules] + list(extra_patterns)
        self.alpha = rx.Alphabet.for_patterns(pats, g.reflags, full=full, extra_chars="'\"`;\\-/*% _")
        self.rules = {r.name: rx.compile_rule(r.pattern, g.reflags, self.alpha) for r in g.rules}
        self.rule_of_kind: Dict[str, List[str]] = {}
        for name, shapes in env.kindflow.token_shapes.items():
            for s in shapes:
                if s[0] == "node":
                    self.rule_of_kind.setdefault(s[1], []).append(name)

    def validated_by(self, kind: str, attr: str) -> Optional[str]:
        """If `kind.attr()` only returns pieces of `self.val` as captured by an anchored match of a constant regex
        (REGEX.fullmatch(self.val).groups(), possibly sliced) and raises when there is no match, return that regex: the
        pieces cannot contain characters the regex does not admit. Decided by evaluating the method."""
        name = attr[:-2] if attr.endswith("()") else attr
        cache = self.__dict__.setdefault("_validated_cache", {})
        if (kind, name) in cache:
            return cache[(kind, name)]
        cache[(kind, name)] = None
        repo = self.env.repo
        ci = repo.classes.get("odata_query.ast." + kind)
        r = repo.lookup_method(ci.qual, name) if ci is not None else None
        if r is None:
            return None
        from .interp import Interp, KindEnv
        from .values import Const, NodeV, PyList, PyTuple, Sym
        it = Interp(repo, self.env.schema, KindEnv(self.env.schema))
        try:
            paths = it.explore(lambda _i: (r[0].module, r[1], [NodeV("node", {kind})], {}, r[0].qual), max_paths=3000)
        except AnalysisError:
            return None
        patterns = set()
        saw_raise = False

        def regex_of(v) -> Optional[str]:
            """pattern P if v is (a slice of) a group of P.fullmatch(node.val), else None"""
            cur = v
            for _ in range(4):
                if isinstance(cur, Sym) and cur.op == "getslice":
                    cur = cur.args[0]
                elif type(cur).__name__ == "Str" and len(cur.parts) == 1 and cur.parts[0][0] == "dyn":
                    cur = cur.parts[0][1]
                else:
                    break
            if not (isinstance(cur, Sym) and cur.op == "elem"):
                return None
            g = cur.args[0]
            if not (isinstance(g, Sym) and g.op == "call" and isinstance(g.args[0], Sym) and g.args[0].op == "attr" and g.args[0].args[1] == "groups"):
                return None
            m = g.args[0].args[0]
            if not (isinstance(m, Sym) and m.op == "call" and isinstance(m.args[0], Sym) and m.args[0].op == "attr" and m.args[0].args[1] == "fullmatch"):
                return None
            rxv = m.args[0].args[0]
            if not (isinstance(rxv, Sym) and rxv.op == "regex" and len(m.args[1]) == 1 and "field(node,'val')" in repr(m.args[1][0])):
                return None
            return rxv.args[0]

        for p in paths:
            if p.outcome == "raise":
                saw_raise = True
                continue
            v = p.value
            items = list(v.items) if isinstance(v, (PyTuple, PyList)) and not getattr(v, "loop_parts", None) else [v]
            for x in items:
                if isinstance(x, Const) and x.v is None:
                    continue
                pat = regex_of(x)
                if pat is None:
                    return None
                patterns.add(pat)
        if len(patterns) == 1 and saw_raise:
            cache[(kind, name)] = next(iter(patterns))
        return cache[(kind, name)]

    def chars_possible(self, kinds: Set[str], chars: str, attr: str = "") -> Dict[str, Optional[str]]:
        """For each char: the name of a token rule (of these kinds) whose language uses it, or None."""
        out: Dict[str, Optional[str]] = {c: None for c in chars}
        for k in kinds:
            pat = self.validated_by(k, attr) if attr.endswith("()") else None
            if pat is not None:
                alpha = rx.Alphabet.for_patterns([pat], 0, extra_chars=chars)
                d = rx.compile_dfa(pat, 0, alpha)
                used = rx.symbols_used(d)
                for c in chars:
                    cls = alpha.class_of.get(c)
                    if cls is not None and cls in used:
                        out[c] = out[c] or f"{k}.{attr} regex"
                continue
            rules = self.rule_of_kind.get(k)
            if rules is None:
                for c in chars:
                    out[c] = out[c] or f"<no token rule for {k}>"
                continue
            for rn in rules:
                used = rx.symbols_used(self.rules[rn].dfa)
                for c in chars:
                    cls = self.alpha.class_of.get(c)
                    if cls is not None and cls in used:
                        out[c] = out[c] or rn
        return out

    def included(self, kind: str, pattern: str, flags=("re.I",)) -> Optional[str]:
        """None if every spelling of `kind`'s token(s) matches `pattern`; else a counterexample."""
        for rn in self.rule_of_kind.get(kind, []):
            alpha = rx.Alphabet.for_patterns([self.g.rule(rn).pattern, pattern], self.g.reflags,
                                             full=getattr(self, "full", False))
            a = rx.compile_rule(self.g.rule(rn).pattern, self.g.reflags, alpha).dfa
            b = rx.compile_dfa(pattern, flags, alpha)
            w = rx.difference_witness(a, b, alpha)
            if w is not None:
                return w
        return None
