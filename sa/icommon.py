"""Shared bits of the interpreter."""
from __future__ import annotations

import ast
from typing import Any

from .values import ListV, NodeV, Sym, V

MAX_PATHS = 60000
MAX_DEPTH = 8


class PathAbort(Exception):
    """The current path is infeasible (or hit a bottom summary)."""


class _Return(Exception):
    def __init__(self, v: V):
        self.v = v


class _Raise(Exception):
    def __init__(self, exc: V, where: str, node=None):
        self.exc = exc
        self.where = where
        self.node = node


class _Break(Exception):
    pass


class _Continue(Exception):
    pass


def _walk_own(fn):
    """Nodes of a function body excluding nested function/lambda/class bodies."""
    todo = list(fn.body) if not isinstance(fn, ast.Lambda) else [fn.body]
    while todo:
        n = todo.pop()
        yield n
        for c in ast.iter_child_nodes(n):
            if isinstance(c, (ast.FunctionDef, ast.AsyncFunctionDef, ast.Lambda, ast.ClassDef)):
                continue
            todo.append(c)


def _load(t: ast.expr) -> ast.expr:
    import copy

    t2 = copy.copy(t)
    if hasattr(t2, "ctx"):
        t2.ctx = ast.Load()
    return t2


def _describe(v: Any) -> str:
    if isinstance(v, NodeV):
        return v.path
    if isinstance(v, ListV):
        return v.path
    if isinstance(v, Sym):
        return v.key()
    return repr(v)


# functions that had to be replaced by their return annotation (they contain a loop outside the supported forms);
# every evidence file written by the process lists them as assumptions
ANNOTATION_SUMMARIES: set = set()
