"""Lazily built shared analysis context (one per check run)."""
from __future__ import annotations

from functools import cached_property

from .gram import GrammarModel, load_grammar
from .interp import Interp
from .kindflow import KindFlow, build_kindflow
from .lr import Tables, build_tables
from .model import Repo, Schema


class Env:
    def __init__(self, tier: str = "quick"):
        self.tier = tier

    @cached_property
    def repo(self) -> Repo:
        return Repo()

    @cached_property
    def schema(self) -> Schema:
        return Schema(self.repo)

    @cached_property
    def grammar(self) -> GrammarModel:
        return load_grammar(self.repo)

    @cached_property
    def tables(self) -> Tables:
        return build_tables(self.grammar, want_lr1_check=(self.tier == "thorough"))

    @cached_property
    def kindflow(self) -> KindFlow:
        return build_kindflow(self.repo, self.schema, self.grammar)

    def func_q(self, modname: str, name: str) -> str:
        """The name the interpreter knows a module-level function by: that of the module defining it (re-exports followed)"""
        mf = self.repo.function(modname, name)
        return f"{mf[0].name}.{mf[1].name}" if mf else f"{modname}.{name}"

    def interp(self, image: bool = True, **kw) -> Interp:
        it = Interp(self.repo, self.schema, self.kindflow.kinds if image else None, **kw)
        it.summarise_funcs = {self.func_q("odata_query.typing", "infer_type")}
        it.run_exc_ctors = True  # building a library exception runs its constructor (with the values actually passed)
        it.entry_through_decorators = True  # an explored function is what its callers get: the decorated one
        return it
