"""Core C: grammar model read syntactically from odata_query/grammar.py.

Lexer: ordered rules (SLY: class-body definition order; master regex = alternation in that order,
first alternative that matches wins), reflags, literals, action bodies.
Parser: productions (decorator strings split as SLY does, literals unquoted), precedence tuple,
start symbol (name of the first decorated rule function), action function per production.
"""
from __future__ import annotations

import ast
from dataclasses import dataclass, field
from typing import Any, Dict, List, Optional, Tuple

from .model import NotConst, PKG, Ref, Repo
from .report import AnalysisError

GRAMMAR_MODULE = f"{PKG}.grammar"


@dataclass
class LexRule:
    name: str
    pattern: str  # folded regex as SLY assembles it (without the (?P<NAME>...) wrapper)
    raw_patterns: List[str]  # the individual alternatives given to @_
    func: Optional[ast.FunctionDef]
    lineno: int
    order: int


@dataclass
class Production:
    index: int
    name: str
    syms: Tuple[str, ...]
    func: ast.FunctionDef
    rule_text: str
    lineno: int
    prec_override: Optional[str] = None

    def __str__(self):
        return f"{self.name} -> {' '.join(self.syms) if self.syms else '<empty>'}"

    def namemap(self) -> Dict[str, int]:
        """SLY's p.<name> accessors: duplicates get numeric suffixes."""
        count: Dict[str, int] = {}
        for s in self.syms:
            count[s] = count.get(s, 0) + 1
        use: Dict[str, int] = {}
        out: Dict[str, int] = {}
        for i, s in enumerate(self.syms):
            if count[s] > 1:
                k = f"{s}{use.get(s, 0)}"
                use[s] = use.get(s, 0) + 1
            else:
                k = s
            out[k] = i
        return out


@dataclass
class GrammarModel:
    lexer_class: str
    parser_class: str
    rules: List[LexRule]
    tokens: List[str]
    literals: List[str]
    reflags: Tuple[str, ...]
    productions: List[Production]
    precedence: List[Tuple[str, Tuple[str, ...]]]  # (assoc, terminals) lowest first
    start: str
    parser_tokens_same: bool
    lexer_error: Optional[ast.FunctionDef] = None
    parser_error: Optional[ast.FunctionDef] = None
    ignore: str = ""
    extra: Dict[str, Any] = field(default_factory=dict)

    def terminals(self) -> List[str]:
        return list(self.tokens) + [l for l in self.literals]

    def nonterminals(self) -> List[str]:
        out: List[str] = []
        for p in self.productions:
            if p.name not in out:
                out.append(p.name)
        return out

    def rule(self, name: str) -> Optional[LexRule]:
        for r in self.rules:
            if r.name == name:
                return r
        return None


def _find_class_by_base(repo: Repo, modname: str, base_qual: str) -> List[str]:
    out = []
    m = repo.modules[modname]
    for ci in m.classes.values():
        if base_qual in repo.mro(ci.qual):
            out.append(ci.qual)
    # classes the module merely re-exports (`from ._lexer import ODataLexer`) count as its own
    for local, target in m.imports.items():
        q = repo.canonical(target)
        if q in repo.classes and q.startswith("odata_query.") and base_qual in repo.mro(q) and q not in out:
            out.append(q)
    return out


def load_grammar(repo: Repo) -> GrammarModel:
    if GRAMMAR_MODULE not in repo.modules:
        raise AnalysisError("odata_query/grammar.py not found")
    m = repo.modules[GRAMMAR_MODULE]
    lexers = _find_class_by_base(repo, GRAMMAR_MODULE, "sly.Lexer") + _find_class_by_base(repo, GRAMMAR_MODULE, "sly.lex.Lexer")
    parsers = _find_class_by_base(repo, GRAMMAR_MODULE, "sly.Parser") + _find_class_by_base(repo, GRAMMAR_MODULE, "sly.yacc.Parser")
    if len(lexers) != 1 or len(parsers) != 1:
        raise AnalysisError(f"expected exactly one SLY Lexer and one Parser subclass, found {lexers} / {parsers}", m.rel)
    lex = repo.classes[lexers[0]]
    par = repo.classes[parsers[0]]

    # ---- lexer ---------------------------------------------------------------------------
    def fold_in(mod):
        def fold(e):
            try:
                return repo.fold(mod, e)
            except NotConst as ex:
                raise AnalysisError(f"cannot fold constant expression `{ast.unparse(e)}`: {ex}", mod.loc(e))
        return fold

    fold = fold_in(lex.module)  # the lexer's constants are folded where the lexer is defined

    tokens_e = lex.assigns.get("tokens")
    if tokens_e is None:
        raise AnalysisError("lexer defines no tokens", m.rel)
    tokens_v = fold(tokens_e)
    tokens = sorted(tokens_v) if isinstance(tokens_v, (frozenset, set)) else list(tokens_v)
    literals_v = fold(lex.assigns["literals"]) if "literals" in lex.assigns else frozenset()
    literals = sorted(literals_v)
    reflags: Tuple[str, ...] = ()
    if "reflags" in lex.assigns:
        fl = fold(lex.assigns["reflags"])
        if isinstance(fl, Ref):
            reflags = tuple(fl.qual.split("|"))
        elif fl in (0, None):
            reflags = ()
        else:
            raise AnalysisError(f"unsupported reflags value {fl!r}", m.loc(lex.assigns["reflags"]))
    ignore = fold(lex.assigns["ignore"]) if "ignore" in lex.assigns else ""

    rules: List[LexRule] = []
    seen: Dict[str, int] = {}
    for st in lex.node.body:
        if isinstance(st, ast.FunctionDef):
            pats = _decorator_strings(st, fold)
            if pats is None:
                continue
            if st.name in seen:
                raise AnalysisError(f"lexer rule {st.name} defined twice", m.loc(st))
            pattern = "|".join(f"({p})" for p in pats)
            seen[st.name] = len(rules)
            rules.append(LexRule(st.name, pattern, pats, st, st.lineno, len(rules)))
        elif isinstance(st, ast.Assign) and len(st.targets) == 1 and isinstance(st.targets[0], ast.Name):
            name = st.targets[0].id
            if name in tokens or name.startswith("ignore_"):
                v = fold(st.value)
                if not isinstance(v, str):
                    raise AnalysisError(f"lexer rule {name} is not a string", m.loc(st))
                if name in seen:
                    raise AnalysisError(f"lexer rule {name} defined twice", m.loc(st))
                seen[name] = len(rules)
                rules.append(LexRule(name, v, [v], None, st.lineno, len(rules)))
    lexer_error = lex.methods.get("error")

    # ---- parser --------------------------------------------------------------------------
    fold = fold_in(par.module)
    ptoks = par.assigns.get("tokens")
    same = False
    if ptoks is not None:
        q = repo.resolve_expr(par.module, ptoks)
        same = q == f"{lex.qual}.tokens" or (isinstance(ptoks, ast.Attribute) and isinstance(ptoks.value, ast.Name)
                                               and ptoks.value.id == lex.name and ptoks.attr == "tokens")
        if not same:
            try:
                pv = fold(ptoks)
                same = set(pv) == set(tokens)
            except AnalysisError:
                same = False
    precedence: List[Tuple[str, Tuple[str, ...]]] = []
    if "precedence" in par.assigns:
        pv = fold(par.assigns["precedence"])
        for row in pv:
            if not isinstance(row, (tuple, list)) or len(row) < 2 or not all(isinstance(x, str) for x in row):
                raise AnalysisError(f"malformed precedence row {row!r}", m.loc(par.assigns["precedence"]))
            precedence.append((row[0], tuple(row[1:])))

    # SLY collects rule functions under the name's *first* position in the class body and chains
    # redefinitions through next_func (last definition first).
    by_name: Dict[str, List[ast.FunctionDef]] = {}
    order: List[str] = []
    for st in par.node.body:
        if isinstance(st, ast.FunctionDef):
            pats = _decorator_strings(st, fold)
            if pats is None:
                continue
            if st.name not in by_name:
                by_name[st.name] = []
                order.append(st.name)
            by_name[st.name].append(st)
    productions: List[Production] = []
    for name in order:
        for fn in reversed(by_name[name]):
            pats = _decorator_strings(fn, fold) or []
            for rule_text in reversed(pats):
                syms = rule_text.split()
                if "{" in syms or "[" in syms:
                    raise AnalysisError("EBNF productions are outside the supported subset", m.loc(fn))
                pname = name
                if syms[1:2] == [":"] or syms[1:2] == ["::="]:
                    pname, syms = syms[0], syms[2:]
                prec_override = None
                if "%prec" in syms:
                    i = syms.index("%prec")
                    prec_override = syms[i + 1] if i + 1 < len(syms) else None
                    syms = syms[:i]
                clean = []
                for s in syms:
                    if s[0] in "'\"" and s[0] == s[-1] and len(s) >= 2:
                        clean.append(s[1:-1])
                    else:
                        clean.append(s)
                productions.append(Production(len(productions) + 1, pname, tuple(clean), fn, rule_text, fn.lineno, prec_override))
    if not productions:
        raise AnalysisError("no productions found", m.rel)
    start = productions[0].name
    if "start" in par.assigns:
        sv = fold(par.assigns["start"])
        if isinstance(sv, str):
            start = sv
    return GrammarModel(lex.qual, par.qual, rules, tokens, literals, reflags, productions, precedence, start, same,
                        lexer_error, par.methods.get("error"), ignore)


def _decorator_strings(fn: ast.FunctionDef, fold) -> Optional[List[str]]:
    """Patterns given to the SLY `@_( ... )` decorator(s); None if the function is not a rule."""
    pats: List[str] = []
    found = False
    # decorators apply bottom-up; SLY lexer prepends later-applied patterns, parser appends reversed.
    for d in reversed(fn.decorator_list):
        if isinstance(d, ast.Call) and isinstance(d.func, ast.Name) and d.func.id == "_":
            found = True
            cur = []
            for a in d.args:
                v = fold(a)
                if not isinstance(v, str):
                    raise AnalysisError("non-string rule pattern", "")
                cur.append(v)
            pats = pats + cur
    return pats if found else None
