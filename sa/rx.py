"""Core D: regex automata over an exact symbolic alphabet.

`re._parser.parse` gives the regex AST. Character semantics are not re-implemented: every distinct
one-character atom is compiled (same flags) and matched against every code point of the universe;
code points with equal signature vectors form one alphabet class. Thompson NFA -> subset DFA.
Trailing assertions (\\b, (?!set), (?=set)) are supported as one-symbol look-ahead.
"""
from __future__ import annotations

import re
import sys
from dataclasses import dataclass, field
from typing import Any, Dict, FrozenSet, Iterable, List, Optional, Sequence, Set, Tuple

from .report import AnalysisError

try:  # Python 3.11+
    import re._parser as sre_parse  # type: ignore
    import re._compiler as sre_compile  # type: ignore
    import re._constants as sre_c  # type: ignore
except ImportError:  # pragma: no cover
    import sre_parse  # type: ignore
    import sre_compile  # type: ignore
    import sre_constants as sre_c  # type: ignore

MAXREPEAT = sre_c.MAXREPEAT
END = -1  # the look-ahead symbol "end of input"

CURATED = "ſKıİ٣٠९   　éßΣσςǅİKſ'’‘\"`;\\\x00\n\t\r\x0b\x0c\x1c\x1f\x85%_-–"


def flags_value(flags: Sequence[str]) -> int:
    v = 0
    for f in flags:
        name = f.rsplit(".", 1)[-1]
        if not hasattr(re, name):
            raise AnalysisError(f"unknown regex flag {f}")
        v |= int(getattr(re, name))
    return v


def parse(pattern: str, flags: int):
    try:
        return sre_parse.parse(pattern, flags)
    except re.error as e:
        raise AnalysisError(f"regex does not compile: {pattern!r}: {e}")


# ------------------------------------------------------------------------------------------------
# atoms
# ------------------------------------------------------------------------------------------------
def _atoms(sub, out: List[Tuple]):
    for op, av in sub:
        if op in (sre_c.LITERAL, sre_c.NOT_LITERAL):
            out.append((op, av))
        elif op is sre_c.IN:
            out.append((op, tuple(_freeze(x) for x in av)))
        elif op is sre_c.ANY:
            out.append((op, None))
        elif op is sre_c.CATEGORY:
            out.append((sre_c.IN, ((sre_c.CATEGORY, av),)))
        elif op is sre_c.BRANCH:
            for alt in av[1]:
                _atoms(alt, out)
        elif op is sre_c.SUBPATTERN:
            _atoms(av[3], out)
        elif op in (sre_c.MAX_REPEAT, sre_c.MIN_REPEAT, getattr(sre_c, "POSSESSIVE_REPEAT", None)):
            _atoms(av[2], out)
        elif op in (sre_c.ASSERT, sre_c.ASSERT_NOT):
            _atoms(av[1], out)
        elif op is sre_c.AT:
            if av in (sre_c.AT_BOUNDARY, sre_c.AT_NON_BOUNDARY):
                out.append((sre_c.IN, ((sre_c.CATEGORY, sre_c.CATEGORY_WORD),)))
        elif op is getattr(sre_c, "ATOMIC_GROUP", None):
            _atoms(av, out)
        else:
            raise AnalysisError(f"regex construct {op} is outside the supported subset")


def _freeze(x):
    op, av = x
    if isinstance(av, list):
        return (op, tuple(_freeze(y) for y in av))
    return (op, av)


def _atom_matcher(atom, flags: int):
    if not flags & re.ASCII:
        flags |= re.UNICODE  # what re.compile does for str patterns
    op, av = atom
    sp = sre_parse.SubPattern(sre_parse.State())
    sp.state.flags = flags
    if op is sre_c.IN:
        sp.append((op, [_thaw(x) for x in av]))
    else:
        sp.append((op, av))
    sp.state.str = ""
    try:
        return sre_compile.compile(sp, flags)
    except Exception as e:  # pragma: no cover
        raise AnalysisError(f"cannot compile atom {atom}: {e}")


def _thaw(x):
    op, av = x
    if isinstance(av, tuple) and av and isinstance(av[0], tuple):
        return (op, [_thaw(y) for y in av])
    return (op, av)


class Alphabet:
    def __init__(self, universe: str, flags: int, atoms: List[Tuple], alt_atoms: Sequence[Tuple[Tuple, int]] = ()):
        self.flags = flags
        self.atoms = atoms
        sigs: Dict[int, List[int]] = {}
        n = len(universe)
        vec = [0] * n
        index = {ch: i for i, ch in enumerate(universe)}
        for bit, atom in enumerate(atoms):
            m = _atom_matcher(atom, flags)
            for ch in m.findall(universe):
                if len(ch) == 1:
                    vec[index[ch]] |= (1 << bit)
        # atoms of patterns that are to be read under flags of their own (a specification compared with the rules): classified separately
        self.alt_index: Dict[Tuple[Tuple, int], int] = {}
        for k, (atom, afv) in enumerate(alt_atoms):
            bit = len(atoms) + k
            self.alt_index[(atom, afv)] = bit
            m = _atom_matcher(atom, afv)
            for ch in m.findall(universe):
                if len(ch) == 1:
                    vec[index[ch]] |= (1 << bit)
        classes: Dict[int, int] = {}
        self.class_of: Dict[str, int] = {}
        self.members: List[List[str]] = []
        self.sig: List[int] = []
        for i, ch in enumerate(universe):
            s = vec[i]
            c = classes.get(s)
            if c is None:
                c = classes[s] = len(self.members)
                self.members.append([])
                self.sig.append(s)
            if len(self.members[c]) < 8 or ord(ch) < 128:
                self.members[c].append(ch)
            self.class_of[ch] = c
        self.n = len(self.members)
        self.atom_index = {a: i for i, a in enumerate(atoms)}
        self.universe_size = n
        self.rep = [self._pick(ms) for ms in self.members]

    @staticmethod
    def _pick(ms: List[str]) -> str:
        pref = [c for c in ms if c.isascii() and c.isprintable() and c != " "]
        if pref:
            for c in pref:
                if c.isalnum():
                    return c
            return pref[0]
        if " " in ms:
            return " "
        return ms[0]

    def classes_matching(self, atom, fv: Optional[int] = None) -> FrozenSet[int]:
        bit = self.alt_index.get((atom, fv)) if fv is not None and fv != self.flags else None
        if bit is None:
            bit = self.atom_index.get(atom)
        if bit is None:
            raise AnalysisError(f"atom {atom} not in alphabet (internal)")
        return frozenset(c for c in range(self.n) if self.sig[c] >> bit & 1)

    def classes_of_chars(self, chars: Iterable[str]) -> FrozenSet[int]:
        out = set()
        for ch in chars:
            if ch in self.class_of:
                out.add(self.class_of[ch])
        return frozenset(out)

    def text(self, word: Sequence[int]) -> str:
        return "".join("" if c == END else self.rep[c] for c in word)

    @classmethod
    def for_patterns(cls, patterns: Sequence[str], flags: Sequence[str] | int, full: bool = False,
                     extra_chars: str = "", alt: Sequence[Tuple[str, Any]] = ()) -> "Alphabet":
        fv = flags if isinstance(flags, int) else flags_value(flags)
        atoms: List[Tuple] = []
        for p in patterns:
            _atoms(parse(p, fv), atoms)
        alt_atoms: List[Tuple[Tuple, int]] = []
        for ap, afl in alt:
            afv = afl if isinstance(afl, int) else flags_value(afl)
            tmp: List[Tuple] = []
            _atoms(parse(ap, afv), tmp)
            atoms.extend(tmp)  # also under the alphabet's own flags (what every other caller asks for)
            if afv != fv:
                for a in tmp:
                    if (a, afv) not in alt_atoms:
                        alt_atoms.append((a, afv))
        uniq: List[Tuple] = []
        seen = set()
        for a in atoms:
            if a not in seen:
                seen.add(a)
                uniq.append(a)
        if full:
            universe = "".join(chr(i) for i in range(sys.maxunicode + 1) if not 0xD800 <= i <= 0xDFFF)
        else:
            chars = set(chr(i) for i in range(128)) | set(CURATED) | set(extra_chars)
            for a in uniq:
                for ch in _mentioned(a):
                    for v in (ch, ch.lower(), ch.upper(), ch.swapcase()):
                        if len(v) == 1:
                            chars.add(v)
            chars.add("\U0001d538")  # a non-BMP letter
            universe = "".join(sorted(chars))
        return cls(universe, fv, uniq, alt_atoms)


def _mentioned(atom) -> Iterable[str]:
    op, av = atom
    if op in (sre_c.LITERAL, sre_c.NOT_LITERAL):
        yield chr(av)
    elif op is sre_c.IN:
        for o, a in av:
            if o is sre_c.LITERAL:
                yield chr(a)
            elif o is sre_c.RANGE:
                lo, hi = a
                yield chr(lo)
                yield chr(hi)
                if hi - lo < 64:
                    for i in range(lo, hi + 1):
                        yield chr(i)


# ------------------------------------------------------------------------------------------------
# NFA
# ------------------------------------------------------------------------------------------------
class NFA:
    def __init__(self, nsyms: int):
        self.nsyms = nsyms
        self.eps: List[List[int]] = []
        self.trans: List[List[Tuple[FrozenSet[int], int]]] = []

    def new(self) -> int:
        self.eps.append([])
        self.trans.append([])
        return len(self.eps) - 1

    def add_eps(self, a: int, b: int):
        self.eps[a].append(b)

    def add(self, a: int, syms: FrozenSet[int], b: int):
        if syms:
            self.trans[a].append((syms, b))


@dataclass
class Lookahead:
    """Trailing one-symbol look-ahead of a rule: allowed next symbols (classes and/or END)."""
    allowed: Optional[FrozenSet[int]] = None  # None = anything
    # \b at the end: allowed depends on whether the last matched char is a word char
    boundary: bool = False


class Builder:
    def __init__(self, alpha: Alphabet, fv: Optional[int] = None):
        self.alpha = alpha
        self.fv = fv  # the flags the pattern being built is read under, when they differ from the alphabet's
        self.nfa = NFA(alpha.n)
        self.lazy_seen = False
        self.case_changes = False

    def build(self, sub) -> Tuple[int, int]:
        s = self.nfa.new()
        cur = s
        for op, av in sub:
            a, b = self.item(op, av)
            self.nfa.add_eps(cur, a)
            cur = b
        return s, cur

    def item(self, op, av) -> Tuple[int, int]:
        n = self.nfa
        al = self.alpha
        if op in (sre_c.LITERAL, sre_c.NOT_LITERAL, sre_c.ANY):
            a, b = n.new(), n.new()
            n.add(a, al.classes_matching((op, av if op is not sre_c.ANY else None), self.fv), b)
            return a, b
        if op is sre_c.IN:
            a, b = n.new(), n.new()
            n.add(a, al.classes_matching((op, tuple(_freeze(x) for x in av)), self.fv), b)
            return a, b
        if op is sre_c.CATEGORY:
            a, b = n.new(), n.new()
            n.add(a, al.classes_matching((sre_c.IN, ((sre_c.CATEGORY, av),)), self.fv), b)
            return a, b
        if op is sre_c.BRANCH:
            a, b = n.new(), n.new()
            for alt in av[1]:
                x, y = self.build(alt)
                n.add_eps(a, x)
                n.add_eps(y, b)
            return a, b
        if op is sre_c.SUBPATTERN:
            group, add_flags, del_flags, p = av
            if (add_flags | del_flags) & re.IGNORECASE:
                self.case_changes = True
                raise AnalysisError("inline case-flag changes inside a rule are outside the supported subset")
            return self.build(p)
        if op in (sre_c.MAX_REPEAT, sre_c.MIN_REPEAT) or op is getattr(sre_c, "POSSESSIVE_REPEAT", None):
            if op is sre_c.MIN_REPEAT:
                self.lazy_seen = True
            lo, hi, p = av
            a = n.new()
            cur = a
            for _ in range(lo):
                x, y = self.build(p)
                n.add_eps(cur, x)
                cur = y
            if hi == MAXREPEAT:
                x, y = self.build(p)
                loop = n.new()
                n.add_eps(cur, loop)
                n.add_eps(loop, x)
                n.add_eps(y, loop)
                return a, loop
            end = n.new()
            n.add_eps(cur, end)
            if hi - lo > 2000:
                raise AnalysisError("bounded repeat too large for the automaton construction")
            for _ in range(hi - lo):
                x, y = self.build(p)
                n.add_eps(cur, x)
                n.add_eps(y, end)
                cur = y
            return a, end
        if op is getattr(sre_c, "ATOMIC_GROUP", None):
            return self.build(av)
        raise AnalysisError(f"regex construct {op} in the middle of a rule is outside the supported subset")


@dataclass
class DFA:
    nsyms: int
    trans: List[List[int]]  # state -> sym -> state (complete; dead state included)
    accept: Set[int]
    start: int = 0

    def step_word(self, word: Sequence[int]) -> int:
        s = self.start
        for c in word:
            s = self.trans[s][c]
        return s


def nfa_to_dfa(n: NFA, start: int, accepts: Set[int]) -> DFA:
    def closure(states: Iterable[int]) -> FrozenSet[int]:
        out = set(states)
        todo = list(out)
        while todo:
            s = todo.pop()
            for t in n.eps[s]:
                if t not in out:
                    out.add(t)
                    todo.append(t)
        return frozenset(out)

    s0 = closure([start])
    index = {s0: 0}
    order = [s0]
    trans: List[List[int]] = []
    i = 0
    while i < len(order):
        S = order[i]
        row = []
        moves: List[Set[int]] = [set() for _ in range(n.nsyms)]
        for s in S:
            for syms, t in n.trans[s]:
                for c in syms:
                    moves[c].add(t)
        cache: Dict[FrozenSet[int], int] = {}
        for c in range(n.nsyms):
            key = frozenset(moves[c])
            if key in cache:
                row.append(cache[key])
                continue
            T = closure(key)
            j = index.get(T)
            if j is None:
                j = index[T] = len(order)
                order.append(T)
            cache[key] = j
            row.append(j)
        trans.append(row)
        i += 1
        if len(order) > 200000:
            raise AnalysisError("DFA too large")
    accept = {i for i, S in enumerate(order) if S & accepts}
    return DFA(n.nsyms, trans, accept, 0)


@dataclass
class Rule:
    """A compiled token rule: DFA of the matched text plus its trailing look-ahead condition.
    A rule whose top level is an alternation may carry a different look-ahead per alternative
    (`true|false(?!x)`): `variants` lists (DFA, look-ahead) per alternative, `dfa` is their union."""
    dfa: DFA
    look: Lookahead
    lazy: bool
    pattern: str
    variants: List[Tuple[DFA, Lookahead]] = field(default_factory=list)
    # a leading look-behind of one character: the alphabet classes allowed directly before the token (None: no condition);
    # `behind_start` says whether the token may stand at the very beginning of the input
    behind: Optional[FrozenSet[int]] = None
    behind_start: bool = True


def _split_trailing(sub, alpha: Alphabet) -> Tuple[list, Lookahead]:
    items = list(sub)
    look = Lookahead()
    while items:
        op, av = items[-1]
        if op is sre_c.AT and av is sre_c.AT_BOUNDARY:
            look.boundary = True
            items.pop()
            continue
        if op is sre_c.AT and av in (sre_c.AT_END, sre_c.AT_END_STRING):
            look.allowed = frozenset({END}) if look.allowed is None else look.allowed & {END}
            items.pop()
            continue
        if op in (sre_c.ASSERT, sre_c.ASSERT_NOT):
            direction, p = av
            if direction != 1:
                raise AnalysisError("only trailing look-ahead assertions are supported")
            cls = _lookahead_symbols(p, alpha)
            everything = frozenset(range(alpha.n)) | {END}
            allowed = frozenset(cls) if op is sre_c.ASSERT else everything - cls
            look.allowed = allowed if look.allowed is None else look.allowed & allowed
            items.pop()
            continue
        break
    return items, look


def _lookahead_symbols(p, alpha: Alphabet) -> FrozenSet[int]:
    """Symbols (alphabet classes and/or END) a one-symbol look-ahead body matches: a character item,
    an end anchor, or an alternation of those (e.g. (?=[ ),]|$))."""
    items = _unwrap(list(p))
    if len(items) != 1:
        raise AnalysisError("only single-character look-ahead assertions are supported")
    iop, iav = items[0]
    if iop is sre_c.IN:
        return alpha.classes_matching((iop, tuple(_freeze(x) for x in iav)))
    if iop in (sre_c.LITERAL, sre_c.NOT_LITERAL):
        return alpha.classes_matching((iop, iav))
    if iop is sre_c.CATEGORY:
        return alpha.classes_matching((sre_c.IN, ((sre_c.CATEGORY, iav),)))
    if iop is sre_c.ANY:
        return alpha.classes_matching((iop, None))
    if iop is sre_c.AT and iav in (sre_c.AT_END, sre_c.AT_END_STRING):
        return frozenset({END})
    if iop is sre_c.BRANCH:
        out: Set[int] = set()
        for alt in iav[1]:
            out |= _lookahead_symbols(alt, alpha)
        return frozenset(out)
    raise AnalysisError("unsupported look-ahead content")


def _unwrap(items: list) -> list:
    while len(items) == 1 and items[0][0] is sre_c.SUBPATTERN and not (items[0][1][1] | items[0][1][2]):
        items = list(items[0][1][3])
    return items


def _compile_alternative(items: list, alpha: Alphabet, fv: Optional[int] = None) -> Tuple[DFA, Lookahead, bool]:
    body, look = _split_trailing(_unwrap(list(items)), alpha)
    for op, av in body:
        _reject_inner_assertions(op, av)
    b = Builder(alpha, fv)
    s, e = b.build(body)
    return nfa_to_dfa(b.nfa, s, {e}), look, b.lazy_seen


def compile_rule(pattern: str, flags: Sequence[str] | int, alpha: Alphabet) -> Rule:
    fv = flags if isinstance(flags, int) else flags_value(flags)
    sub = parse(pattern, fv)
    inner = _unwrap(list(sub))
    # a leading one-character look-behind: a condition on what stands before the token, not part of its text
    behind: Optional[FrozenSet[int]] = None
    behind_start = True
    inner = list(inner)
    while inner and inner[0][0] in (sre_c.ASSERT, sre_c.ASSERT_NOT) and inner[0][1][0] == -1:
        op0, (_, p0) = inner.pop(0)
        cls0 = frozenset(c for c in _lookahead_symbols(p0, alpha) if c != END)
        every = frozenset(range(alpha.n))
        allowed0 = cls0 if op0 is sre_c.ASSERT else every - cls0
        behind = allowed0 if behind is None else behind & allowed0
        if op0 is sre_c.ASSERT:
            behind_start = False
    # a trailing assertion shared by the whole rule
    body, outer_look = _split_trailing(inner, alpha)
    body = _unwrap(body) if len(body) == 1 else body
    alts: List[list]
    if len(body) == 1 and body[0][0] is sre_c.BRANCH:
        alts = [list(a) for a in body[0][1][1]]
    else:
        alts = [body]
    variants: List[Tuple[DFA, Lookahead]] = []
    lazy = False
    for a in alts:
        d, look, lz = _compile_alternative(a, alpha, fv)
        lazy = lazy or lz
        if outer_look.allowed is not None:
            look.allowed = outer_look.allowed if look.allowed is None else look.allowed & outer_look.allowed
        look.boundary = look.boundary or outer_look.boundary
        variants.append((d, look))
    union = variants[0][0]
    for d, _ in variants[1:]:
        union = product_dfa(union, d, lambda x, y: x or y)
    looks = {(v[1].allowed, v[1].boundary) for v in variants}
    look = variants[0][1] if len(looks) == 1 else Lookahead()
    return Rule(union, look, lazy, pattern, variants, behind, behind_start)


def _reject_inner_assertions(op, av):
    if op in (sre_c.ASSERT, sre_c.ASSERT_NOT, sre_c.AT, sre_c.GROUPREF, getattr(sre_c, "GROUPREF_EXISTS", None)):
        if op is sre_c.AT and av in (sre_c.AT_BEGINNING, sre_c.AT_BEGINNING_STRING):
            raise AnalysisError("anchors inside token rules are outside the supported subset")
        raise AnalysisError(f"regex construct {op} in the middle of a rule is outside the supported subset")
    if op is sre_c.BRANCH:
        for alt in av[1]:
            for o, a in alt:
                _reject_inner_assertions(o, a)
    elif op is sre_c.SUBPATTERN:
        for o, a in av[3]:
            _reject_inner_assertions(o, a)
    elif op in (sre_c.MAX_REPEAT, sre_c.MIN_REPEAT):
        for o, a in av[2]:
            _reject_inner_assertions(o, a)


def compile_dfa(pattern: str, flags: Sequence[str] | int, alpha: Alphabet) -> DFA:
    r = compile_rule(pattern, flags, alpha)
    if any(v[1].allowed is not None or v[1].boundary for v in r.variants):
        raise AnalysisError(f"pattern {pattern!r} has a trailing assertion; use compile_rule")
    return r.dfa


# ------------------------------------------------------------------------------------------------
# DFA operations
# ------------------------------------------------------------------------------------------------
def product_witness(a: DFA, b: DFA, want) -> Optional[List[int]]:
    """Shortest word w such that want(a accepts w, b accepts w)."""
    from collections import deque

    start = (a.start, b.start)
    prev: Dict[Tuple[int, int], Optional[Tuple[Tuple[int, int], int]]] = {start: None}
    q = deque([start])
    while q:
        st = q.popleft()
        if want(st[0] in a.accept, st[1] in b.accept):
            word = []
            cur = st
            while prev[cur] is not None:
                p, c = prev[cur]  # type: ignore
                word.append(c)
                cur = p
            return word[::-1]
        ra, rb = a.trans[st[0]], b.trans[st[1]]
        for c in range(a.nsyms):
            nx = (ra[c], rb[c])
            if nx not in prev:
                prev[nx] = (st, c)
                q.append(nx)
    return None


def difference_witness(a: DFA, b: DFA, alpha: Alphabet) -> Optional[str]:
    """A string accepted by a and not by b (None if L(a) is a subset of L(b))."""
    w = product_witness(a, b, lambda x, y: x and not y)
    return None if w is None else alpha.text(w)


def intersection_witness(a: DFA, b: DFA, alpha: Alphabet) -> Optional[str]:
    w = product_witness(a, b, lambda x, y: x and y)
    return None if w is None else alpha.text(w)


def live_states(d: DFA) -> Set[int]:
    """States from which an accepting state is reachable."""
    rev: Dict[int, Set[int]] = {}
    for s, row in enumerate(d.trans):
        for t in row:
            rev.setdefault(t, set()).add(s)
    live = set(d.accept)
    todo = list(live)
    while todo:
        t = todo.pop()
        for s in rev.get(t, ()):
            if s not in live:
                live.add(s)
                todo.append(s)
    return live


def prefix_dfa(d: DFA) -> DFA:
    return DFA(d.nsyms, d.trans, live_states(d), d.start)


def symbols_used(d: DFA) -> Set[int]:
    """Alphabet classes that occur in some accepted word."""
    live = live_states(d)
    reach = {d.start}
    todo = [d.start]
    used: Set[int] = set()
    while todo:
        s = todo.pop()
        for c, t in enumerate(d.trans[s]):
            if t in live and s in live:
                used.add(c)
                if t not in reach:
                    reach.add(t)
                    todo.append(t)
    return used


def last_symbols(d: DFA) -> Set[int]:
    """Alphabet classes an accepted word can end with."""
    fwd = {d.start}
    todo = [d.start]
    while todo:
        s0 = todo.pop()
        for t in d.trans[s0]:
            if t not in fwd:
                fwd.add(t)
                todo.append(t)
    return {c for s0 in fwd for c, t in enumerate(d.trans[s0]) if t in d.accept}


def first_symbols(d: DFA) -> Set[int]:
    live = live_states(d)
    return {c for c, t in enumerate(d.trans[d.start]) if t in live}


def accepts_text(d: DFA, alpha: Alphabet, text: str) -> Optional[bool]:
    s = d.start
    for ch in text:
        c = alpha.class_of.get(ch)
        if c is None:
            return None
        s = d.trans[s][c]
    return s in d.accept


def product_dfa(a: DFA, b: DFA, want) -> DFA:
    """Materialised product automaton accepting words w with want(a accepts w, b accepts w)."""
    index: Dict[Tuple[int, int], int] = {(a.start, b.start): 0}
    order = [(a.start, b.start)]
    trans: List[List[int]] = []
    i = 0
    while i < len(order):
        sa, sb = order[i]
        row = []
        for c in range(a.nsyms):
            nx = (a.trans[sa][c], b.trans[sb][c])
            j = index.get(nx)
            if j is None:
                j = index[nx] = len(order)
                order.append(nx)
            row.append(j)
        trans.append(row)
        i += 1
    accept = {i for i, (sa, sb) in enumerate(order) if want(sa in a.accept, sb in b.accept)}
    return DFA(a.nsyms, trans, accept, 0)


def state_classes(d: DFA) -> List[int]:
    """Moore partition refinement: state -> equivalence class id (same residual language)."""
    cls = [1 if s in d.accept else 0 for s in range(len(d.trans))]
    while True:
        sig: Dict[Tuple, int] = {}
        new = []
        for s in range(len(d.trans)):
            k = (cls[s],) + tuple(cls[t] for t in d.trans[s])
            if k not in sig:
                sig[k] = len(sig)
            new.append(sig[k])
        if len(set(new)) == len(set(cls)):
            return new
        cls = new


def shortest_accepted(d: DFA) -> Optional[List[int]]:
    from collections import deque
    prev: Dict[int, Optional[Tuple[int, int]]] = {d.start: None}
    q = deque([d.start])
    while q:
        s = q.popleft()
        if s in d.accept:
            w = []
            cur = s
            while prev[cur] is not None:
                p, c = prev[cur]  # type: ignore
                w.append(c)
                cur = p
            return w[::-1]
        for c, t in enumerate(d.trans[s]):
            if t not in prev:
                prev[t] = (s, c)
                q.append(t)
    return None


# ------------------------------------------------------------------------------------------------------------------
# exponential ambiguity (catastrophic backtracking): two different runs of the NFA over the same word from a state
# back to itself (EDA, Weber & Seidl 1991).  Runs are sequences of symbol *and* epsilon transitions, so `(a*)*`
# and `(a+)+` (same positions, different bracketing) count; epsilon cycles are not followed (the matcher refuses
# empty iterations).
# ------------------------------------------------------------------------------------------------------------------
def exponential_ambiguity(pattern: str, flags: Sequence[str] | int) -> Optional[str]:
    alpha = Alphabet.for_patterns([pattern], flags)
    sub = parse(pattern, flags_value(flags) if not isinstance(flags, int) else flags)
    items = _strip_assertions(list(sub))
    b = _PathBuilder(alpha)
    start, end = b.build(items)
    n = b.nfa
    # symbol-source states and epsilon-path multiplicities (capped at 2) between a state and the sources it can reach
    sources = [q for q in range(len(n.trans)) if n.trans[q]]

    def eps_paths(q0: int) -> Dict[int, int]:
        out: Dict[int, int] = {}
        stack = [(q0, frozenset([q0]))]
        steps = 0
        while stack:
            q, seen = stack.pop()
            steps += 1
            if steps > 200000:
                raise AnalysisError("epsilon structure of the token regex too large for the ambiguity analysis")
            if n.trans[q]:
                out[q] = min(2, out.get(q, 0) + 1)
            for r in n.eps[q]:
                if r not in seen:
                    stack.append((r, seen | {r}))
        return out

    reach_cache: Dict[int, Dict[int, int]] = {}
    # edges of the epsilon-free multigraph between sources: src -(syms, mult)-> src2
    edges: Dict[int, List[Tuple[FrozenSet[int], int, int]]] = {}
    for q in sources:
        lst = []
        for syms, r in n.trans[q]:
            if r not in reach_cache:
                reach_cache[r] = eps_paths(r)
            for r2, mult in reach_cache[r].items():
                lst.append((syms, r2, mult))
        edges[q] = lst
    init = eps_paths(start)
    reachable = set()
    todo = list(init)
    while todo:
        q = todo.pop()
        if q in reachable:
            continue
        reachable.add(q)
        todo.extend(r2 for _, r2, _ in edges.get(q, []))
    # product graph on reachable sources
    from collections import defaultdict
    padj: Dict[Tuple[int, int], List[Tuple[Tuple[int, int], bool]]] = defaultdict(list)
    nodes = set()
    work = [(q, q) for q in reachable]
    while work:
        pq = work.pop()
        if pq in nodes:
            continue
        nodes.add(pq)
        p, q = pq
        for i, (s1, p2, m1) in enumerate(edges.get(p, [])):
            for j, (s2, q2, m2) in enumerate(edges.get(q, [])):
                if not (s1 & s2):
                    continue
                if p == q and j < i:
                    continue
                divergent = False
                if p == q:
                    if i == j:
                        divergent = m1 >= 2  # two different epsilon routes after the same symbol transition
                    else:
                        divergent = True     # two different transitions of the same state on a common symbol
                tgt = (p2, q2) if p2 <= q2 else (q2, p2)
                padj[pq].append((tgt, divergent or p2 != q2 and p == q))
                if tgt not in nodes:
                    work.append(tgt)
    # Tarjan SCC (iterative)
    index: Dict[Tuple[int, int], int] = {}
    low: Dict[Tuple[int, int], int] = {}
    comp: Dict[Tuple[int, int], int] = {}
    onstack = set()
    st: List[Tuple[int, int]] = []
    counter = [0]
    ncomp = [0]
    for root in nodes:
        if root in index:
            continue
        call = [(root, 0)]
        while call:
            v, i = call.pop()
            if i == 0:
                index[v] = low[v] = counter[0]
                counter[0] += 1
                st.append(v)
                onstack.add(v)
            recurse = False
            adj = padj.get(v, [])
            while i < len(adj):
                w = adj[i][0]
                i += 1
                if w not in index:
                    call.append((v, i))
                    call.append((w, 0))
                    recurse = True
                    break
                if w in onstack:
                    low[v] = min(low[v], index[w])
            if recurse:
                continue
            if low[v] == index[v]:
                while True:
                    w = st.pop()
                    onstack.discard(w)
                    comp[w] = ncomp[0]
                    if w == v:
                        break
                ncomp[0] += 1
            if call:
                u = call[-1][0]
                low[u] = min(low[u], low[v])
    members: Dict[int, List[Tuple[int, int]]] = defaultdict(list)
    for v, c in comp.items():
        members[c].append(v)
    for c, vs in members.items():
        diag = [v for v in vs if v[0] == v[1]]
        if not diag:
            continue
        cyclic = len(vs) > 1 or any(w == v for v in vs for w, _ in padj.get(v, []))
        if not cyclic:
            continue
        off = any(v[0] != v[1] for v in vs)
        div = any(d and comp.get(w) == c for v in vs for w, d in padj.get(v, []))
        if off or div:
            q = diag[0][0]
            syms = sorted({s for s_, _, _ in edges.get(q, []) for s in s_})[:1]
            ch = alpha.text(syms) if syms else "?"
            return (f"two different ways to match the same text loop through the same point of the pattern (around a character like {ch!r}): "
                    "a failing match explores exponentially many of them")
    return None


class _PathBuilder(Builder):
    """Thompson construction in which an epsilon cycle exists only where a loop body can be traversed without
    consuming (an empty iteration): loops get no shared entry/exit node."""

    def item(self, op, av) -> Tuple[int, int]:
        if op in (sre_c.MAX_REPEAT, sre_c.MIN_REPEAT):
            lo, hi, p = av
            n = self.nfa
            a = n.new()
            cur = a
            for _ in range(lo):
                x, y = self.build(p)
                n.add_eps(cur, x)
                cur = y
            end = n.new()
            if hi == MAXREPEAT:
                x, y = self.build(p)
                n.add_eps(cur, x)    # enter the loop body
                n.add_eps(cur, end)  # or skip it
                n.add_eps(y, x)      # iterate again
                n.add_eps(y, end)    # or leave
                return a, end
            n.add_eps(cur, end)
            if hi - lo > 2000:
                raise AnalysisError("bounded repeat too large for the automaton construction")
            for _ in range(hi - lo):
                x, y = self.build(p)
                n.add_eps(cur, x)
                n.add_eps(y, end)
                cur = y
            return a, end
        if op is getattr(sre_c, "POSSESSIVE_REPEAT", None) or op is getattr(sre_c, "ATOMIC_GROUP", None):
            return super().item(op, av)
        return super().item(op, av)


def _strip_assertions(items: list) -> list:
    """Look-around assertions do not consume: for the ambiguity analysis they are dropped (over-approximation of the paths)."""
    out = []
    for op, av in items:
        if op in (sre_c.ASSERT, sre_c.ASSERT_NOT, sre_c.AT):
            continue
        if op is sre_c.SUBPATTERN:
            g, a, d, p = av
            out.append((op, (g, a, d, _strip_assertions(list(p)))))
        elif op is sre_c.BRANCH:
            out.append((op, (av[0], [_strip_assertions(list(alt)) for alt in av[1]])))
        elif op in (sre_c.MAX_REPEAT, sre_c.MIN_REPEAT):
            out.append((op, (av[0], av[1], _strip_assertions(list(av[2])))))
        else:
            out.append((op, av))
    return out
