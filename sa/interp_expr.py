"""Expression evaluation for the abstract interpreter (mixed into Interp)."""
from __future__ import annotations

import ast
from typing import Any, Dict, List, Optional, Tuple

from .icommon import PathAbort, _Raise, _Return, _describe
from .interp_calls import CallMixin
from .model import Module, NotConst, Ref, Regex
from .report import AnalysisError
from .values import (FALSE, NONE, TRUE, AbsList, AltV, BoundV, Const, FuncV, ListV, MapV, NewNode, NodeV, ObjV,
                     PSlice, PyDict, PyList, PyTuple, RefV, Str, Sym, TokV, V, lit, to_str_parts)

AST_PREFIX = "odata_query.ast."
VISITOR_BASE = "odata_query.visitor.NodeVisitor"

BUILTIN_NAMES = {
    "isinstance", "hasattr", "getattr", "setattr", "type", "len", "str", "int", "float", "bool", "any", "all",
    "list", "tuple", "dict", "set", "frozenset", "next", "iter", "reversed", "enumerate", "zip", "sorted",
    "range", "repr", "super", "print", "min", "max", "sum", "map", "filter", "callable", "id", "object",
    "issubclass", "vars", "abs", "round", "format", "ord", "chr", "hash", "property", "staticmethod", "classmethod",
}
BUILTIN_EXC = {
    "Exception", "BaseException", "ValueError", "TypeError", "KeyError", "IndexError", "AttributeError",
    "NotImplementedError", "RuntimeError", "LookupError", "ImportError", "StopIteration", "AssertionError",
    "ArithmeticError", "ZeroDivisionError", "OverflowError", "NameError", "OSError", "UnicodeError", "RecursionError",
    "MemoryError", "UnicodeDecodeError", "UnicodeEncodeError", "FloatingPointError", "EOFError", "TimeoutError",
}


def from_py(x: Any) -> V:
    if isinstance(x, Ref):
        return RefV(x.qual)
    if isinstance(x, Regex):
        return Sym("regex", x.pattern, x.flags)
    if isinstance(x, (str, int, float, bool)) or x is None:
        return Const(x)
    if isinstance(x, tuple):
        if all(isinstance(i, (str, int, float, bool)) or i is None for i in x):
            return Const(x)
        return PyTuple([from_py(i) for i in x])
    if isinstance(x, frozenset):
        if all(isinstance(i, (str, int, float, bool)) or i is None for i in x):
            return Const(x)
        return Sym("set", tuple(sorted((from_py(i) for i in x), key=repr)))
    if isinstance(x, list):
        return PyList([from_py(i) for i in x])
    if isinstance(x, dict):
        d = PyDict()
        for k, v in x.items():
            kk = dict_key(from_py(k))
            if kk is None:
                d.opaque_keys.append((from_py(k), from_py(v)))
            else:
                d.items[kk] = from_py(v)
        return d
    return Sym("pyobj", repr(x))


def dict_key(v: V) -> Optional[Tuple[str, Any]]:
    if isinstance(v, Const):
        try:
            hash(v.v)
        except TypeError:
            return None
        return ("c", v.v)
    if isinstance(v, RefV):
        return ("r", v.qual)
    if isinstance(v, Str) and v.is_const():
        return ("c", v.const())
    return None


def key_to_val(k: Tuple[str, Any]) -> V:
    return Const(k[1]) if k[0] == "c" else RefV(k[1])


def _prov(v) -> Any:
    import re as _re
    m = _re.match(r"^p\[(\d+)\]", getattr(v, "path", "") or "")
    return int(m.group(1)) if m else "?"


def _prov_list(v) -> list:
    if isinstance(v, AbsList):
        return list(v.order)
    if isinstance(v, ListV):
        return [_prov(v)]
    if isinstance(v, PyList):
        return [_prov(i) for i in v.items] + (["?"] if v.loop_parts else [])
    return ["?"]


class _Lazy:
    """Source text of an AST node, rendered only if a key/label is really needed."""
    __slots__ = ("node", "_s")

    def __init__(self, node):
        self.node = node
        self._s = None

    def __str__(self):
        if self._s is None:
            self._s = ast.unparse(self.node)
        return self._s

    __repr__ = __str__

    def __format__(self, spec):
        return str(self)


_INDIRECT = ("globals", "locals", "vars", "exec", "eval", "setattr", "__import__")


def _bindings(root: ast.AST, into_scopes: bool, skip: frozenset = frozenset()) -> Tuple[Dict[str, int], bool]:
    """Names bound by the statements under `root` (every binding form) with the first line that binds each; with
    into_scopes=False the bodies of nested functions and classes are skipped (only their names and `global` declarations
    count). Second result: the code can bind names indirectly."""
    bound: Dict[str, int] = {}
    indirect = False

    def add(name, n, line=None):
        ln = line if line is not None else getattr(n, "lineno", 0) or 0
        bound[name] = min(bound.get(name, ln), ln)

    todo = [(c, 0) for c in ast.iter_child_nodes(root)] if isinstance(root, ast.Module) else [(root, 0)]
    while todo:
        n, ln0 = todo.pop()
        ln0 = getattr(n, "lineno", ln0) or ln0
        scope = isinstance(n, (ast.FunctionDef, ast.AsyncFunctionDef, ast.ClassDef, ast.Lambda))
        if isinstance(n, ast.Name):
            if isinstance(n.ctx, (ast.Store, ast.Del)):
                if id(n) not in skip:
                    add(n.id, n)
            elif n.id in _INDIRECT:
                indirect = True
        elif isinstance(n, (ast.FunctionDef, ast.AsyncFunctionDef, ast.ClassDef)):
            add(n.name, n)
        elif isinstance(n, ast.arg):
            add(n.arg, n)
        elif isinstance(n, (ast.Import, ast.ImportFrom)):
            for a in n.names:
                if a.name == "*":
                    indirect = True
                add((a.asname or a.name).split(".")[0], n)
        elif isinstance(n, ast.ExceptHandler) and n.name:
            add(n.name, n)
        elif isinstance(n, (ast.Global, ast.Nonlocal)):
            for x in n.names:
                add(x, n, 0)  # declared to live in another scope: never "bound later in this one"
        elif isinstance(n, (ast.MatchAs, ast.MatchStar)) and n.name:
            add(n.name, n, ln0)
        elif isinstance(n, ast.MatchMapping) and n.rest:
            add(n.rest, n, ln0)
        elif type(n).__name__ in ("TypeVar", "ParamSpec", "TypeVarTuple"):
            add(n.name, n, ln0)
        if scope and not into_scopes:
            # the names a nested scope declares global are module bindings; whether it can bind indirectly still matters
            for m in ast.walk(n):
                if isinstance(m, ast.Global):
                    for x in m.names:
                        add(x, m, 0)
                elif isinstance(m, ast.Name) and m.id in _INDIRECT:
                    indirect = True
                elif isinstance(m, ast.ImportFrom) and any(a.name == "*" for a in m.names):
                    indirect = True
            continue
        todo.extend((c, ln0) for c in ast.iter_child_nodes(n))
    return bound, indirect


def _never_bound(name: str, module: Module, node) -> bool:
    """True when reading `name` at `node` is a NameError (or its subclass UnboundLocalError) on every execution:
      - Python has no builtin of that name, no statement at module level binds it (nor a `global` declaration anywhere), and the
        module has no indirect way of binding names; and
      - within the innermost function around the read (nested scopes included, over-approximating closures) every statement
        that binds the name lies on a later line, the read is not inside a loop of that function and not inside a lambda or a
        generator expression - so no binding can have run before the read."""
    import builtins
    line = getattr(node, "lineno", 0) if node is not None else 0
    if not line or hasattr(builtins, name) or name.startswith("__"):
        return False
    cache = module.__dict__.get("_bound_names")
    if cache is None:
        top, indirect = _bindings(module.tree, into_scopes=False)
        cache = module.__dict__["_bound_names"] = {"top": top, "indirect": indirect, "site": {}}
    if cache["indirect"] or name in cache["top"]:
        return False
    if line not in cache["site"]:
        def inside(x):
            return x.lineno <= line <= (x.end_lineno or x.lineno)
        acc: Optional[Dict[str, int]] = {}
        in_loop = False
        lazy = False
        own: frozenset = frozenset()
        body = module.tree.body
        func = None
        while True:
            st = next((x for x in body if inside(x)), None)
            if st is None:
                if func is None:
                    acc = None  # not inside a statement of the module as parsed: no claim
                break
            if isinstance(st, ast.ClassDef) and any(inside(x) for x in st.body):
                # a class body's own bindings are visible to reads in the body (not to its methods: over-approximated)
                for x in st.body:
                    for k, v in _bindings(x, into_scopes=False)[0].items():
                        acc[k] = 0
                body = st.body
                continue
            if isinstance(st, (ast.FunctionDef, ast.AsyncFunctionDef)) and any(inside(x) for x in st.body):
                # names of the enclosing functions stay candidates for a closure: kept as "bound before"
                if func is not None:
                    for k in _bindings(func, into_scopes=True)[0]:
                        acc[k] = 0
                func, in_loop = st, False
                body = st.body
                continue
            if func is None:
                for k in _bindings(st, into_scopes=True)[0]:
                    acc[k] = 0
                break
            # a compound statement of the function: descend into the block holding the read
            blocks = [getattr(st, f, None) for f in ("body", "orelse", "finalbody")]
            blocks += [h.body for h in getattr(st, "handlers", [])] + [c.body for c in getattr(st, "cases", [])]
            inner = next((b for b in blocks if isinstance(b, list) and b and isinstance(b[0], ast.stmt) and any(inside(x) for x in b)), None)
            if isinstance(st, (ast.For, ast.AsyncFor, ast.While)):
                in_loop = True
            if inner is None:
                lazy = any(isinstance(x, (ast.Lambda, ast.GeneratorExp, ast.FunctionDef, ast.AsyncFunctionDef, ast.ClassDef)) for x in ast.walk(st))
                if isinstance(st, (ast.Assign, ast.AnnAssign, ast.AugAssign)) and not any(isinstance(x, ast.NamedExpr) for x in ast.walk(st)):
                    # the statement's own targets are stored after its value (and, augmented, its target) has been read
                    tg = st.targets if isinstance(st, ast.Assign) else [st.target]
                    own = frozenset(id(x) for t in tg for x in ast.walk(t) if isinstance(x, ast.Name) and isinstance(x.ctx, ast.Store))
                break
            body = inner
        if acc is not None and func is not None:
            for k, v in _bindings(func, into_scopes=True, skip=own)[0].items():
                # bound on the read's own line or earlier, inside a loop, or read lazily: it may have run before the read
                acc[k] = min(acc.get(k, v), v if (v > line and not in_loop and not lazy) else 0)
        cache["site"][line] = (acc, line)
    acc, _ = cache["site"][line]
    return acc is not None and (name not in acc or acc[name] > line)


def is_strlike(v: V) -> bool:
    return isinstance(v, Str) or (isinstance(v, Const) and isinstance(v.v, str)) or \
        (isinstance(v, Sym) and v.hint == "str")


class ExprMixin(CallMixin):
    # ------------------------------------------------------------------------------------
    def eval(self, e: ast.expr, env: Dict[str, V], module: Module) -> V:
        m = getattr(self, "ev_" + type(e).__name__, None)
        if m is None:
            raise AnalysisError(f"expression {type(e).__name__} is outside the supported subset", module.loc(e))
        return m(e, env, module)

    def ev_Constant(self, e, env, module):
        return Const(e.value)

    def ev_Name(self, e: ast.Name, env, module):
        if e.id in env:
            return env[e.id]
        cl = env.get("__closure__")
        return self.lookup_global(e.id, module, e)

    def lookup_global(self, name: str, module: Module, node=None) -> V:
        if name in module.functions:
            return FuncV(module, module.functions[name])
        if name in module.classes:
            return RefV(f"{module.name}.{name}")
        if name in module.assigns and name in module.imports:
            # bound both by an import and by an assignment (optional-dependency guard): either may hold
            q = self.repo.canonical(module.imports[name])
            alts: List[V] = [self.ref_value(q)]
            for v in module.assigns[name]:
                try:
                    alts.append(self.eval(v, {}, module))
                except (AnalysisError, _Raise, PathAbort):
                    alts.append(Sym("global", f"{module.name}.{name}"))
            gk = f"{module.name}.{name}"
            if gk not in self.global_choice:
                # optional dependencies are present or absent together: one choice per module and path
                mk = f"optional-imports({module.name})"
                if mk not in self.global_choice:
                    self.global_choice[mk] = self.choose(2, mk)
                    self.cond(mk, "available" if self.global_choice[mk] == 0 else "missing")
                self.global_choice[gk] = 0 if self.global_choice[mk] == 0 else min(1, len(alts) - 1)
            return alts[self.global_choice[gk]]
        if name in module.assigns:
            vals = module.assigns[name]
            sk = f"{module.name}.{name}"
            if len(vals) == 1 and isinstance(vals[0], ast.Call) and isinstance(vals[0].func, ast.Name) and vals[0].func.id == "object" \
                    and not vals[0].args and not vals[0].keywords and "object" not in module.assigns and "object" not in module.imports:
                return Sym("sentinel", sk)
            if sk in self.shared_objs:
                return self.shared_objs[sk]
            try:
                val = from_py(self.repo.fold(module, ast.Name(id=name, ctx=ast.Load())))
                if isinstance(val, (PyDict, PyList)):
                    val.created_in = None
                    val.shared_name = sk
                    self.shared_objs[sk] = val
                return val
            except NotConst:
                pass
            if len(vals) == 1:
                try:
                    return self.eval(vals[0], {}, module)
                except (AnalysisError, _Raise, PathAbort):
                    return Sym("global", f"{module.name}.{name}")
            return Sym("global", f"{module.name}.{name}")
        if name in module.imports:
            q = self.repo.canonical(module.imports[name])
            return self.ref_value(q)
        if name == "__call_decorated__":
            return Sym("calldecorated")
        if name in BUILTIN_NAMES or name in BUILTIN_EXC:
            return RefV("builtins." + name)
        if name in ("True", "False", "None"):
            return Const({"True": True, "False": False, "None": None}[name])
        if name == "NotImplemented":
            return Sym("NotImplemented")
        if _never_bound(name, module, node):
            # no statement of the module binds the name in any scope and it is not a builtin: reading it is a NameError on
            # every execution (typically the assignment was lost and the uses were kept)
            self.cur_where = module.loc(node) if node is not None else module.rel
            self.may_raise("builtins.NameError", name, definite=True)
            raise _Raise(self.make_exc("builtins.NameError"), self.cur_where)
        raise AnalysisError(f"unresolved name {name}", module.loc(node) if node is not None else module.rel)

    def ref_value(self, q: str) -> V:
        """Value of a dotted reference: in-repo functions/constants are materialised."""
        parts = q.rsplit(".", 1)
        if len(parts) == 2 and parts[0] in self.repo.modules:
            mod = self.repo.modules[parts[0]]
            n = parts[1]
            if n in mod.functions:
                return FuncV(mod, mod.functions[n])
            if n in mod.classes:
                return RefV(q)
            if n in mod.assigns or n in mod.imports:
                return self.lookup_global(n, mod)
        ext = self.repo.external_const(q)
        if ext is not NotConst:
            return from_py(ext)
        return RefV(q)

    def ev_Attribute(self, e: ast.Attribute, env, module):
        base = self.eval(e.value, env, module)
        self.cur_where = module.loc(e)
        return self.getattr_v(base, e.attr, module, e)

    def ev_JoinedStr(self, e: ast.JoinedStr, env, module):
        parts = []
        for v in e.values:
            if isinstance(v, ast.Constant):
                parts.append(("lit", str(v.value)))
            else:
                val = self.resolve_alt(self.eval(v.value, env, module))
                tr = ()
                if v.conversion == ord("r"):
                    tr = (("repr",),)
                if v.format_spec is not None:
                    tr = tr + (("format", ast.unparse(v.format_spec)),)
                if isinstance(val, (NodeV, NewNode)):
                    self.event("node_in_string", node=_describe(val))
                self._node_text_hooks(val, v.conversion, module)
                parts.extend(to_str_parts(val, tr))
        s = Str(parts)
        return Const(s.const()) if s.is_const() else s

    def _node_text_hooks(self, val, conversion, module):
        """Formatting an AST node - or a SLY token, whose repr() is the repr() of its value - runs the node class's own __repr__ / __str__ /
        __format__ when it defines one: whatever that raises is raised by the formatting expression."""
        via_token = isinstance(val, TokV)
        node = val.attrs.get("value") if via_token else val
        if not isinstance(node, NodeV):
            return
        names = ["__repr__"] if (via_token or conversion == ord("r")) else ["__format__", "__str__", "__repr__"]
        for k in sorted(node.kinds):
            for nm in names:
                r = self.repo.lookup_method("odata_query.ast." + k, nm)
                if r is None:
                    continue
                ci, fn = r
                args = [NodeV(node.path, {k})] + ([Const("")] if nm == "__format__" else [])
                self.call_function(ci.module, fn, args, {}, ci.qual)
                break

    def ev_Tuple(self, e, env, module):
        return PyTuple(self.eval_seq(e.elts, env, module))

    def ev_List(self, e, env, module):
        if any(isinstance(x, ast.Starred) for x in e.elts):
            # [*a, x, *b]: concatenation, left to right, so that abstract parts keep their position
            acc: Optional[V] = None
            run: List[V] = []

            def flush():
                nonlocal acc, run
                if run or acc is None:
                    piece = PyList(list(run))
                    piece.created_in = self._frame_id()  # type: ignore[attr-defined]
                    acc = piece if acc is None else self.binop(ast.Add(), acc, piece, module, e)
                    run = []

            abstract = False
            for x in e.elts:
                if isinstance(x, ast.Starred):
                    v = self.resolve_alt(self.eval(x.value, env, module))
                    items = self.concrete_items(v)
                    if items is not None:
                        run.extend(items)
                    elif isinstance(v, (AbsList, ListV, MapV)) or (isinstance(v, PyList) and v.loop_parts):
                        abstract = True
                        if run or acc is not None:
                            flush()
                            acc = self.binop(ast.Add(), acc, v, module, e)
                        else:
                            acc = self.join_lists(v, PyList([])) if isinstance(v, (AbsList, ListV)) else self.binop(ast.Add(), PyList([]), v, module, e)
                    else:
                        run.append(Sym("star", v))
                else:
                    run.append(self.eval(x, env, module))
            if abstract:
                flush()
                return acc
            l = PyList(run)
            l.created_in = self._frame_id()
            l._loop_depth = len(self.loop_ctx)  # type: ignore[attr-defined]  # made inside the loops running now: appends there are items
            return l
        l = PyList(self.eval_seq(e.elts, env, module))
        l.created_in = self._frame_id()
        l._loop_depth = len(self.loop_ctx)  # type: ignore[attr-defined]
        return l

    def ev_Set(self, e, env, module):
        return Sym("set", tuple(self.eval_seq(e.elts, env, module)))

    def eval_seq(self, elts, env, module) -> List[V]:
        out: List[V] = []
        for x in elts:
            if isinstance(x, ast.Starred):
                v = self.resolve_alt(self.eval(x.value, env, module))
                if isinstance(v, NodeV) and not v.kinds:
                    raise PathAbort()
                items = self.concrete_items(v)
                if items is None:
                    out.append(Sym("star", v))
                else:
                    out.extend(items)
            else:
                out.append(self.eval(x, env, module))
        return out

    def force_lazy(self, g: V):
        """A generator expression over a generator object that nobody has consumed yet: evaluate it now, to the end."""
        lz = getattr(g, "_lazy", None)
        if lz is None:
            return
        g._lazy = None  # type: ignore[attr-defined]
        e, env, module, src = lz
        gen = e.generators[0]
        loc = dict(env)
        while src._pos < len(src.items):
            item = src.items[src._pos]
            src._pos += 1
            self.assign(gen.target, item, loc, module)
            if all(self.truthy(self.eval(c, loc, module), c) for c in gen.ifs):
                g.items.append(self.eval(e.elt, loc, module))

    def lazy_any_all(self, name: str, g: V) -> Optional[V]:
        """any()/all() over such a lazy generator expression: stops at the first deciding element, leaving the rest of the source"""
        lz = getattr(g, "_lazy", None)
        if lz is None:
            return None
        e, env, module, src = lz
        gen = e.generators[0]
        loc = dict(env)
        while src._pos < len(src.items):
            item = src.items[src._pos]
            src._pos += 1
            self.assign(gen.target, item, loc, module)
            if not all(self.truthy(self.eval(c, loc, module), c) for c in gen.ifs):
                continue
            t = self.truthy(self.eval(e.elt, loc, module), name)
            if name == "any" and t:
                return TRUE
            if name == "all" and not t:
                return FALSE
        g._lazy = None  # type: ignore[attr-defined]
        return Const(name == "all")

    def concrete_items(self, v: V) -> Optional[List[V]]:
        if isinstance(v, PyList) and getattr(v, "_lazy", None) is not None:
            self.force_lazy(v)
        if isinstance(v, PyList) and getattr(v, "_gen", False) and not v.loop_parts and getattr(v, "_pos", 0):
            return list(v.items[v._pos:])  # what a partly consumed generator still holds
        if isinstance(v, (PyTuple,)):
            return list(v.items)
        if isinstance(v, PyList) and not v.loop_parts:
            return list(v.items)
        if isinstance(v, Const) and isinstance(v.v, (tuple, list)):
            return [Const(x) for x in v.v]
        return None

    def ev_Dict(self, e: ast.Dict, env, module):
        d = PyDict()
        d.created_in = self._frame_id()  # type: ignore[attr-defined]
        for k, v in zip(e.keys, e.values):
            if k is None:
                src = self.resolve_alt(self.eval(v, env, module))
                if isinstance(src, PyDict):
                    d.items.update(src.items)
                    d.opaque_keys.extend(src.opaque_keys)
                else:
                    d.opaque_keys.append((Sym("dictunpack"), src))
                continue
            kv = self.eval(k, env, module)
            vv = self.eval(v, env, module)
            kk = dict_key(kv)
            if kk is None:
                d.opaque_keys.append((kv, vv))
            else:
                d.items[kk] = vv
        return d

    def ev_IfExp(self, e: ast.IfExp, env, module):
        if self.truthy(self.eval(e.test, env, module), e.test):
            return self.eval(e.body, env, module)
        return self.eval(e.orelse, env, module)

    def ev_BoolOp(self, e: ast.BoolOp, env, module):
        v: V = NONE
        for i, x in enumerate(e.values):
            v = self.eval(x, env, module)
            if i == len(e.values) - 1:
                return v
            t = self.truthy(v, x)
            if isinstance(e.op, ast.And) and not t:
                return v
            if isinstance(e.op, ast.Or) and t:
                return v
        return v

    def ev_UnaryOp(self, e: ast.UnaryOp, env, module):
        v = self.resolve_alt(self.eval(e.operand, env, module))
        if isinstance(e.op, ast.Not):
            return Const(not self.truthy(v, e.operand))
        if isinstance(v, Const) and isinstance(v.v, (int, float)):
            if isinstance(e.op, ast.USub):
                return Const(-v.v)
            if isinstance(e.op, ast.UAdd):
                return Const(+v.v)
            if isinstance(e.op, ast.Invert) and isinstance(v.v, int):
                return Const(~v.v)
        return Sym("unop", type(e.op).__name__, v)

    def ev_BinOp(self, e: ast.BinOp, env, module):
        l = self.eval(e.left, env, module)
        r = self.eval(e.right, env, module)
        self.cur_where = module.loc(e)
        return self.binop(e.op, l, r, module, e)

    def binop(self, op, l: V, r: V, module, node) -> V:
        l = self.resolve_alt(l)
        r = self.resolve_alt(r)
        if isinstance(op, ast.Add):
            if isinstance(l, Const) and isinstance(r, Const):
                try:
                    return Const(l.v + r.v)
                except Exception:
                    self.may_raise("builtins.TypeError", "+", definite=True)
                    raise _Raise(self.make_exc("builtins.TypeError"), self.cur_where)
            if is_strlike(l) or is_strlike(r):
                for side in (l, r):
                    if isinstance(side, (NodeV, NewNode)) or (isinstance(side, Const) and side.v is None) or self._is_tuple_field(side):
                        self.event("bad_concat", value=_describe(side))
                        self.may_raise("builtins.TypeError", "str + non-str", definite=True)
                        raise _Raise(self.make_exc("builtins.TypeError"), self.cur_where)
                s = Str(to_str_parts(l) + to_str_parts(r))
                return Const(s.const()) if s.is_const() else s
            if isinstance(l, (PyList,)) and isinstance(r, (PyList, AbsList, ListV, MapV)):
                n = PyList(list(l.items))
                n.loop_parts = list(l.loop_parts)
                n.created_in = self._frame_id()
                out = self.list_extend(n, r, fresh=True)
                return out
            if isinstance(l, (AbsList, ListV)) and isinstance(r, (PyList, AbsList, ListV)):
                return self.join_lists(l, r)
            if isinstance(l, PyTuple) and isinstance(r, PyTuple):
                return PyTuple(l.items + r.items)
            if isinstance(l, PyTuple) and isinstance(r, Const) and isinstance(r.v, tuple):
                return PyTuple(l.items + [Const(x) for x in r.v])
            if isinstance(r, PyTuple) and isinstance(l, Const) and isinstance(l.v, tuple):
                return PyTuple([Const(x) for x in l.v] + r.items)
            return Sym("binop", "+", l, r)
        if isinstance(op, ast.BitAnd) and isinstance(l, Sym) and l.op == "set" and isinstance(r, Sym) and r.op == "set":
            return Sym("setand", l, r)
        if isinstance(op, ast.Mult):
            # sequence repetition with a constant count
            for a, b in ((l, r), (r, l)):
                if isinstance(b, Const) and isinstance(b.v, int) and not isinstance(b.v, bool) and 0 <= b.v <= 64:
                    if isinstance(a, PyTuple):
                        return PyTuple(list(a.items) * b.v)
                    if isinstance(a, PyList) and not a.loop_parts:
                        n = PyList(list(a.items) * b.v)
                        n.created_in = self._frame_id()  # type: ignore[attr-defined]
                        return n
        if isinstance(op, ast.Mod) and (is_strlike(l)):
            return self.percent_format(l, r)
        if isinstance(l, Const) and isinstance(r, Const):
            try:
                f = {ast.Sub: lambda a, b: a - b, ast.Mult: lambda a, b: a * b, ast.Div: lambda a, b: a / b,
                     ast.FloorDiv: lambda a, b: a // b, ast.Mod: lambda a, b: a % b, ast.Pow: lambda a, b: a ** b,
                     ast.BitOr: lambda a, b: a | b, ast.BitAnd: lambda a, b: a & b}.get(type(op))
                if f:
                    return Const(f(l.v, r.v))
            except Exception:
                self.may_raise("builtins.ArithmeticError", type(op).__name__)
        if isinstance(op, ast.Mult) and isinstance(l, PyList) and isinstance(r, Const) and isinstance(r.v, int):
            return PyList(l.items * r.v)
        if isinstance(op, (ast.Sub, ast.Div, ast.FloorDiv, ast.Pow, ast.BitOr, ast.BitAnd, ast.BitXor, ast.LShift, ast.RShift, ast.MatMult)):
            # str defines none of these operators (nor their reflections): with text on one side and a value whose class is
            # known not to define them on the other, the operation is a TypeError on every execution
            def text(v):
                return isinstance(v, Str) or (isinstance(v, Const) and isinstance(v.v, str))

            def plain(v):
                return text(v) or isinstance(v, (NodeV, NewNode, PyList, PyTuple, PyDict, Const)) or \
                    (isinstance(v, Sym) and v.op == "visit" and v.args[0] == "self" and getattr(self, "visit_returns_text", False))
            if (text(l) and plain(r)) or (text(r) and plain(l)):
                self.may_raise("builtins.TypeError", f"str {type(op).__name__} {_describe(r)}", definite=True)
                raise _Raise(self.make_exc("builtins.TypeError"), self.cur_where)
        sym = {ast.Sub: "-", ast.Mult: "*", ast.Div: "/", ast.Mod: "%", ast.FloorDiv: "//", ast.Pow: "**",
               ast.BitOr: "|", ast.BitAnd: "&", ast.BitXor: "^", ast.LShift: "<<", ast.RShift: ">>",
               ast.MatMult: "@"}.get(type(op), type(op).__name__)
        return Sym("binop", sym, l, r)

    def _is_tuple_field(self, v: V) -> bool:
        """a scalar field of a node that the schema declares as a tuple (Identifier.namespace) on every kind the node can have"""
        if not (isinstance(v, Sym) and v.op == "field" and len(v.args) >= 2 and isinstance(v.args[0], NodeV) and v.args[0].kinds):
            return False
        shapes = set()
        for k in v.args[0].kinds:
            nc = self.schema.classes.get(k)
            fi = nc.field(v.args[1]) if nc else None
            shapes.add(fi.shape if fi else None)
        return shapes == {"tuple_scalar"}

    def percent_format(self, fmt: V, arg: V) -> V:
        if not (isinstance(fmt, Const) and isinstance(fmt.v, str)):
            return Sym("binop", "%", fmt, arg)
        items = self.concrete_items(arg) if not isinstance(arg, PyDict) else None
        if items is None:
            items = [arg]
        pieces = fmt.v.split("%s")
        if fmt.v.replace("%s", "").count("%") != 0 or len(pieces) - 1 != len(items):
            return Sym("binop", "%", fmt, arg)
        parts: list = []
        for i, p in enumerate(pieces):
            parts.append(("lit", p))
            if i < len(items):
                parts.extend(to_str_parts(items[i], (("str",),)))
        s = Str(parts)
        return Const(s.const()) if s.is_const() else s

    # ------------------------------------------------------------------------------------
    # lists
    # ------------------------------------------------------------------------------------
    def list_append(self, lst: V, item: V):
        if isinstance(lst, PyList):
            if self.loop_ctx and lst.created_in is not None and getattr(lst, "_loop_depth", 0) < len(self.loop_ctx):
                over = self.loop_ctx[-1]
                if len(getattr(self, "_round_tags", ())) == len(self.loop_ctx):
                    metas = lst.__dict__.setdefault("_part_meta", {})
                    meta = metas.setdefault(id(over), {"hits": 0, "tags": {}, "seq": {}})
                    meta["hits"] += 1
                    meta["tags"].setdefault(repr(item), set()).add(self._round_tags[-1])
                    meta["seq"].setdefault(self._round_tags[-1], []).append(item)  # what each round appended, in order
                for i, (o, per) in enumerate(lst.loop_parts):
                    if o is over:
                        if not any(repr(item) == repr(x) for x in per):
                            per.append(item)
                        return
                if not lst.loop_parts:
                    lst._tail_start = len(lst.items)  # type: ignore[attr-defined]  # items appended from now on come after the loop's
                lst.loop_parts.append((over, [item]))
            else:
                lst.items.append(item)
        elif isinstance(lst, AbsList):
            lst.elem = self.join_vals(lst.elem, item)
            lst.minlen += 0 if self.loop_ctx else 1
            lst.order.append("?" if self.loop_ctx else _prov(item))

    def list_extend(self, lst: V, other: V, fresh: bool = False) -> V:
        other = self.resolve_alt(other)
        items = self.concrete_items(other)
        if isinstance(lst, PyList):
            if items is not None and not self.loop_ctx:
                lst.items.extend(items)
                return lst
            if items is not None:
                for it in items:
                    self.list_append(lst, it)
                return lst
            if isinstance(other, (AbsList, ListV, MapV)):
                lst.loop_parts.append((other, [other.elem]))
                lst._minextra = getattr(lst, "_minextra", 0) + getattr(other, "minlen", 0)  # type: ignore
                return lst
            if isinstance(other, PyList):
                lst.items.extend(other.items)
                lst.loop_parts.extend(other.loop_parts)
                return lst
            lst.loop_parts.append((other, [Sym("elemof", other)]))
            return lst
        if isinstance(lst, AbsList):
            if items is not None:
                for it in items:
                    lst.elem = self.join_vals(lst.elem, it)
                    lst.order.append("?" if self.loop_ctx else _prov(it))
                if not self.loop_ctx:
                    lst.minlen += len(items)
            elif isinstance(other, (AbsList, ListV, MapV)):
                lst.elem = self.join_vals(lst.elem, other.elem)
                lst.order.extend(["?"] if self.loop_ctx else _prov_list(other))
                if not self.loop_ctx:
                    lst.minlen += getattr(other, "minlen", 0)
            return lst
        return lst

    def list_minlen(self, v: V) -> int:
        if isinstance(v, PyList):
            return len(v.items) + getattr(v, "_minextra", 0)
        if isinstance(v, (AbsList, ListV)):
            if isinstance(v, ListV) and v.len_eq is not None:
                return v.len_eq
            extra = 1 if isinstance(v, ListV) and 0 in v.len_neq and v.minlen == 0 else 0
            return v.minlen + extra
        if isinstance(v, PyTuple):
            return len(v.items)
        if isinstance(v, MapV):
            return self.list_minlen(v.over)
        return 0

    def join_lists(self, a: V, b: V) -> V:
        ea = getattr(a, "elem", None)
        items = self.concrete_items(b)
        if items is not None:
            e = ea
            for it in items:
                e = self.join_vals(e, it)
            return AbsList(e, self.list_minlen(a) + len(items), _prov_list(a) + [_prov(it) for it in items])
        return AbsList(self.join_vals(ea, getattr(b, "elem", None)), self.list_minlen(a) + self.list_minlen(b),
                       _prov_list(a) + _prov_list(b))

    def join_vals(self, a: Optional[V], b: Optional[V]) -> V:
        if a is None:
            return b  # type: ignore
        if b is None:
            return a
        if repr(a) == repr(b):
            return a
        if isinstance(a, NodeV) and isinstance(b, NodeV):
            n = NodeV(a.path if a.path == b.path else f"({a.path}|{b.path})", a.kinds | b.kinds)
            return n
        opts = (a.options if isinstance(a, AltV) else [a]) + (b.options if isinstance(b, AltV) else [b])
        uniq: List[V] = []
        for o in opts:
            if not any(repr(o) == repr(u) for u in uniq):
                uniq.append(o)
        return uniq[0] if len(uniq) == 1 else AltV(uniq)

    # ------------------------------------------------------------------------------------
    # comprehensions
    # ------------------------------------------------------------------------------------
    def ev_ListComp(self, e, env, module):
        return self.comprehension(e, env, module)

    def ev_GeneratorExp(self, e, env, module):
        return self.comprehension(e, env, module)

    def ev_SetComp(self, e, env, module):
        return self.comprehension(e, env, module)

    def _nested_comprehension(self, e, env, module) -> V:
        """several `for` clauses: every iterable must be concrete"""
        out: List[V] = []

        def level(i: int, loc):
            if i == len(e.generators):
                out.append(self.eval(e.elt, loc, module))
                return
            g = e.generators[i]
            it = self.resolve_alt(self.eval(g.iter, loc, module))
            items = self.concrete_items(it)
            if items is None and isinstance(it, Sym) and it.op == "set":
                items = list(it.args[0])
            if items is None and isinstance(it, Const) and isinstance(it.v, str):
                items = [Const(ch) for ch in it.v]
            if items is None:
                raise AnalysisError("nested comprehension over a non-constant iterable unsupported", module.loc(e))
            for item in items:
                inner = loc  # one scope for all iterations (late binding of closures)
                self.assign(g.target, item, inner, module)
                if all(self.truthy(self.eval(c, inner, module), c) for c in g.ifs):
                    level(i + 1, inner)

        level(0, dict(env))
        r = PyList(out)
        r.created_in = self._frame_id()  # type: ignore[attr-defined]
        return r

    def ev_DictComp(self, e: ast.DictComp, env, module):
        d = PyDict()
        d.created_in = self._frame_id()  # type: ignore[attr-defined]

        def level(i: int, loc):
            if i == len(e.generators):
                k = self.eval(e.key, loc, module)
                v = self.eval(e.value, loc, module)
                kk = dict_key(k)
                if kk is None or self.loop_ctx:
                    if not any(repr(k) == repr(k2) and repr(v) == repr(v2) for k2, v2 in d.opaque_keys):
                        d.opaque_keys.append((k, v))
                else:
                    d.items[kk] = v
                return
            g = e.generators[i]
            it = self.resolve_alt(self.eval(g.iter, loc, module))

            def body(item):
                inner = loc  # the comprehension has one scope: a closure created in it sees the bindings of the last iteration
                self.assign(g.target, item, inner, module)
                for c in g.ifs:
                    if not self.truthy(self.eval(c, inner, module), c):
                        return
                level(i + 1, inner)

            self.iterate(it, body, module, e)

        level(0, dict(env))
        return d

    def comprehension(self, e, env, module) -> V:
        if len(e.generators) != 1:
            return self._nested_comprehension(e, env, module)
        g = e.generators[0]
        it = self.resolve_alt(self.eval(g.iter, env, module))
        if isinstance(e, ast.GeneratorExp) and isinstance(it, PyList) and getattr(it, "_gen", False) and not it.loop_parts \
                and getattr(it, "_lazy", None) is None:
            # a generator expression over a generator object pulls from it only when asked: any()/all() may stop early
            lazy = PyList([])
            lazy.created_in = self._frame_id()
            lazy._gen = True   # type: ignore[attr-defined]
            lazy._pos = 0      # type: ignore[attr-defined]
            lazy._lazy = (e, dict(env), module, it)  # type: ignore[attr-defined]
            return lazy
        items = self.concrete_items(it)
        if items is None and isinstance(it, PyDict):
            items = [key_to_val(k) for k in it.items]
        if items is None and isinstance(it, Const) and isinstance(it.v, str):
            items = [Const(ch) for ch in it.v]
        if items is None and isinstance(it, Str) and it.is_const():
            items = [Const(ch) for ch in it.const()]
        if items is not None:
            out: List[V] = []
            loc = dict(env)  # one scope for the whole comprehension, as in Python: closures made in it see the last binding
            for item in items:
                self.assign(g.target, item, loc, module)
                if all(self.truthy(self.eval(c, loc, module), c) for c in g.ifs):
                    out.append(self.eval(e.elt, loc, module))
            l = PyList(out)
            l.created_in = self._frame_id()
            return l
        if isinstance(it, PyList) and it.loop_parts:
            # known items followed by per-iteration parts of earlier loops: the comprehension keeps that structure
            res = PyList([])
            res.created_in = self._frame_id()
            res._loop_depth = len(self.loop_ctx)  # type: ignore[attr-defined]
            for item in it.items:
                loc = dict(env)
                self.assign(g.target, item, loc, module)
                if all(self.truthy(self.eval(c, loc, module), c) for c in g.ifs):
                    res.items.append(self.eval(e.elt, loc, module))
            for over, per in it.loop_parts:
                kept: List[V] = []
                self.loop_ctx.append(over)
                try:
                    for item in per:
                        loc = dict(env)
                        self.assign(g.target, item, loc, module)
                        if all(self.truthy(self.eval(c, loc, module), c) for c in g.ifs):
                            mapped = self.eval(e.elt, loc, module)
                            if not any(repr(mapped) == repr(x) for x in kept):
                                kept.append(mapped)
                finally:
                    self.loop_ctx.pop()
                if kept:
                    res.loop_parts.append((over, kept))
            return res
        if isinstance(it, (ListV, AbsList, MapV)):
            elem = it.elem
        else:
            elem = Sym("elemof", it)
            self.event("iterate_opaque", value=_describe(it), where=module.loc(e))
        loc = dict(env)
        self.assign(g.target, elem, loc, module)
        self.loop_ctx.append(it)
        try:
            filtered = False
            for c in g.ifs:
                n_choices = len(self.trace)
                keep = self.truthy(self.eval(c, loc, module), c)
                if len(self.trace) != n_choices or not keep:
                    filtered = True  # a test that every element passes for sure (no choice was needed) filters nothing
                if not keep:
                    l = PyList([])
                    l.created_in = self._frame_id()
                    return l
            over_text = isinstance(it, Str) or (isinstance(it, Sym) and getattr(it, "hint", None) == "str")
            charmap = self._charmap_idiom(e, g, loc, module) if over_text and not g.ifs else None
            if charmap is not None:
                ev = Sym("charmap", elem, tuple(charmap))
            else:
                n_tr, n_cd = len(self.trace), len(self.conds)
                ev = self.eval(e.elt, loc, module)
                if over_text and len(self.trace) != n_tr and any(repr(elem) in str(k) for k, _ in self.conds[n_cd:]):
                    # a branch taken per character of a text the analysis does not enumerate: one path would stand for "every character
                    # took this branch", which is wrong for mixed texts - no verdict rather than a verdict about a different program
                    raise AnalysisError("a comprehension over the characters of a text branches on the character in a way the evaluator "
                                        f"does not model: `{ast.unparse(e.elt)[:80]}`", module.loc(e))
        finally:
            self.loop_ctx.pop()
        m = MapV(it, ev, ast.unparse(g.target))
        m.filtered = filtered  # type: ignore[attr-defined]
        if charmap is not None:
            m._charmap = charmap  # type: ignore[attr-defined]
        return m

    def _charmap_idiom(self, e, g, loc, module):
        """`c * 2 if c in CHARS else c` (or the mirrored `not in` form) for the loop variable c and a constant set of single characters:
        the comprehension doubles exactly those characters.  Returns the characters, or None."""
        t = g.target
        elt = e.elt
        if not (isinstance(t, ast.Name) and isinstance(elt, ast.IfExp) and isinstance(elt.test, ast.Compare) and len(elt.test.ops) == 1
                and isinstance(elt.test.left, ast.Name) and elt.test.left.id == t.id):
            return None
        op = elt.test.ops[0]
        if isinstance(op, ast.In):
            dbl, same = elt.body, elt.orelse
        elif isinstance(op, ast.NotIn):
            dbl, same = elt.orelse, elt.body
        else:
            return None

        def is_var(x):
            return isinstance(x, ast.Name) and x.id == t.id
        doubled = (isinstance(dbl, ast.BinOp) and isinstance(dbl.op, ast.Mult) and (
            (is_var(dbl.left) and isinstance(dbl.right, ast.Constant) and dbl.right.value == 2 and type(dbl.right.value) is int) or
            (is_var(dbl.right) and isinstance(dbl.left, ast.Constant) and dbl.left.value == 2 and type(dbl.left.value) is int))) or \
            (isinstance(dbl, ast.BinOp) and isinstance(dbl.op, ast.Add) and is_var(dbl.left) and is_var(dbl.right))
        if not doubled or not is_var(same):
            return None
        n_tr = len(self.trace)
        cont = self.eval(elt.test.comparators[0], loc, module)
        if len(self.trace) != n_tr:
            return None
        if isinstance(cont, Const) and isinstance(cont.v, str):
            chars = list(cont.v)
        else:
            items = cont.args[0] if isinstance(cont, Sym) and cont.op == "set" else self.concrete_items(cont)
            if items is None or not all(isinstance(x, Const) and isinstance(x.v, str) and len(x.v) == 1 for x in items):
                return None
            chars = [x.v for x in items]
        if not chars:
            return None
        return sorted(set(chars), key=lambda c: (c != "'", c))

    def ev_Lambda(self, e: ast.Lambda, env, module):
        return FuncV(module, e, closure=env)

    def ev_NamedExpr(self, e: ast.NamedExpr, env, module):
        v = self.eval(e.value, env, module)
        env[e.target.id] = v
        return v

    def ev_Starred(self, e, env, module):
        return Sym("star", self.eval(e.value, env, module))

    def ev_Slice(self, e: ast.Slice, env, module):
        lo = self.eval(e.lower, env, module) if e.lower else NONE
        hi = self.eval(e.upper, env, module) if e.upper else NONE
        st = self.eval(e.step, env, module) if e.step else NONE
        return Sym("slice", lo, hi, st)

    def ev_Yield(self, e, env, module):
        v = self.eval(e.value, env, module) if e.value else NONE
        if "__cm_body__" in env:
            # the single yield of a @contextmanager generator: the body of the `with` statement runs here
            cb = env.pop("__cm_body__")
            cb(v)
            return NONE
        self.list_append(env["__yield__"], v)
        return NONE

    def ev_YieldFrom(self, e, env, module):
        v = self.eval(e.value, env, module)
        self.list_extend(env["__yield__"], v)
        return NONE

    def ev_Await(self, e, env, module):
        return self.eval(e.value, env, module)

    # ------------------------------------------------------------------------------------
    # subscripts
    # ------------------------------------------------------------------------------------
    def ev_Subscript(self, e: ast.Subscript, env, module):
        base = self.resolve_alt(self.eval(e.value, env, module))
        idx = self.resolve_alt(self.eval(e.slice, env, module))
        self.cur_where = module.loc(e)
        return self.getitem(base, idx, module, e)

    def getitem(self, base: V, idx: V, module, node) -> V:
        if isinstance(base, PSlice):
            if isinstance(idx, Const) and isinstance(idx.v, int):
                n = len(base.values)
                if idx.v < 0:
                    self.event("p_negative_index", production=str(base.production), index=idx.v)
                    return Sym("parser_stack", idx.v)
                if idx.v >= n:
                    self.event("p_index_out_of_range", production=str(base.production), index=idx.v, length=n)
                    self.may_raise("builtins.IndexError", f"p[{idx.v}]", definite=True)
                    raise _Raise(self.make_exc("builtins.IndexError"), self.cur_where)
                self.event("p_read", index=idx.v)
                return base.values[idx.v]
            self.event("p_dynamic_index", production=str(base.production))
            return Sym("p_dyn", idx)
        if isinstance(idx, Sym) and idx.op == "slice":
            lo, hi, st = idx.args
            # x[a : len(x) - k]  ==  x[a : -k]  for k > 0
            if isinstance(hi, Sym) and hi.op == "binop" and hi.args[0] == "-" and isinstance(hi.args[2], Const) and isinstance(hi.args[2].v, int) \
                    and hi.args[2].v > 0 and isinstance(hi.args[1], Sym) and hi.args[1].op == "len" and repr(hi.args[1].args[0]) == repr(base):
                hi = Const(-hi.args[2].v)
                idx = Sym("slice", lo, hi, st)
            if isinstance(base, Const) and isinstance(base.v, (str, tuple)) and all(isinstance(x, Const) for x in idx.args):
                return Const(base.v[slice(lo.v, hi.v, st.v)])
            if all(isinstance(x, Const) for x in idx.args) and lo.v is None and hi.v is None and st.v == -1:
                rvw = self.reversed_view(base)
                if rvw is not None:
                    rvw.created_in = self._frame_id()  # type: ignore[attr-defined]  # a slice is a new list
                    return rvw
            if isinstance(base, (PyList, PyTuple)) and not getattr(base, "loop_parts", None) and all(isinstance(x, Const) for x in idx.args):
                items = base.items[slice(lo.v, hi.v, st.v)]
                return PyList(items) if isinstance(base, PyList) else PyTuple(items)
            if isinstance(base, (AbsList, ListV)) and all(isinstance(x, Const) and (x.v is None or isinstance(x.v, int)) for x in idx.args) \
                    and st.v in (None, 1):
                # xs[a:b] of a list of unknown length: the same kind of elements, fewer of them; a new list
                drop = (abs(lo.v) if lo.v else 0) if (lo.v or 0) >= 0 else 0
                drop += abs(hi.v) if (hi.v is not None and hi.v < 0) else 0
                keep_all = hi.v is None or hi.v < 0
                part = AbsList(base.elem, max(0, self.list_minlen(base) - drop) if keep_all and (lo.v or 0) >= 0 else 0)
                part.created_in = self._frame_id()  # type: ignore[attr-defined]
                return part
            if is_strlike(base) or (isinstance(base, Sym) and base.hint == "str"):
                sl = tuple(x.v if isinstance(x, Const) else repr(x) for x in idx.args)
                s = Str(to_str_parts(base, (("slice",) + sl,)))
                return s
            return Sym("getslice", base, idx)
        if isinstance(base, (PyList, PyTuple)) and isinstance(idx, Const) and isinstance(idx.v, int):
            if not getattr(base, "loop_parts", None):
                n = len(base.items)
                if -n <= idx.v < n:
                    return base.items[idx.v]
                self.event("index_out_of_range", value=_describe(base), index=idx.v, length=n)
                self.may_raise("builtins.IndexError", f"[{idx.v}]", definite=True)
                raise _Raise(self.make_exc("builtins.IndexError"), self.cur_where)
            if 0 <= idx.v < len(base.items):
                return base.items[idx.v]
            return Sym("item", base, idx.v)
        if isinstance(base, Const) and isinstance(base.v, (tuple, str, list)) and isinstance(idx, Const) and isinstance(idx.v, int):
            try:
                return Const(base.v[idx.v])
            except IndexError:
                self.may_raise("builtins.IndexError", f"[{idx.v}]", definite=True)
                raise _Raise(self.make_exc("builtins.IndexError"), self.cur_where)
        if isinstance(base, (ListV, AbsList, MapV)) and isinstance(idx, Const) and isinstance(idx.v, int):
            need = idx.v + 1 if idx.v >= 0 else -idx.v
            have = self.list_minlen(base)
            if have < need:
                self.event("index_maybe_out_of_range", value=_describe(base), index=idx.v, minlen=have)
                self.may_raise("builtins.IndexError", f"{_describe(base)}[{idx.v}]")
            if isinstance(base, ListV) and isinstance(base.elem, NodeV):
                key = f"[{idx.v}]"
                cache = base.__dict__.setdefault("_items", {})
                if key not in cache:
                    cache[key] = NodeV(f"{base.path}[{idx.v}]", base.elem.kinds, base.owner, via=base.attr)
                return cache[key]
            return base.elem
        if isinstance(base, PyDict):
            kk = dict_key(idx)
            if kk is not None:
                if kk in base.items:
                    return base.items[kk]
                if not base.opaque_keys:
                    self.may_raise("builtins.KeyError", f"[{idx!r}]", definite=True)
                    raise _Raise(self.make_exc("builtins.KeyError"), self.cur_where)
                self.may_raise("builtins.KeyError", f"[{idx!r}]")
                return Sym("item", base, idx)
            hit = self._same_opaque_key(base, idx)
            if hit is not None:
                return hit
            return self.dict_lookup_opaque(base, idx, None, subscript=True)
        if isinstance(base, RefV) or (isinstance(base, Sym) and base.op in ("attr",) and not isinstance(idx, Const)):
            # typing-style subscripts (List[int]) and table lookups on external objects
            self.may_raise("builtins.KeyError", f"{_describe(base)}[{_describe(idx)}]")
            return Sym("item", base, idx)
        if isinstance(base, Const) and isinstance(base.v, dict):
            return self.getitem(from_py(base.v), idx, module, node)
        self.may_raise("builtins.KeyError", f"{_describe(base)}[{_describe(idx)}]")
        return Sym("item", base, idx)

    def _same_opaque_key(self, d: PyDict, key: V) -> Optional[V]:
        """A symbolic key stored earlier on this path and looked up again with the very same term."""
        if not d.opaque_keys:
            return None
        try:
            r = repr(key)
        except Exception:
            return None
        for k, v in reversed(d.opaque_keys):
            if repr(k) == r:
                return v
        return None

    def dict_lookup_opaque(self, d: PyDict, key: V, default: Optional[V], subscript: bool = False) -> V:
        """Lookup with a non-constant key: partition what the key can be by the lookup result."""
        if isinstance(key, Sym) and key.op == "typeof" and isinstance(key.args[0], NodeV):
            node: NodeV = key.args[0]
            groups: Dict[str, Tuple[Optional[V], List[str]]] = {}
            for k in sorted(node.kinds):
                hit = d.items.get(("r", AST_PREFIX + k))
                sig = "miss" if hit is None else repr(hit)
                groups.setdefault(sig, (hit, []))[1].append(k)
            sigs = sorted(groups)
            g = sigs[self.choose(len(sigs), f"lookup({node.path})")]
            hit, ks = groups[g]
            if len(sigs) > 1:
                node.kinds = set(ks)
                self.cond(f"type({node.path}) in", tuple(ks))
            if hit is None:
                if subscript:
                    self.may_raise("builtins.KeyError", f"[type({node.path})]", definite=True)
                    raise _Raise(self.make_exc("builtins.KeyError"), self.cur_where)
                return default if default is not None else NONE
            return hit
        # opaque string key against constant string keys: equal to one of them, or to none
        ckeys = [k for k in d.items if k[0] == "c"]
        if ckeys and (is_strlike(key) or isinstance(key, Sym)):
            for k in ckeys:
                if self.sym_compare_eq(key, k[1]):
                    return d.items[k]
            if subscript:
                self.may_raise("builtins.KeyError", f"[{_describe(key)}]", definite=True)
                raise _Raise(self.make_exc("builtins.KeyError"), self.cur_where)
            return default if default is not None else NONE
        if subscript:
            self.may_raise("builtins.KeyError", f"[{_describe(key)}]")
        return Sym("item", d, key)

    # ------------------------------------------------------------------------------------
    # comparisons
    # ------------------------------------------------------------------------------------
    def ev_Compare(self, e: ast.Compare, env, module):
        left = self.eval(e.left, env, module)
        result = True
        for op, rhs_e in zip(e.ops, e.comparators):
            right = self.eval(rhs_e, env, module)
            self.cur_where = module.loc(e)
            r = self.compare(op, left, right, _Lazy(e))
            if not r:
                return FALSE
            left = right
        return TRUE

    def compare(self, op, l: V, r: V, text: str) -> bool:
        l = self.resolve_alt(l)
        r = self.resolve_alt(r)
        if isinstance(op, (ast.Is, ast.Eq)):
            return self.equal(l, r, isinstance(op, ast.Is), text)
        if isinstance(op, (ast.IsNot, ast.NotEq)):
            return not self.equal(l, r, isinstance(op, ast.IsNot), text)
        if isinstance(op, (ast.In, ast.NotIn)):
            res = self.contains(r, l, text)
            return res if isinstance(op, ast.In) else not res
        # subset / superset of sets whose elements are all known
        def known_set(x):
            if isinstance(x, Sym) and x.op == "set" and x.args and isinstance(x.args[0], tuple) and \
                    not any(isinstance(y, Sym) and y.op in ("elemof", "star") for y in x.args[0]):
                return {repr(self.resolve_alt(y)) for y in x.args[0]}
            if isinstance(x, Const) and isinstance(x.v, (frozenset, set)):
                return {repr(Const(y)) for y in x.v}
            return None
        ls, rs = known_set(l), known_set(r)
        if ls is not None and rs is not None and not any("call(" in e or "prop(" in e for e in ls | rs):
            return {ast.Lt: ls < rs, ast.LtE: ls <= rs, ast.Gt: ls > rs, ast.GtE: ls >= rs}[type(op)]
        # ordering
        if isinstance(l, Const) and isinstance(r, Const):
            try:
                return {ast.Lt: l.v < r.v, ast.LtE: l.v <= r.v, ast.Gt: l.v > r.v, ast.GtE: l.v >= r.v}[type(op)]
            except Exception:
                self.may_raise("builtins.TypeError", "ordering", definite=True)
                raise _Raise(self.make_exc("builtins.TypeError"), self.cur_where)
        # len(list) against a constant
        for a, b, flip in ((l, r, False), (r, l, True)):
            if isinstance(a, Sym) and a.op == "len" and isinstance(b, Const) and isinstance(b.v, int):
                lo = self.list_minlen(a.args[0])
                exact = a.args[0].len_eq if isinstance(a.args[0], ListV) else None
                o = type(op)
                if flip:
                    o = {ast.Lt: ast.Gt, ast.Gt: ast.Lt, ast.LtE: ast.GtE, ast.GtE: ast.LtE}[o]
                if exact is not None:
                    return {ast.Lt: exact < b.v, ast.LtE: exact <= b.v, ast.Gt: exact > b.v, ast.GtE: exact >= b.v}[o]
                if o is ast.GtE and lo >= b.v:
                    return True
                if o is ast.Gt and lo > b.v:
                    return True
                if o is ast.Lt and lo >= b.v:
                    return False
                if o is ast.LtE and lo > b.v:
                    return False
        return self.unknown_bool(f"cmp({text})")

    def equal(self, l: V, r: V, identity: bool, text: str) -> bool:
        l = self.enum_member_of(l) or l
        r = self.enum_member_of(r) or r
        # None tests
        for a, b in ((l, r), (r, l)):
            if isinstance(b, Const) and b.v is None:
                if isinstance(a, Const):
                    return a.v is None
                if isinstance(a, NodeV):
                    if "NoneType" not in a.kinds:
                        return False
                    if a.kinds == {"NoneType"}:
                        return True
                    isnone = self.choose(2, f"none({a.path})") == 1
                    self.cond(f"{a.path} is None", isnone)
                    if isnone:
                        a.kinds = {"NoneType"}
                    else:
                        a.kinds.discard("NoneType")
                    return isnone
                if isinstance(a, (NewNode, PyList, PyTuple, PyDict, Str, ObjV, RefV, BoundV, FuncV, ListV, AbsList, MapV)):
                    return False
                if isinstance(a, Sym) and a.op in ("typeof", "visit", "exc", "fieldobj", "len"):
                    return False
                return self.unknown_bool(f"isnone({_describe(a)})")
        # a module-level sentinel (NAME = object()) is identical/equal only to itself; it reaches other values only as
        # an explicit default, never as the content of a table or the result of a translation
        for a, b in ((l, r), (r, l)):
            if isinstance(a, Sym) and a.op == "sentinel":
                if isinstance(b, Sym) and b.op == "sentinel":
                    return a.args[0] == b.args[0]
                return False
        if isinstance(l, Const) and isinstance(r, Const):
            if identity and not (isinstance(l.v, (bool, type(None))) or isinstance(r.v, (bool, type(None)))):
                return l.v == r.v and type(l.v) is type(r.v)
            return l.v == r.v
        if isinstance(l, RefV) and isinstance(r, RefV):
            return l.qual == r.qual
        # enum members are singletons: the same member is the same object wherever (and by whichever evaluation) it was obtained
        for a, b in ((l, r), (r, l)):
            if isinstance(a, ObjV) and str(a.label).startswith("enum:"):
                if isinstance(b, ObjV) and str(b.label).startswith("enum:"):
                    return a.label == b.label and a.cls == b.cls
                if isinstance(b, (Const, RefV, NewNode, NodeV, PyList, PyTuple, PyDict, Str)) and identity:
                    return False
        # type(node) against a class
        for a, b in ((l, r), (r, l)):
            if isinstance(a, Sym) and a.op == "typeof" and isinstance(a.args[0], NodeV):
                node: NodeV = a.args[0]
                if isinstance(b, RefV):
                    kind = b.qual[len(AST_PREFIX):] if b.qual.startswith(AST_PREFIX) else None
                    if kind is None or kind not in node.kinds:
                        return False
                    if node.kinds == {kind}:
                        return True
                    yes = self.choose(2, f"type({node.path})=={kind}") == 0
                    self.cond(f"type({node.path})=={kind}", yes)
                    if yes:
                        node.kinds = {kind}
                    else:
                        node.kinds.discard(kind)
                    return yes
                if isinstance(b, Sym) and b.op == "typeof" and isinstance(b.args[0], NodeV):
                    self.force_single(node)
                    self.force_single(b.args[0])
                    return node.kinds == b.args[0].kinds
                if isinstance(b, Const):
                    return False
        # nodes
        if isinstance(l, (NodeV, NewNode)) and isinstance(r, (NodeV, NewNode)):
            return self.nodes_equal(l, r, text)
        if isinstance(l, (NodeV, NewNode)) and isinstance(r, Const) or isinstance(r, (NodeV, NewNode)) and isinstance(l, Const):
            return False
        # opaque string against constant
        for a, b in ((l, r), (r, l)):
            if isinstance(b, Const) and isinstance(b.v, (str, int, float, bool, tuple)):
                if isinstance(a, Str) and not a.is_const() and isinstance(b.v, str):
                    lits = "".join(p[1] for p in a.parts if p[0] == "lit")
                    if any(ch not in b.v for ch in lits) and len(lits) > len(b.v):
                        return False
                    return self.sym_compare_eq(a, b.v)
                if isinstance(a, Sym):
                    if a.op == "len" and isinstance(b.v, int):
                        return self.len_equal(a.args[0], b.v)
                    return self.sym_compare_eq(a, b.v)
                if isinstance(a, (PyList, PyTuple, PyDict, ObjV, RefV, NewNode)):
                    if isinstance(a, PyTuple) and isinstance(b.v, tuple) and all(isinstance(i, Const) for i in a.items):
                        return tuple(i.v for i in a.items) == b.v
                    return False
        if isinstance(l, PyTuple) and isinstance(r, PyTuple):
            if len(l.items) != len(r.items):
                return False
            return all(self.equal(a, b, identity, text) for a, b in zip(l.items, r.items))
        if l is r:
            return True
        if repr(l) == repr(r) and isinstance(l, Sym):
            return True
        return self.unknown_bool(f"eq({_describe(l)},{_describe(r)})")

    def len_equal(self, lst: V, n: int) -> bool:
        if isinstance(lst, ListV):
            if lst.len_eq is not None:
                return lst.len_eq == n
            if n < lst.minlen or n in lst.len_neq:
                return False
            yes = self.choose(2, f"len({lst.path})=={n}") == 0
            self.cond(f"len({lst.path})=={n}", yes)
            if yes:
                lst.len_eq = n
            else:
                lst.len_neq.add(n)
            return yes
        if isinstance(lst, AbsList) and n < lst.minlen:
            return False
        return self.unknown_bool(f"len({_describe(lst)})=={n}")

    def force_single(self, node: NodeV):
        if len(node.kinds) > 1:
            ks = sorted(node.kinds)
            k = ks[self.choose(len(ks), f"kind({node.path})")]
            node.kinds = {k}
            self.cond(f"type({node.path})==", k)

    def nodes_equal(self, l, r, text: str) -> bool:
        def kinds(x):
            return {x.cls} if isinstance(x, NewNode) else set(x.kinds)

        kl, kr = kinds(l), kinds(r)
        if not (kl & kr):
            return False
        fieldless = all(not self.schema.classes[k].fields for k in (kl | kr) if k in self.schema.classes)
        if fieldless and "NoneType" not in (kl | kr):
            if isinstance(l, NodeV):
                self.force_single(l)
            if isinstance(r, NodeV):
                self.force_single(r)
            return kinds(l) == kinds(r)
        key = f"eq({_describe(l)},{_describe(r)})"
        res = self.unknown_bool(key)
        if res:
            # equal nodes have equal kinds
            common = kl & kr
            if isinstance(l, NodeV):
                l.kinds &= common
            if isinstance(r, NodeV):
                r.kinds &= common
        return res

    def contains(self, container: V, item: V, text: str) -> bool:
        container = self.resolve_alt(container)
        if isinstance(container, ObjV):
            r = self.repo.lookup_method(container.cls, "__contains__")
            if r is not None:
                return self.truthy(self.call_function(r[0].module, r[1], [container, item], {}, r[0].qual), "__contains__")
        if isinstance(container, Const) and isinstance(container.v, (tuple, frozenset, list, str, dict)):
            if isinstance(item, Const):
                try:
                    return item.v in container.v
                except TypeError:
                    return False
            if isinstance(container.v, str):
                return self.unknown_bool(f"in({text})")
            for c in (sorted(container.v, key=repr) if isinstance(container.v, frozenset) else container.v):
                if self.equal(item, Const(c), False, text):
                    return True
            return False
        if isinstance(container, (PyTuple, PyList)) and not getattr(container, "loop_parts", None):
            for c in container.items:
                if self.equal(item, c, False, text):
                    return True
            return False
        if isinstance(container, Sym) and container.op == "set" and container.args and isinstance(container.args[0], tuple) and \
                not any(isinstance(x, Sym) and x.op in ("elemof", "star") for x in container.args[0]):
            for c in container.args[0]:
                if self.equal(item, c, False, text):
                    return True
            return False
        if isinstance(container, PyDict):
            kk = dict_key(item)
            if kk is None and self._same_opaque_key(container, item) is not None:
                return True
            if getattr(container, "shared_name", None) and kk is None:
                # a container shared between calls: what earlier calls stored is unknown; the miss path is analysed and
                # the cache-key rule (heval.cache_findings) is what makes the hit path equivalent to it
                self.event("shared_miss_assumed", target=container.shared_name)
            if kk is not None and not container.opaque_keys:
                return kk in container.items
            if kk is not None and kk in container.items:
                return True
            if isinstance(item, Sym) and item.op == "typeof" and isinstance(item.args[0], NodeV) and not container.opaque_keys:
                r = self.dict_lookup_opaque(PyDict({k: TRUE for k in container.items}), item, FALSE)
                return isinstance(r, Const) and r.v is True
            if not container.opaque_keys and (is_strlike(item) or isinstance(item, Sym)):
                for k in container.items:
                    if k[0] == "c" and self.sym_compare_eq(item, k[1]):
                        return True
                return False
        return self.unknown_bool(f"in({_describe(item)},{_describe(container)})")
