"""C04 - navigation paths and any/all lambdas mean what OData says on the ORM back ends (structural clauses)."""
from __future__ import annotations

import ast
import importlib.util
import os
from typing import Any, Dict, List, Optional, Set, Tuple

from .. import heval, termrules as T
from ..report import AnalysisError, Ctx
from ..values import NodeV, ObjV, Sym

EXPLANATION = (
    "Decides the structural clauses of the property. (1) parser shape (Core F): a/b/c is a left-nested Attribute and a "
    "lambda's owner is the complete path - the field kinds of the parser's image are checked. (2) quantifier polarity and "
    "duality on both ORMs: the term each branch of visit_CollectionLambda builds is normalised with a meaning table "
    "(Exists(q) and rel.any(c) are 'exists', q.filter(c) is conjunction, ~x is negation; a keyword argument only counts if "
    "the *installed* library's constructor declares it - the signature of django Exists/Subquery.__init__ is read from "
    "Django's source, so a `negated=True` swallowed by **kwargs contributes nothing) and compared with: any(p) = exists "
    "child: p; any() = exists child; all(p) = not exists child: not p. (3) the lambda body is made relative to the lambda "
    "variable before it is handed to a sub-visitor built on the related model. (4) relationships needed by to-one paths are "
    "joined with OUTER joins. (5) Django path spelling: owner__leaf, reversed step list for the correlation."
)
RULE_TEXT = "one obligation per (back end, operator, with/without lambda) branch, per join call, per parser-shape fact"

DJ = "odata_query.django.django_q.AstToDjangoQVisitor"
ORM = "odata_query.sqlalchemy.orm.AstToSqlAlchemyOrmVisitor"
STRIPPER = "odata_query.rewrite.IdentifierStripper"


def _installed_init_params(module: str, cls: str) -> Optional[Tuple[List[str], bool, List[str]]]:
    """(named parameters of cls.__init__ (following single inheritance inside the module), has **kwargs, chain)"""
    spec = importlib.util.find_spec(module)
    if spec is None or not spec.origin:
        return None
    tree = ast.parse(open(spec.origin, encoding="utf-8").read())
    classes = {n.name: n for n in tree.body if isinstance(n, ast.ClassDef)}
    names: List[str] = []
    chain: List[str] = []
    cur = cls
    for _ in range(6):
        c = classes.get(cur)
        if c is None:
            break
        chain.append(cur)
        init = next((b for b in c.body if isinstance(b, ast.FunctionDef) and b.name == "__init__"), None)
        if init is not None:
            a = init.args
            names += [x.arg for x in a.args[1:] + a.kwonlyargs]
            if a.kwarg is None:
                return names, False, chain
            # **kwargs forwarded to the base class?
            forwards = any(isinstance(n, ast.Call) and any(k.arg is None for k in n.keywords) and "super" in ast.unparse(n.func)
                           for n in ast.walk(init))
            if not forwards:
                return names, True, chain
        base = c.bases[0] if c.bases else None
        cur = base.id if isinstance(base, ast.Name) else (base.attr if isinstance(base, ast.Attribute) else None)
        if cur is None:
            break
    return names, True, chain


class Logic:
    """Normalise an ORM term into ('exists', body) / ('not', x) / ('and', a, b) / ('base',) / ('p',)"""

    def __init__(self, ctx: Ctx, exists_has_negated: bool):
        self.exists_has_negated = exists_has_negated

    def conv(self, t) -> Any:
        if isinstance(t, tuple) and t:
            if t[0] == "unop" and t[1] in ("Invert", "~", "Not"):
                return self.neg(self.conv(t[2]))
            if t[0] == "call":
                f = t[1]
                kw = dict(t[3]) if len(t) > 3 else {}
                if f[0] == "ref" and T.short(f[1]) in ("Exists",):
                    inner = self.conv(t[2][0]) if t[2] else ("base",)
                    r = ("exists", inner)
                    if kw.get("negated") == ("const", True) and self.exists_has_negated:
                        r = self.neg(r)
                    return r
                if f[0] == "ref" and T.short(f[1]) in ("not_",):
                    return self.neg(self.conv(t[2][0]))
                if f[0] == "attr" and f[2] == "filter":
                    base = self.conv(f[1])
                    cond = self.conv(t[2][0]) if t[2] else ("true",)
                    if cond == ("corr",):
                        return base
                    return ("and", base, cond)
                if f[0] == "attr" and f[2] in ("any", "has"):
                    arg = t[2][0] if t[2] else ("const", None)
                    if arg == ("const", None):
                        return ("exists", ("base",))
                    return ("exists", ("and", ("base",), self.conv(arg)))
                if f[0] == "ref" and T.short(f[1]) == "Q":
                    return ("corr",)
                if f[0] == "attr" and f[2] in ("order_by", "values", "distinct"):
                    return self.conv(f[1])
            if t[0] == "visit" and "lambda_" in str(t[1]):
                return ("p",)
            if t[0] == "stubcall" or t[0] == "sym":
                return ("base",)
            if t[0] == "attr":
                if t[2] == "objects":
                    return ("base",)
                return self.conv(t[1]) if isinstance(t[1], tuple) else ("base",)
            if t[0] in ("cfg", "visit", "obj", "ref", "name"):
                return ("base",)
        return ("?", repr(t)[:60])

    @staticmethod
    def neg(x):
        if isinstance(x, tuple) and x and x[0] == "not":
            return x[1]
        return ("not", x)


SPEC = {
    ("Any", True): ("exists", ("and", ("base",), ("p",))),
    ("Any", False): ("exists", ("base",)),
    ("All", True): ("not", ("exists", ("and", ("base",), ("not", ("p",))))),
}


def _fmt(x) -> str:
    if x[0] == "exists":
        return f"EXISTS child [{_fmt(x[1])}]"
    if x[0] == "not":
        return f"NOT ({_fmt(x[1])})"
    if x[0] == "and":
        return f"{_fmt(x[1])} AND {_fmt(x[2])}"
    return {"base": "related-to-parent", "p": "p(child)", "true": "true"}.get(x[0], str(x))


def run(ctx: Ctx, env):
    repo, kf = env.repo, env.kindflow
    H = heval.get(env)

    # ---- (1) parser shape ---------------------------------------------------------------------------------------------
    a_owner = kf.kinds.desc("Attribute", None, "owner")
    a_attr = kf.kinds.desc("Attribute", None, "attr")
    l_owner = kf.kinds.desc("CollectionLambda", None, "owner")
    gm = repo.modules["odata_query.grammar"]
    ctx.check(a_owner is not None and set(a_owner.kinds) == {"Identifier", "Attribute"}, "R1.paths-left-nested", "Attribute.owner",
              f"the parser can put {sorted(a_owner.kinds) if a_owner else None} into Attribute.owner; a/b/c must be Attribute(Attribute(a, b), c)", gm.rel, "a/b/c eq 1")
    ctx.check(a_attr is not None and a_attr.shape == "scalar" and a_attr.pytype == "str", "R1.paths-left-nested", "Attribute.attr",
              f"Attribute.attr can hold {a_attr}; it must be the last path segment as a string (a nested Attribute means the path is right-nested)",
              gm.rel, "a/b/c eq 1")
    ctx.check(l_owner is not None and set(l_owner.kinds) <= {"Identifier", "Attribute"} and "Attribute" in l_owner.kinds, "R1.lambda-owner-is-full-path",
              "CollectionLambda.owner", f"CollectionLambda.owner can be {sorted(l_owner.kinds) if l_owner else None}; it must be the complete path to the collection",
              gm.rel, "a/b/any(x: x/c eq 1)")
    for p in env.grammar.productions:
        for x in kf.prod_paths.get(p.index, []):
            for ev in x.events:
                if ev.kind == "attr_missing" and ("navigation" in " ".join(p.syms) or "path" in p.name):
                    ctx.fail("R1.path-actions-total", f"{p.name}|{ev.data.get('attr')}", f"path production `{p}` reads .{ev.data.get('attr')} on a value that can be "
                             f"{ev.data.get('kinds')}", ev.where, "a/b/c/any()")

    # a path has any number of segments: a node built from a fixed number of reads of single fields cannot hold them all. Every
    # Attribute / CollectionLambda owner an action builds from a path that may itself be an Attribute must contain a part that stands
    # for arbitrarily many segments - elements of a list built by walking the path, or an embedded sub-path
    from ..values import AbsList as _AL, ListV as _LV, MapV as _MV, NewNode as _NN, PyList as _PL
    import re as _re

    def unbounded(v, depth=0) -> bool:
        if isinstance(v, _NN):
            return any(unbounded(f, depth + 1) for f in v.fields.values())
        if isinstance(v, NodeV):
            return "Attribute" in v.kinds or "[*]" in _re.sub(r"__descent_\d+\[\*\]", "", v.path)
        if isinstance(v, (_AL, _LV, _MV)):
            return True
        if isinstance(v, _PL):
            return bool(v.loop_parts)
        r = _re.sub(r"__descent_\d+\[\*\]", "", repr(v))  # the node a descent loop stops at is one node, not many
        return "[*]" in r or "wlitem" in r or "elemof" in r or "iterated" in r or "annotated(" in r
    n_owner = 0
    for p in env.grammar.productions:
        if not ("path" in p.name or "navigation" in " ".join(p.syms)):
            continue
        for x in kf.prod_paths.get(p.index, []):
            if x.outcome != "return" or not isinstance(x.value, _NN) or x.value.cls not in ("Attribute", "CollectionLambda"):
                continue
            # does this path of the action start from a sub-path of unknown depth?
            deep_in = any(k.startswith("isinstance(") and "Attribute" in k and v is True for k, v in x.conds)
            if not deep_in:
                continue
            n_owner += 1
            own = x.value.fields.get("owner")
            ctx.check(unbounded(own), "R1.path-keeps-every-segment", f"{p.name}|{x.value.cls}|{x.cond_str()[:60]}",
                      f"`{p}` builds the owner `{own!r:.160}` from a fixed number of single fields although the path it starts from can be arbitrarily "
                      "long: segments in the middle are lost", gm.loc(p.func), "a/b/c/d/any(x: x/e eq 1)")
    ctx.analysed["path-building action paths"] = n_owner

    # ---- (2)(3) quantifiers ------------------------------------------------------------------------------------------------
    ex = _installed_init_params("django.db.models.expressions", "Exists")
    if ex is None:
        raise AnalysisError("cannot read django.db.models.expressions.Exists from the installed Django")
    names, has_kwargs, chain = ex
    exists_has_negated = "negated" in names
    ctx.analysed["django.Exists.__init__ parameters"] = names
    ctx.analysed["django.Exists.__init__ chain"] = chain
    for vcls, label in ((DJ, "django"), (ORM, "sqlalchemy-orm")):
        r = repo.lookup_method(vcls, "visit_CollectionLambda")
        if r is None:
            ctx.fail("R2.quantifier-semantics", f"{label}|handler", f"{H.short(vcls)} has no visit_CollectionLambda", "")
            continue
        hci, fn = r
        interp = env.interp(opaque_funcs=(env.func_q("odata_query.django.utils", "reverse_relationship"),))
        interp.stub_methods = lambda name: name in ("_attempt_keywordify", "_gen_annotation_name")

        def setup(it, hci=hci, fn=fn, vcls=vcls):
            node = NodeV("node", {"CollectionLambda"})
            it._cur_args = [node]
            return hci.module, fn, [ObjV(vcls, {}, "self"), node], {}, hci.qual

        paths = interp.explore(setup)
        from .common import check_shared_caches
        check_shared_caches(ctx, paths, "R6.no-state-shared-between-visitors",
                            "a lambda on another model (or a nested sub-visitor) is correlated with the wrong relationship",
                            "Author: comments/any()  then  BlogPost: comments/any()", label)
        logic = Logic(ctx, exists_has_negated)
        seen_cases: Set[Tuple[str, bool]] = set()
        for p in paths:
            if p.outcome != "return":
                continue
            node = p.entry["args"][0]
            opn = node.fields.get("operator")
            lam = node.fields.get("lambda_")
            ops = set(opn.kinds) if isinstance(opn, NodeV) else set()
            has_lambda = not (isinstance(lam, NodeV) and lam.kinds == {"NoneType"})
            if len(ops) != 1:
                # a branch that does not distinguish the operator: both must be right, check each
                pass
            t = T.norm(p.value)
            got = logic.conv(t)
            if label == "django":
                # the subquery over the related model is tied to the outer row through the reversed path = OuterRef('pk'): Django resolves
                # only the alias `pk` (lower case) to the parent's primary key, whatever it is called
                rt = repr(t)
                n_ref = rt.count("('ref', 'django.db.models.OuterRef')")
                n_pk = rt.count("('ref', 'django.db.models.OuterRef'), (('const', 'pk'),), ())")
                rev_key = "'**', ('dict', (), ((('sym', 'elem', ('call', ('ref', 'odata_query.django.utils.reverse_relationship')" in rt
                if n_ref == 0 or not rev_key:
                    raise AnalysisError("django: the EXISTS subquery is not tied to the outer row in the form Q(**{<reversed path>: OuterRef(...)}) "
                                        f"that this rule understands: `{T.show(t, 160)}`", hci.module.loc(fn))
                ctx.check(n_ref == n_pk, "R2.subquery-correlated-with-the-outer-row", f"{label}|{p.cond_str()[-60:]}",
                          "the EXISTS subquery must be filtered by Q(**{<reversed relationship path>: OuterRef('pk')}); it is built as "
                          f"`{T.show(t, 200)}`: rows of other parents satisfy the quantifier (or the query fails to resolve the reference)",
                          hci.module.loc(fn), "authors/any(a: a/name eq 'x')")
            for op in sorted(ops):
                if (op, has_lambda) not in SPEC:
                    continue  # all() without a lambda is not in the grammar
                seen_cases.add((op, has_lambda))
                want = SPEC[(op, has_lambda)]
                key = f"{label}|{op}|{'lambda' if has_lambda else 'no-lambda'}"
                wit = {"Any": "authors/any(a: a/name eq 'x')", "All": "authors/all(a: a/name eq 'x')"}[op] if has_lambda else "authors/any()"
                extra = ""
                if "negated" in repr(t) and not exists_has_negated and label == "django":
                    extra = (f" - `negated=True` is not a parameter of the installed django Exists.__init__({', '.join(names)}, **kwargs): it is silently "
                             "swallowed, so the EXISTS is not negated")
                ctx.check(got == want, "R2.quantifier-semantics", key,
                          f"{op.lower()}({'p' if has_lambda else ''}) is built as `{T.show(t, 170)}` = {_fmt(got)}; OData requires {_fmt(want)}{extra}",
                          hci.module.loc(fn), wit)
            # (3) relative body and sub-visitor on the related model
            if has_lambda:
                news = [ev for ev in p.events if ev.kind == "new_obj"]
                sq = {STRIPPER, env.repo.classes[STRIPPER].qual} if STRIPPER in env.repo.classes else {STRIPPER}
                strip = [ev for ev in news if ev.data["cls"] in sq]
                subv = [ev for ev in news if ev.data["cls"] == vcls]
                vis = [ev for ev in p.events if ev.kind == "visit"]
                given = (list(strip[0].data["args"]) + [v for k, v in strip[0].data.get("kwargs", {}).items() if k != "**"]) if strip else []
                rel_ok = len(strip) >= 1 and len(given) == 1 and getattr(given[0], "path", "") == "node.lambda_.identifier" and \
                    any(ev.data.get("vcls") in sq and getattr(ev.data.get("arg"), "path", "") == "node.lambda_.expression" for ev in vis)
                ctx.check(rel_ok, "R3.lambda-body-made-relative", f"{label}", "the lambda body must be rewritten with "
                          "expression_relative_to_identifier(lambda.identifier, lambda.expression) before it is translated in the child's context",
                          hci.module.loc(fn), "authors/any(a: a/name eq 'x')")
                sub_ok = len(subv) == 1 and any(ev.data.get("visitor", "").startswith("new:") and ev.data.get("vcls") == vcls and
                                                isinstance(ev.data.get("arg"), Sym) and ev.data["arg"].op == "visit" for ev in vis)
                ctx.check(sub_ok, "R3.body-translated-by-sub-visitor", f"{label}", "the relative body must be translated by a fresh visitor of the same class "
                          "built on the related model", hci.module.loc(fn))
                if subv:
                    arg0 = subv[0].data["args"][0] if subv[0].data["args"] else None
                    root_like = isinstance(arg0, Sym) and arg0.op == "cfg" and arg0.args[1] == "root_model"
                    ctx.check(not root_like, "R3.sub-visitor-on-related-model", f"{label}", "the sub-visitor is built on the root model, not on the related model",
                              hci.module.loc(fn))
        for case in SPEC:
            ctx.check(case in seen_cases, "R2.quantifier-case-covered", f"{label}|{case[0]}|{'lambda' if case[1] else 'no-lambda'}",
                      f"no branch of visit_CollectionLambda handles {case[0].lower()}({'p' if case[1] else ''})", hci.module.loc(fn))

    # ---- (3b) the lambda body is made relative to the collection by IdentifierStripper: its shape rules (C17) are a precondition ----
    from . import c17 as _c17
    _c17.run(_SubCtx(ctx, only={"R1.strip-shape", "R1.strip-condition", "R1.strip-shape-covered", "R0.generic-transformer-complete"}), env)

    # ---- (4) outer joins (shared with C15) ------------------------------------------------------------------------------------
    from .c15 import _check_chain
    def orm_extra(ctx2, p, t, calls, key, where):
        for c in calls:
            if c[0] in ("join", "outerjoin"):
                outer = c[0] == "outerjoin" or any(k == "isouter" and v == ("const", True) for k, v in c[2])
                ctx2.check(outer, "R4.to-one-joins-are-outer", "sqlalchemy.apply_odata_query|join",
                           "to-one navigation is joined with an INNER join: a parent with a NULL foreign key is dropped even if another disjunct holds "
                           "(a missing related row must behave as null)", where, "author/name eq 'A' or content eq 'y'")
    sub = _SubCtx(ctx, only={"R4.to-one-joins-are-outer"})
    _check_chain(sub, env, "sqlalchemy.apply_odata_query", "odata_query.sqlalchemy.shorthand", "apply_odata_query", "AstToSqlAlchemyOrmVisitor", orm_extra)
    # when the join for a path may be left out (a parent matched against another relationship's rows otherwise): C15's rules
    from .c15 import check_orm_shorthand
    check_orm_shorthand(_SubCtx(ctx, only={"R3.join-skipped-only-if-present", "R3.join-skip-identifies-the-relationship",
                                           "R3.existing-joins-unabridged", "R3.joins-what-the-visitor-collected"},
                                rename=lambda r: "R4." + r.split(".", 1)[1]), env)
    # every relationship visit_Attribute resolves is recorded for joining
    for p in H.eval_visit(ORM, "Attribute") or []:
        if p.outcome == "return":
            rec = any(ev.kind in ("mutate", "list_mutation") and "join" in str(ev.data.get("target", "")) for ev in p.events) or \
                any(ev.kind == "extcall" and "append" in repr(ev.data.get("func")) and "join" in repr(ev.data.get("func")) for ev in p.events)
            ctx.check(rec, "R4.relationship-recorded-for-join", "orm.visit_Attribute", "visit_Attribute returns a column of the related class without recording the "
                      "relationship to join", p.entry.get("where", ""), "author/name eq 'A'")

    # the relationships a lambda *body* navigates are recorded on the sub-visitor that translates the body; whoever creates that sub-visitor
    # has to pick them up, or the tables the body refers to stand in the subquery without a join condition
    join_attr = None
    r_attr = repo.lookup_method(ORM, "visit_Attribute")
    if r_attr is not None:
        for n in ast.walk(r_attr[1]):
            if isinstance(n, ast.Call) and isinstance(n.func, ast.Attribute) and n.func.attr in ("append", "add", "extend", "insert") and \
                    isinstance(n.func.value, ast.Attribute) and isinstance(n.func.value.value, ast.Name) and n.func.value.value.id == "self":
                join_attr = n.func.value.attr
    r_cl = repo.lookup_method(ORM, "visit_CollectionLambda")
    if join_attr and r_cl is not None:
        cci, cfn = r_cl
        subs = set()
        for n in ast.walk(cfn):
            if isinstance(n, ast.Assign) and isinstance(n.value, ast.Call):
                f = ast.unparse(n.value.func)
                if f in ("self.__class__", "type(self)", ORM.rsplit(".", 1)[-1]):
                    subs |= {t.id for t in n.targets if isinstance(t, ast.Name)}
        if subs:
            used = any(isinstance(n, ast.Attribute) and n.attr == join_attr and isinstance(n.value, ast.Name) and n.value.id in subs for n in ast.walk(cfn)) or \
                any(isinstance(n, ast.Call) and any(isinstance(a, ast.Name) and a.id in subs for a in n.args) and
                    not (isinstance(n.func, ast.Attribute) and isinstance(n.func.value, ast.Name) and n.func.value.id in subs) for n in ast.walk(cfn))
            ctx.check(used, "R4.joins-of-the-lambda-body-are-applied", "orm.visit_CollectionLambda",
                      f"the sub-visitor that translates the lambda body records the relationships the body navigates in `{join_attr}`, but "
                      f"visit_CollectionLambda never looks at them: the related table appears in the EXISTS subquery without a join condition "
                      "(every row of it matches)", cci.module.loc(cfn), "comments/any(c: c/author/name eq 'Gorilla')")

    # ---- (5) Django path spelling --------------------------------------------------------------------------------------------
    for p in H.eval_visit(DJ, "Attribute") or []:
        if p.outcome != "return":
            continue
        t = T.norm(p.value)
        ok = T.is_call_of(t, "F") and len(t[2]) == 1 and t[2][0][0] == "str"
        if ok:
            parts = t[2][0][1]
            ok = len(parts) == 3 and parts[0][0] == "dyn" and "node.owner" in repr(parts[0][1]) and parts[1] == ("lit", "__") and \
                parts[2][0] == "dyn" and parts[2][1] == ("field", "node", "attr")
        ctx.check(ok, "R5.django-path-spelling", "visit_Attribute", f"a path must be spelled F(<owner path> + '__' + <leaf>); got `{T.show(t)}`",
                  p.entry.get("where", ""), "author/name eq 'A'")
    rr = repo.function("odata_query.django.utils", "reverse_relationship")  # wherever a re-export leads
    if rr is not None:
        _reverse_relationship(ctx, env, rr[0], rr[1])
    ctx.assume("per-parent correlation of subqueries, many-to-many semantics and run-time agreement of both ORMs are not decided")
    ctx.trust("meaning table: Exists(q)/rel.any(c) = exists, q.filter(c) = and, ~x/not_ = not; Django constructor signatures read from the installed source")


class _SubCtx:
    """Forward only selected rules of a shared helper to the real context."""

    def __init__(self, ctx: Ctx, only: Set[str], rename=None):
        self._ctx = ctx
        self._only = only
        self._rename = rename or (lambda r: r)

    def check(self, cond, rule, key, detail="", where="", witness=None, **extra):
        if rule in self._only:
            return self._ctx.check(cond, self._rename(rule), key, detail, where, witness, **extra)
        return cond

    def ok(self, *a, **k):
        pass

    def fail(self, rule, key, detail, where="", witness=None, **extra):
        if rule in self._only:
            self._ctx.fail(self._rename(rule), key, detail, where, witness, **extra)

    def floor(self, *a, **k):
        pass

    def __getattr__(self, name):
        return getattr(self._ctx, name)


def _reverse_relationship(ctx: Ctx, env, um, fn):
    """reverse_relationship(path, root) evaluated: the result must be ('__'.join(<remote field names of the hops, in reverse
    hop order>), <model reached by the last hop>), the hops being the '__'-separated segments of the path, each looked up on the
    model the previous hop reached."""
    from ..values import AltV, PyTuple, Str, Sym, Const
    params = [a.arg for a in fn.args.args]
    if len(params) != 2:
        raise AnalysisError("reverse_relationship no longer takes (path, root model)", um.loc(fn))
    it = env.interp()
    paths = it.explore(lambda i: (um, fn, [Sym("param", params[0], hint="str"), Sym("param", params[1])], {}, None))
    rets = [p for p in paths if p.outcome == "return"]
    ctx.floor("reverse_relationship: returning paths", len(rets), 1)

    def is_segment(v) -> bool:
        return isinstance(v, Sym) and v.op == "splitpart" and v.args[1] == "__" and repr(v.args[0]) == repr(Sym("param", params[0], hint="str"))

    def field_lookup(v):
        """<M>._meta.get_field(<segment>) -> M"""
        if isinstance(v, Sym) and v.op == "call" and isinstance(v.args[0], Sym) and v.args[0].op == "attr" and v.args[0].args[1] == "get_field" \
                and len(v.args[1]) == 1 and is_segment(v.args[1][0]):
            meta = v.args[0].args[0]
            if isinstance(meta, Sym) and meta.op == "attr" and meta.args[1] == "_meta":
                return meta.args[0]
        return None

    def model_kind(m) -> Optional[str]:
        if repr(m) == repr(Sym("param", params[1])):
            return "root"
        if isinstance(m, Sym) and m.op == "attr" and m.args[1] == "related_model" and field_lookup(m.args[0]) is not None:
            return "reached"
        return None

    def remote_name(v) -> Optional[str]:
        """<field>.remote_field.name -> which model the field was looked up on"""
        if isinstance(v, Sym) and v.op == "attr" and v.args[1] == "name" and isinstance(v.args[0], Sym) and v.args[0].op == "attr" \
                and v.args[0].args[1] == "remote_field":
            m = field_lookup(v.args[0].args[0])
            return model_kind(m) if m is not None else None
        return None

    for p in rets:
        v = p.value
        key = "reverse_relationship"
        where = um.loc(fn)
        from ..values import ObjV as _ObjV
        if isinstance(v, _ObjV) and v.cls in env.repo.classes and "typing.NamedTuple" in env.repo.mro(v.cls):
            # a NamedTuple unpacks and compares as the tuple of its fields, in declaration order
            names = [st.target.id for st in env.repo.classes[v.cls].node.body if isinstance(st, ast.AnnAssign) and isinstance(st.target, ast.Name)]
            if all(n in v.attrs for n in names):
                v = PyTuple([v.attrs[n] for n in names])
        if not (isinstance(v, PyTuple) and len(v.items) == 2):
            ctx.fail("R5.reverse-relationship", key, f"returns {v!r}, not (reverse path, related model)", where)
            return
        path, model = v.items
        good = isinstance(path, Str) and len(path.parts) == 1 and path.parts[0][0] == "join" and isinstance(path.parts[0][1], Const) \
            and path.parts[0][1].v == "__"
        why = "the correlation path is not '__'.join(...) of one sequence"
        if good:
            elem, over = path.parts[0][2], path.parts[0][3]
            opts = list(elem.options) if isinstance(elem, AltV) else [elem]
            kinds = [remote_name(o) for o in opts]
            if None in kinds or "root" not in kinds:
                good, why = False, "the joined names are not `<field looked up on the current model>.remote_field.name` starting at the root model"
            elif "reached" not in kinds:
                good, why = False, "later hops are not looked up on the model the previous hop reached"
            elif not getattr(over, "rev", False):
                good, why = False, "the remote field names are joined in hop order; the path back to the parent needs them reversed"
        if good:
            cands = [model]
            if isinstance(model, Sym) and model.op in ("item", "elem") and len(model.args) == 2:
                # the last element of the sequence of models reached, hop by hop
                base, idx = model.args
                idx = idx.v if isinstance(idx, Const) else idx
                from ..values import PyList as _PL
                if idx == -1 and isinstance(base, _PL) and not base.items and base.loop_parts and not getattr(base, "rev", False):
                    cands = [x for _, per in base.loop_parts for x in per]
                elif idx == -1 and hasattr(base, "elem") and not getattr(base, "rev", False):
                    cands = list(base.elem.options) if isinstance(base.elem, AltV) else [base.elem]
                else:
                    cands = [None]
            if not cands or any(model_kind(c) != "reached" for c in cands):
                good, why = False, f"the second result is {model!r:.160}, not the model reached by the last hop"
        ctx.check(good, "R5.reverse-relationship", key, f"reverse_relationship: {why}", where, "comments/any(c: c/content eq 'x') on Author (two hops: through blogposts)")
