"""C10 - parsing any string terminates with an AST or a library syntax/function error."""
from __future__ import annotations

import ast
from typing import Any, Dict, List, Optional, Set, Tuple

from .. import rx
from ..interp import Interp
from ..report import AnalysisError, Ctx
from ..values import Const, NewNode, NodeV, ObjV, RefV, Sym, TokV
from .common import grammar_module

EXPLANATION = (
    "Effect/exception analysis of everything SLY calls back into while tokenising and parsing. Every lexer action, "
    "every (grammar action, production) pair, both error hooks, the helper methods they call and the exception "
    "constructors are evaluated by the abstract interpreter over the parser's own image (Core F); obligations: the "
    "error hooks raise a library exception on every path; actions perform only total operations (symbol accesses "
    "valid for their production under SLY's naming, attribute reads defined on every kind that can reach them, "
    "index/pop within proven minimum lengths, no partial conversion); every reachable raise is an ODataException "
    "subclass; no loop or recursion whose depth the input controls; no catastrophic-backtracking shape in a token "
    "regex; the start symbol's value is always a node. Trusted: SLY's driver loop."
)
RULE_TEXT = "one obligation per callback (token action, action x production, hook, exception constructor) and per token regex"

BASE_EXC = "odata_query.exceptions.ODataException"
FOREIGN_EVENTS = {
    "p_no_symbol": "reads a symbol name that the production does not have",
    "p_index_out_of_range": "indexes past the production's last symbol",
    "p_negative_index": "reads the parser stack below the production (p[-n])",
    "p_dynamic_index": "indexes the production with a computed index",
    "attr_missing": "reads an attribute that the value's kind does not have",
    "unpack_mismatch": "unpacks a sequence of the wrong length",
    "unpack_unknown_len": "unpacks a list whose length is not known to fit",
    "unpack_opaque": "unpacks a value of unknown shape",
    "index_out_of_range": "indexes past the end of a list",
    "index_maybe_out_of_range": "indexes a list that may be shorter",
    "pop_maybe_empty": "pops from a list that may be empty",
    "node_ctor_arity": "calls a node constructor with the wrong fields",
    "call_arity": "calls a helper with the wrong number of arguments",
    "bad_concat": "concatenates a string with a non-string",
    "bad_join_item": "joins non-strings",
}


# Calls into the standard library made by callbacks / exception constructors: which of them are total on the values they get
# here (text, numbers), and which are documented to raise. Anything else stops the analysis (exit 2) rather than being guessed.
TOTAL_EXTERNALS = {"builtins.str", "builtins.repr", "builtins.len", "builtins.isinstance", "builtins.format", "builtins.type", "builtins.bool",
                   "builtins.tuple", "builtins.list", "builtins.getattr", "builtins.hasattr", "builtins.ascii", "builtins.id", "builtins.hash",
                   "logging.getLogger", "textwrap.shorten", "textwrap.dedent", "unicodedata.category", "unicodedata.normalize", "re.escape",
                   "builtins.min", "builtins.max", "builtins.sorted", "builtins.enumerate", "builtins.zip", "builtins.dict", "builtins.set",
                   "builtins.frozenset", "builtins.print"}
PARTIAL_EXTERNALS = {
    "unicodedata.name": ("ValueError", "no name exists for control characters, unassigned and private-use code points, surrogates", 1),
    "unicodedata.lookup": ("KeyError", "unknown character names", None),
    "unicodedata.digit": ("ValueError", "characters without a digit value", 1),
    "unicodedata.numeric": ("ValueError", "characters without a numeric value", 1),
    "unicodedata.decimal": ("ValueError", "characters without a decimal value", 1),
    "builtins.ord": ("TypeError", "strings that are not exactly one character long", None),
    "builtins.chr": ("ValueError", "numbers outside range(0x110000)", None),
    "builtins.int": ("ValueError", "text that is not an integer literal", None),
    "builtins.float": ("ValueError", "text that is not a number", None),
    "builtins.next": ("StopIteration", "exhausted iterators", 1),
}


def _partial_external(ev) -> Optional[Tuple[str, str, str]]:
    """An `extcall` event -> (function, exception, when) if the callee is documented to raise for some arguments"""
    f = ev.data.get("func")
    q = getattr(f, "qual", None)
    if q is None:
        return None
    q = q.replace("_operator.", "operator.")
    if q in PARTIAL_EXTERNALS:
        exc, when, safe_arity = PARTIAL_EXTERNALS[q]
        nargs = len(ev.data.get("args") or [])
        if safe_arity is not None and nargs > safe_arity:
            return None  # called with a default: total
        return q, exc, when
    return None


def lib_exception(env, q: Optional[str]) -> bool:
    return bool(q) and q in env.repo.classes and BASE_EXC in env.repo.mro(q)


def _witness_for(p) -> Optional[str]:
    syms = " ".join(p.syms)
    if p.name == "list_named_param":
        return "x.y(a=1, b=2, c=3)"
    if "single_navigation_expr" in syms:
        return "a/b/c/any()"
    return None


def run(ctx: Ctx, env):
    repo = env.repo
    g = env.grammar
    gm = grammar_module(env)
    kf = env.kindflow
    if BASE_EXC not in repo.classes:
        raise AnalysisError("odata_query.exceptions.ODataException not found")

    # ---- O1 error hooks ------------------------------------------------------------------------------
    for label, fn, cls in (("lexer", g.lexer_error, g.lexer_class), ("parser", g.parser_error, g.parser_class)):
        key = f"{cls.rsplit('.', 1)[-1]}.error"
        if fn is None:
            ctx.fail("O1.error-hook-raises", key, f"{label} does not override error(): SLY's default "
                     + ("raises sly.lex.LexError (foreign)" if label == "lexer" else "prints and returns (parse() then returns None)"),
                     gm.rel, "a eq" if label == "parser" else "a eq #")
            continue
        ci = repo.classes[cls]
        interp = Interp(repo, env.schema, kf.kinds)
        interp.run_exc_ctors = True  # the exception is built with the arguments the hook really passes

        def setup(it, fn=fn, ci=ci, label=label):
            return ci.module, fn, [ObjV(ci.qual, {}, label), Sym("token", label)], {}, ci.qual

        paths = interp.explore(setup)
        bad = [x for x in paths if x.outcome != "raise"]
        ctx.check(not bad and bool(paths), "O1.error-hook-raises", key,
                  f"{label}.error can return ({len(bad)} of {len(paths)} paths): "
                  + ("the tokenizer then loops or yields garbage" if label == "lexer" else "parse() then returns None / resynchronises"),
                  gm.loc(fn), "a eq" if label == "parser" else "a eq #")
        for x in paths:
            if x.outcome == "raise":
                q = interp.exc_class(x.value)
                ctx.check(lib_exception(env, q), "O1.error-hook-exception", f"{key}|{(q or '?').rsplit('.', 1)[-1]}",
                          f"{label}.error raises {q}, not a subclass of ODataException", x.where,
                          "a eq" if label == "parser" else "a eq #")
            _events_total(ctx, env, "O1.error-hook-total", key, x, gm)
    # exception constructors used by the grammar: total operations only
    em = repo.modules.get("odata_query.exceptions")
    n_ctor = 0
    for q, ci in repo.classes.items():
        if not lib_exception(env, q) or "__init__" not in ci.methods:
            continue
        fn = ci.methods["__init__"]
        n_ctor += 1
        interp = Interp(repo, env.schema)

        # a parameter annotated as a (SLY) Token is evaluated once per kind of payload the lexer puts into tokens:
        # an AST node of any class a token action builds, or the matched text
        tok_params = [a.arg for a in fn.args.args[1:] if a.annotation is not None and "Token" in ast.unparse(a.annotation)]
        node_kinds = sorted({s[1] for shapes in env.kindflow.token_shapes.values() for s in shapes if s[0] == "node"})
        variants = [None] if not tok_params else (["text"] + (["node"] if node_kinds else []))
        for variant in variants:
            def setup(it, fn=fn, ci=ci, variant=variant):
                args = [ObjV(ci.qual, {}, "exc")]
                for a in fn.args.args[1:]:
                    if a.arg in tok_params and variant is not None:
                        t = TokV("<any>")
                        t.attrs["type"] = Sym("toktype", hint="str")
                        t.attrs["lineno"] = Sym("lineno", hint="int")
                        t.attrs["index"] = Sym("index", hint="int")
                        if variant == "node":
                            t.attrs["value"] = NodeV("token.value", set(node_kinds))
                        args.append(t)
                    else:
                        ann = ast.unparse(a.annotation) if a.annotation is not None else ""
                        hint = "str" if ann in ("str", "Optional[str]") else "int" if ann in ("int", "Optional[int]") else None
                        args.append(Sym("arg", a.arg, hint=hint))
                return ci.module, fn, args, {}, ci.qual

            for x in interp.explore(setup):
                ctx.check(x.outcome == "return", "O1.exception-ctor-total", f"{ci.name}.__init__",
                          f"constructor raises {x.value!r}" + (f" for a token carrying {'an AST node' if variant == 'node' else 'text'}" if variant else ""),
                          x.where, "'x'2023-02-30 (a syntax error at a literal the lexer accepts but that has no Python value)" if variant == "node" else None)
                _events_total(ctx, env, "O1.exception-ctor-total", f"{ci.name}.__init__", x, ci.module)
    ctx.analysed["exception_ctors"] = n_ctor

    # ---- O2 token actions -------------------------------------------------------------------------------
    n_tok = 0
    alpha = None
    for rule in g.rules:
        if rule.func is None:
            continue
        n_tok += 1
        key = f"token:{rule.name}"
        paths = kf.token_paths.get(rule.name, [])
        ctx.check(bool(paths), "O2.token-action", key, "no feasible path through the token action", gm.loc(rule.func))
        ok = True
        for x in paths:
            if x.outcome == "raise":
                q = Interp.exc_class(None, x.value)  # type: ignore[arg-type]
                if not lib_exception(env, q):
                    ok = False
                    ctx.fail("O2.token-action-raise", f"{key}|{(q or '?').rsplit('.', 1)[-1]}",
                             f"token action raises {q}", x.where)
            elif not (isinstance(x.value, TokV) or (isinstance(x.value, Const) and x.value.v is None)):
                ok = False
                ctx.fail("O2.token-action-return", key, f"token action returns {x.value!r}, not the token", gm.loc(rule.func))
            elif isinstance(x.value, TokV):
                tv = x.value.attrs.get("type")
                if not (isinstance(tv, Const) and tv.v in g.tokens):
                    ok = False
                    ctx.fail("O2.token-action-return", key, f"token type becomes {tv!r}, not a declared token", gm.loc(rule.func))
            if not _events_total(ctx, env, "O2.token-action-total", key, x, gm, rule=rule):
                ok = False
        if ok:
            ctx.ok("O2.token-action", key, f"{len(paths)} path(s), total")
    ctx.floor("token actions", n_tok, 25)

    # ---- O3/O4 grammar actions per production ---------------------------------------------------------------
    n_pairs = 0
    for p in g.productions:
        n_pairs += 1
        key = f"{p.name}|{' '.join(p.syms)}"
        paths = kf.prod_paths.get(p.index, [])
        ok = True
        for x in paths:
            if x.outcome == "raise":
                q = Interp.exc_class(None, x.value)  # type: ignore[arg-type]
                if lib_exception(env, q):
                    continue
                # a foreign raise: either produced by a partial operation (reported through its event)
                # or an explicit `raise`
                explicit = [ev for ev in x.events if ev.kind == "raise" and ev.where == x.where]
                if explicit:
                    ok = False
                    ctx.fail("O4.foreign-raise", f"{key}|{(q or '?').rsplit('.', 1)[-1]}",
                             f"reachable `raise {(q or '?').rsplit('.', 1)[-1]}` (not an ODataException) under {x.cond_str()[:160]}",
                             x.where, _witness_for(p))
            if not _events_total(ctx, env, "O3.action-total", key, x, gm, production=p):
                ok = False
        if ok:
            ctx.ok("O3.action-total", key, f"{len(paths)} path(s), total", nontrivial=bool(paths))
    ctx.floor("(action, production) pairs", n_pairs, 55)

    # ---- O5 termination ------------------------------------------------------------------------------------
    pci = repo.classes[g.parser_class]
    lci = repo.classes[g.lexer_class]
    # `while` loops: only worklist loops whose every iteration pops one item and pushes parts of it (structural descent on a
    # finite tree) are accepted; the interpreter verifies the form while evaluating the callbacks and reports it as an event
    verified = set()
    not_descending: Dict[int, str] = {}
    for p in g.productions:
        for x in kf.prod_paths.get(p.index, []):
            for ev in x.events:
                if ev.kind == "while" and ev.data.get("structural"):
                    verified.add(ev.data.get("node_line"))
                if ev.kind == "while_not_descending":
                    not_descending[ev.data.get("node_line")] = ev.data.get("pushed", "")
    for name_, paths_ in kf.token_paths.items():
        for x in paths_:
            for ev in x.events:
                if ev.kind == "while" and ev.data.get("structural"):
                    verified.add(ev.data.get("node_line"))
    for ci in (pci, lci):
        for name, fn in ci.methods.items():
            for n in ast.walk(fn):
                if isinstance(n, ast.While):
                    if n.lineno in not_descending:
                        ctx.fail("O5.while-descends", f"{ci.name}.{name}", f"the worklist loop pushes `{not_descending[n.lineno]}`, which is not a part of the "
                                 "item it just popped: nothing shrinks, the loop need not terminate", gm.loc(n), "a/b/c eq 1")
                        continue
                    if n.lineno not in verified:
                        # no termination argument is available for this loop: that is no verdict either way
                        raise AnalysisError(f"`while` loop in {ci.name}.{name}: termination can only be shown for worklist loops "
                                            "(pop one item, push only parts of it)", gm.loc(n))
                    ctx.ok("O5.while-descends", f"{ci.name}.{name}", "worklist loop: every iteration pops one item and pushes only parts of it")
    rec: Dict[str, str] = {}
    for p in g.productions:
        for x in kf.prod_paths.get(p.index, []):
            for ev in x.events:
                if ev.kind == "recursion":
                    rec.setdefault(ev.data["func"], ev.where)
    for func, where in rec.items():
        name = func.split(":")[1]
        ctx.fail("O5.input-bounded-recursion", f"{g.parser_class.rsplit('.', 1)[-1]}.{name}",
                 f"{name} recurses over the parsed structure: recursion depth grows with the input "
                 "(a path with ~1000 segments exhausts the interpreter stack: RecursionError)", where,
                 "a/a/a/.../a eq 1 (a path of 1100 segments)")
    if not rec:
        ctx.ok("O5.input-bounded-recursion", "grammar", "no callback recurses over the parsed structure")
    # regex backtracking shapes
    for rule in g.rules:
        issue = rx.exponential_ambiguity(rule.pattern, g.reflags)
        ctx.check(issue is None, "O5.regex-backtracking", f"token:{rule.name}", f"token regex is exponentially ambiguous: {issue}",
                  gm.loc(rule.func) if rule.func else gm.rel)

    # ---- O6 the start symbol is always a node ----------------------------------------------------------------
    sh = kf.image.get(g.start, set())
    nonnode = [s for s in sh if s[0] != "node"]
    ctx.check(bool(sh) and not nonnode, "O6.start-is-node", g.start, f"the start symbol can evaluate to {nonnode or 'nothing'}",
              gm.rel)
    unknown_kinds = [s[1] for s in sh if s[0] == "node" and s[1] not in env.schema.classes]
    ctx.check(not unknown_kinds, "O6.start-is-node", g.start + "|classes", f"unknown node classes {unknown_kinds}")
    ctx.analysed.update({"kindflow_rounds": kf.rounds, "productions": len(g.productions), "token_rules": len(g.rules)})
    ctx.trust("SLY's driver: each parse-loop iteration shifts, reduces or calls error(); tokenize advances or calls error()")
    ctx.assume("CPython resource limits other than the recursion limit are out of scope")
    ctx.sample({"image_of_start": sorted(s[1] for s in sh if s[0] == "node")})


def _events_total(ctx: Ctx, env, rule_id: str, key: str, x, module, production=None, rule=None) -> bool:
    ok = True
    summarised = [ev for ev in x.events if ev.kind == "summarised_by_annotation"]
    if summarised and any(ev.kind in FOREIGN_EVENTS or (ev.kind == "may_raise" and not ev.data.get("caught")) for ev in x.events):
        # totality would have to be argued from the inside of a function the analysis could only replace by its annotation
        raise AnalysisError(f"{key}: whether this callback is total depends on {summarised[0].data.get('func')}, which contains a loop "
                            "outside the supported forms", summarised[0].where)
    for ev in x.events:
        if ev.kind in FOREIGN_EVENTS:
            detail = FOREIGN_EVENTS[ev.kind]
            data = {k: (v if isinstance(v, (str, int, tuple, list)) else repr(v)) for k, v in ev.data.items()}
            ident = data.get("name") or data.get("attr") or data.get("index") or data.get("value") or ""
            wit = _witness_for(production) if production is not None else None
            ctx.fail(rule_id, f"{key}|{ev.kind}|{ident}", f"{detail}: {data}" + (f" under {x.cond_str()[:120]}" if x.conds else ""),
                     ev.where, wit)
            ok = False
        elif ev.kind == "may_raise" and not ev.data.get("caught"):
            exc = ev.data.get("exc", "")
            what = str(ev.data.get("what", ""))
            if ev.data.get("definite") and any(e2.kind in FOREIGN_EVENTS and e2.where == ev.where for e2 in x.events):
                continue  # already reported through its specific event
            if exc.endswith("ValueError") and what.startswith("float(") and rule is not None and "toktext" in what:
                if _float_total(env, rule):
                    continue
            ctx.fail(rule_id, f"{key}|may-raise|{exc.rsplit('.', 1)[-1]}|{what[:60]}",
                     f"partial operation {what} can raise {exc.rsplit('.', 1)[-1]} and nothing converts it", ev.where,
                     _witness_for(production) if production is not None else None)
            ok = False
        elif ev.kind == "extcall":
            pe = _partial_external(ev)
            if pe is not None and not any(e2.kind == "may_raise" and e2.where == ev.where and e2.data.get("caught") for e2 in x.events):
                fq, exc, when = pe
                ctx.fail(rule_id, f"{key}|extcall|{fq}", f"calls {fq}(), which raises {exc} for {when}, and nothing converts it", ev.where,
                         "name eq \\x00 (a character without a Unicode name)" if fq == "unicodedata.name" else None)
                ok = False
        elif ev.kind == "while":
            pass
    return ok


_FLOAT_RE = r"[+-]?(?:\d+(?:\.\d*)?|\.\d+)(?:e[+-]?\d+)?"


def _float_total(env, rule) -> bool:
    g = env.grammar
    alpha = rx.Alphabet.for_patterns([rule.pattern, _FLOAT_RE], g.reflags)
    a = rx.compile_rule(rule.pattern, g.reflags, alpha).dfa
    b = rx.compile_dfa(_FLOAT_RE, ("re.I",), alpha)
    return rx.difference_witness(a, b, alpha) is None


def _redos_shape(sub) -> Optional[str]:
    """Nested unbounded repeats, or an unbounded repeat over alternatives that can start alike."""
    c = rx.sre_c

    def unbounded(op, av):
        return op in (c.MAX_REPEAT, c.MIN_REPEAT) and (av[1] == rx.MAXREPEAT or av[1] > 64)

    def first_items(p):
        out = []
        for op, av in p:
            if op is c.SUBPATTERN:
                out += first_items(av[3])
            elif op is c.BRANCH:
                for alt in av[1]:
                    out += first_items(alt)
            elif op in (c.MAX_REPEAT, c.MIN_REPEAT):
                out += first_items(av[2])
                if av[0] == 0:
                    continue
            else:
                out.append((op, av))
            if not (op in (c.MAX_REPEAT, c.MIN_REPEAT) and av[0] == 0):
                break
        return out

    def walk(p, inside_unbounded: bool) -> Optional[str]:
        for op, av in p:
            if op in (c.MAX_REPEAT, c.MIN_REPEAT):
                ub = unbounded(op, av)
                body = av[2]
                if ub and inside_unbounded:
                    return "an unbounded repeat nested in another unbounded repeat"
                if ub:
                    # (x*)* style: the body itself can be empty or ends/starts with an unbounded repeat
                    for o2, a2 in body:
                        if o2 is c.BRANCH:
                            firsts = [repr(first_items(alt)[:1]) for alt in a2[1]]
                            if len(set(firsts)) < len(firsts):
                                return "alternatives inside an unbounded repeat start with the same item"
                r = walk(body, inside_unbounded or ub)
                if r:
                    return r
            elif op is c.SUBPATTERN:
                r = walk(av[3], inside_unbounded)
                if r:
                    return r
            elif op is c.BRANCH:
                for alt in av[1]:
                    r = walk(alt, inside_unbounded)
                    if r:
                        return r
        return None

    return walk(sub, False)
