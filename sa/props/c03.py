"""C03 - SQLAlchemy ORM and Core shorthands return exactly the rows the filter denotes (structural clauses)."""
from __future__ import annotations

import ast
from typing import Any, Dict, List, Optional, Set, Tuple

from .. import heval, termrules as T, witness
from ..report import AnalysisError, Ctx
from ..values import NodeV, ObjV, RefV, Sym
from . import oracles as O
from .common import check_arguments_influence

EXPLANATION = (
    "Decides the structural clauses of the property on the SQLAlchemy visitors (ORM and Core, handlers resolved through "
    "their MROs), not what the compiled statements return. (1) every OData operator maps to the Python/SQLAlchemy "
    "operator of the same meaning with operands in source order; (2) keyword spelling: every read of a case-preserving "
    "literal text (Boolean.val) is case-normalised before it is compared; (3) the contains/startswith/endswith column "
    "operators receive an escape discipline (autoescape=True or escape=) after both operands were type-checked; (4) "
    "function handlers match the meaning table (strpos(..) - 1, substr(s, i + 1[, n]), extract(part, x), ...); (5) ORM and "
    "Core agree: every operator, literal and function handler resolves to the same method for both, and the two "
    "visit_Compare build op(left, right) from the same children; (6) a null operand of eq/ne is rendered through an IS "
    "form whichever side it is on."
)
RULE_TEXT = "one obligation per operator handler, per literal-text read, per function handler x count, per sibling pair"

ORM = "odata_query.sqlalchemy.orm.AstToSqlAlchemyOrmVisitor"
CORE = "odata_query.sqlalchemy.core.AstToSqlAlchemyCoreVisitor"
OP_CONSTRUCT = {
    "Eq": {"operator.eq"}, "NotEq": {"operator.ne"}, "Lt": {"operator.lt"}, "LtE": {"operator.le"}, "Gt": {"operator.gt"},
    "GtE": {"operator.ge"}, "Add": {"operator.add"}, "Sub": {"operator.sub"}, "Mult": {"operator.mul"}, "Div": {"operator.truediv"},
    "Mod": {"operator.mod"}, "And": {"sqlalchemy.sql.expression.and_", "sqlalchemy.and_", "operator.and_"},
    "Or": {"sqlalchemy.sql.expression.or_", "sqlalchemy.or_", "operator.or_"},
    "Not": {"operator.invert", "operator.inv", "sqlalchemy.sql.expression.not_", "sqlalchemy.not_"},
}
EXTRACT = {"year": "year", "month": "month", "day": "day", "hour": "hour", "minute": "minute", "second": "second"}
UNARY = {"length": {"char_length", "length"}, "tolower": {"lower"}, "toupper": {"upper"}, "ceiling": {"ceil", "ceiling"}, "floor": {"floor"},
         "round": {"round"}}
TEXT_TYPES = {"String", "Text", "Unicode", "UnicodeText", "VARCHAR", "NVARCHAR", "CHAR"}
NUMBER_TYPES = {"Integer", "BigInteger", "SmallInteger", "Numeric", "Float", "DECIMAL", "INTEGER", "NUMERIC", "FLOAT"}
SQL_FUNCTION_RESULT = {"strpos": NUMBER_TYPES, "substr": TEXT_TYPES, "lower": TEXT_TYPES, "upper": TEXT_TYPES, "ltrim": TEXT_TYPES,
                       "rtrim": TEXT_TYPES, "trim": TEXT_TYPES, "ceil": NUMBER_TYPES, "floor": NUMBER_TYPES, "round": NUMBER_TYPES,
                       "length": NUMBER_TYPES, "concat": TEXT_TYPES}
RESOLUTION_HANDLERS = {"visit_Identifier", "visit_Attribute", "visit_CollectionLambda", "visit_Compare", "__init__"}


def _is_arg(t, i: int) -> bool:
    return T.is_visit(t, f"args[{i}]")


def run(ctx: Ctx, env):
    repo = env.repo
    H = heval.get(env)
    from .common import check_mutable_defaults
    check_mutable_defaults(ctx, env, ("odata_query.sqlalchemy",), "R6.no-state-shared-between-calls", "a later translation depends on an earlier one")
    # the handlers rely on typing.infer_type / typecheck to refuse ill-typed arguments and to accept well-typed ones: the rules
    # of C18 (what type each call has, when typecheck must raise) are a precondition
    from . import c18 as _c18
    from .c04 import _SubCtx
    _c18.run(_SubCtx(ctx, only={"R1.return-type", "R2.infer-type-of-call", "R3.typecheck"}, rename=lambda r: "R0.typing-" + r.split(".", 1)[1]), env)
    # every literal of the filter needs a parameter of its own (two literals merged into one parameter select other rows): C08's rule
    from . import c08 as _c08
    _c08.run(_SubCtx(ctx, only={"R1.one-parameter-per-value"}), env)
    for q in (ORM, CORE):
        if q not in repo.classes:
            raise AnalysisError(f"{q} not found")

    # ---- (0) the front of the pipeline the shorthands run: literal values as written, parse -> visit -> filter ----------
    from .c06 import check_token_actions
    from .c15 import _check_chain
    check_token_actions(ctx, env, "R0.literal-values-as-written")
    from .c19 import check_py_val_case
    check_py_val_case(ctx, env, "R0.literal-values-independent-of-case")
    _check_chain(ctx, env, "sqlalchemy.apply_odata_query", "odata_query.sqlalchemy.shorthand", "apply_odata_query", "AstToSqlAlchemyOrmVisitor")
    _check_chain(ctx, env, "sqlalchemy.apply_odata_core", "odata_query.sqlalchemy.shorthand", "apply_odata_core", "AstToSqlAlchemyCoreVisitor")

    # ---- (1) operators -------------------------------------------------------------------------------------------------
    n_ops = 0
    for cls, allowed in OP_CONSTRUCT.items():
        for vcls in (ORM, CORE):
            for p in H.eval_visit(vcls, cls) or []:
                n_ops += 1
                v = T.norm(p.value) if p.outcome == "return" else None
                q = v[1] if v and v[0] == "ref" else None
                ctx.check(q in allowed, "R1.operator-construct", cls, f"OData `{O.OPERATOR_KEYWORD[cls]}` is translated with {T.show(v) if v else p.outcome}; "
                          f"expected {sorted(T.short(a) for a in allowed)}", p.entry.get("where", ""), witness.example(O.OPERATOR_NODE[cls], cls))
    for vcls in (ORM, CORE):
        for p in H.eval_visit(vcls, "In") or []:
            v = T.norm(p.value) if p.outcome == "return" else None
            ok = v is not None and v[0] == "lambda"
            if ok:
                try:
                    lam = ast.parse(v[1], mode="eval").body
                    a = [x.arg for x in lam.args.args]
                    body = lam.body
                    ok = len(a) == 2 and isinstance(body, ast.Call) and isinstance(body.func, ast.Attribute) and body.func.attr == "in_" and \
                        isinstance(body.func.value, ast.Name) and body.func.value.id == a[0] and len(body.args) == 1 and \
                        isinstance(body.args[0], ast.Name) and body.args[0].id == a[1]
                except SyntaxError:
                    ok = False
            ctx.check(ok, "R1.operator-construct", "In", f"`in` must be translated as left.in_(right); got {T.show(v) if v else p.outcome}", p.entry.get("where", ""),
                      "a in (1, 2)")
    ctx.floor("operator handler paths", n_ops, 26)
    for vcls in (ORM, CORE):
        for kind, d, first in (("Compare", "Gt", "comparator"), ("Compare", "GtE", "comparator"), ("Compare", "Lt", "comparator"),
                               ("Compare", "LtE", "comparator"), ("BinOp", "Sub", "op"), ("BinOp", "Add", "op"), ("BinOp", "Mult", "op"),
                               ("BinOp", "Div", "op"), ("BinOp", "Mod", "op"), ("BoolOp", "And", "op"), ("BoolOp", "Or", "op")):
            for p in H.eval_visit(vcls, kind, d) or []:
                if p.outcome != "return":
                    continue
                t = T.norm(p.value)
                ok = t[0] == "call" and T.is_visit(t[1], f"node.{first}") and len(t[2]) == 2 and _mentions(t[2][0], "node.left") and \
                    _mentions(t[2][1], "node.right") and not _mentions(t[2][0], "node.right") and not _mentions(t[2][1], "node.left")
                ctx.check(ok, "R1.operand-order", f"{H.short(vcls)}.visit_{kind}", f"{kind} is built as `{T.show(t, 200)}`: must be <operator>(left, right)",
                          p.entry.get("where", ""), witness.example(kind, d))

    # ---- (2) keyword spelling ------------------------------------------------------------------------------------------
    n_reads = 0
    for vcls in (ORM, CORE):
        for kind in ("Boolean",):
            for p in H.eval_visit(vcls, kind) or []:
                for k, v in p.conds:
                    if "field(node,'val')" in k and "==" in k:
                        n_reads += 1
                        normalised = "|lower" in k or "|upper" in k or "|casefold" in k
                        ctx.check(normalised, "R2.keyword-case-normalised", f"{kind}.val",
                                  f"the text of a {kind} literal keeps the case the user typed, but the handler decides on `{k}` (case-sensitive): "
                                  "`TRUE` is translated as false", p.entry.get("where", ""), "flag eq TRUE")
                    elif "prop(node,'py_val')" in k:
                        n_reads += 1
                        ctx.ok("R2.keyword-case-normalised", f"{kind}.py_val", "delegates to py_val (case-insensitive, C19)")
                if p.outcome == "return" and "py_val" in repr(p.value):
                    n_reads += 1
    ctx.floor("case-variant literal reads", n_reads, 1)

    # ---- (3) substring family ---------------------------------------------------------------------------------------------
    for f in ("contains", "startswith", "endswith"):
        for vcls in (ORM,):
            hn = "func_" + f
            r = repo.lookup_method(vcls, hn)
            if r is None:
                continue
            hci, fn = r
            interp = env.interp(opaque_funcs=(env.func_q("odata_query.typing", "typecheck"),))

            def setup(it, hci=hci, fn=fn, vcls=vcls):
                a = [NodeV("args[0]", env.kindflow.expr_kinds), NodeV("args[1]", env.kindflow.expr_kinds)]
                it._cur_args = a
                return hci.module, fn, [ObjV(vcls, {}, "self")] + a, {}, hci.qual

            for p in interp.explore(setup):
                if p.outcome != "return":
                    continue
                check_arguments_influence(ctx, "R3.result-depends-on-operands", hn, p, env.schema, hci.module.loc(fn),
                                          f"{f}(content, '') on a row whose content is NULL")
                t = T.norm(p.value)
                checks = {getattr(ev.data["args"][0], "path", "?") for ev in p.events if ev.kind == "call_repo_func" and ev.data["func"].endswith("typecheck")}
                ctx.check({"args[0]", "args[1]"} <= checks, "R3.substring-typechecks", hn, f"{f}: both operands must be type-checked before the operator is built",
                          hci.module.loc(fn), f"{f}(name, 5)")
                ok_shape = t[0] == "call" and t[1][0] == "attr" and t[1][2] == f and _is_arg(t[1][1], 0) and len(t[2]) == 1 and _is_arg(t[2][0], 1)
                if not ok_shape:
                    raise AnalysisError(f"the SQLAlchemy form `{T.show(t)}` of {f} is unknown to the meaning table", hci.module.loc(fn))
                kw = dict(t[3]) if len(t) > 3 else {}
                escaped = kw.get("autoescape") == ("const", True) or "escape" in kw
                ctx.check(escaped, "R3.substring-escape-discipline", hn,
                          f"{f} is built as `{T.show(t)}`: without autoescape=True (or escape=...) the characters % and _ of the searched text act as "
                          "wildcards", hci.module.loc(fn), f"{f}(title, 'a%b')  (must not match 'aXb')")

    # ---- (4) function table -------------------------------------------------------------------------------------------------
    n_fn = 0
    for hn in sorted(H.func_handlers(ORM)):
        for f in H.functions_for_handler(ORM, hn):
            if "." in f or f in ("contains", "startswith", "endswith"):
                continue
            lo, hi = H.table[f]
            for n in range(lo, hi + 1):
                for p in H.eval_func(ORM, hn, n):
                    if p.outcome != "return":
                        continue
                    n_fn += 1
                    check_arguments_influence(ctx, "R4.result-depends-on-operands", f"{hn}/{n}", p, env.schema, p.entry.get("where", ""))
                    t = T.norm(p.value)
                    problem = _check_function(f, n, t)
                    if problem == "UNKNOWN":
                        raise AnalysisError(f"the SQLAlchemy form `{T.show(t)}` of {f}/{n} is unknown to the meaning table (sa/props/c03.py)",
                                            p.entry.get("where", ""))
                    ctx.check(problem is None, "R4.function-meaning", f"{hn}|{f}/{n}", f"{f}: built as `{T.show(t)}`: {problem}", p.entry.get("where", ""),
                              witness.call_example(f) + ("" if O.ODATA_FUNCTION_RETURN.get(f) == "Boolean" else " eq 1"))
    ctx.floor("function handler paths", n_fn, 18)

    # ---- (4b) result types of the backend's own SQL functions ------------------------------------------------------------------
    # SQLAlchemy chooses operators from operand types (String + x -> ||, Integer + x -> +): a function class that declares the
    # wrong result type changes what `substring(..) add 'x'` or `indexof(..) add 1` compile to
    n_ft = 0
    for q, ci in sorted(repo.classes.items()):
        if not q.startswith("odata_query.sqlalchemy") or not any(b.endswith("GenericFunction") for b in repo.mro(q)[1:]):
            continue
        fam = SQL_FUNCTION_RESULT.get(ci.name)
        if fam is None:
            continue
        tv = None
        for st in ci.node.body:
            if isinstance(st, ast.Assign) and len(st.targets) == 1 and isinstance(st.targets[0], ast.Name) and st.targets[0].id == "type":
                tv = st.value
        if tv is None:
            continue
        n_ft += 1
        try:
            folded = repo.fold(ci.module, tv.func if isinstance(tv, ast.Call) else tv)
        except Exception:
            folded = None
        if folded is None and isinstance(tv, ast.Name) and tv.id in ci.module.assigns:
            v0 = ci.module.assigns[tv.id][0]
            try:
                folded = repo.fold(ci.module, v0.func if isinstance(v0, ast.Call) else v0)
            except Exception:
                folded = None
        tname = getattr(folded, "qual", "").rsplit(".", 1)[-1] if folded is not None else None
        if tname is None:
            raise AnalysisError(f"result type of SQL function class {ci.name} cannot be determined", ci.module.loc(tv))
        ctx.check(tname in fam, "R4.sql-function-result-type", ci.name,
                  f"{ci.name}(...) declares result type {tname}; {ci.name.upper()} yields {' or '.join(sorted(fam))}: operators applied to it are chosen for the wrong type",
                  ci.module.loc(tv), "concat(substring(name, 1), 'x') eq 'ax'" if "String" in fam else "indexof(name, 'a') add 1 eq 2")
    ctx.floor("SQL function classes with a typed result", n_ft, 9)

    # ---- (5) ORM / Core agreement ------------------------------------------------------------------------------------------
    names = set(repo.all_method_names(ORM)) | set(repo.all_method_names(CORE))
    n_pairs = 0
    for name in sorted(names):
        if not (name.startswith("visit_") or name.startswith("func_") or name.startswith("_")) or name in RESOLUTION_HANDLERS or name.startswith("__"):
            continue
        a, b = repo.lookup_method(ORM, name), repo.lookup_method(CORE, name)
        if a is None and b is None:
            continue
        n_pairs += 1
        same = a is not None and b is not None and a[0].qual == b[0].qual and a[1] is b[1]
        if name.startswith("_"):
            continue  # private helpers / hooks may differ per flavour; what they do to the public handlers is compared below
        if not same and a is not None and b is not None:
            # different code for the two flavours: acceptable only if it builds the same constructs on every path
            same = _same_results(H, name, ORM, CORE)
        ctx.check(same, "R5.orm-core-same-handler", name,
                  f"{name} resolves to {a[0].qual if a else 'nothing'} for the ORM visitor and {b[0].qual if b else 'nothing'} for the Core visitor "
                  "and the two build different constructs: the entry styles can now translate the same filter differently",
                  (a or b)[0].module.loc((a or b)[1]))
    # shared handlers can still behave differently through an overridden private hook: compare what they build
    n_cmp = 0
    for name in sorted(names):
        if name in RESOLUTION_HANDLERS or name.startswith("_") or not (name.startswith("visit_") or name.startswith("func_")):
            continue
        a, b = repo.lookup_method(ORM, name), repo.lookup_method(CORE, name)
        if a is None or b is None or not (a[0].qual == b[0].qual and a[1] is b[1]):
            continue
        n_cmp += 1
        ctx.check(_same_results(H, name, ORM, CORE), "R5.orm-core-same-result", name,
                  f"{name} is shared by both visitors but builds different constructs for ORM and Core (an overridden helper changes it)",
                  a[0].module.loc(a[1]))
    ctx.floor("shared handlers compared by result", n_cmp, 40)
    ctx.floor("sibling handler pairs", n_pairs, 50)
    # both visit_Compare: op(left, right) from the same children; ORM may substitute foreign keys on both operands
    for d in ("Eq", "Lt", "In"):
        shapes = {}
        for vcls in (ORM, CORE):
            outs = set()
            for p in H.eval_visit(vcls, "Compare", d) or []:
                if p.outcome != "return":
                    continue
                t = T.norm(p.value)
                node = p.entry["args"][1] if len(p.entry.get("args", [])) > 1 else None
                left = node.fields.get("left") if isinstance(node, NodeV) else None
                if isinstance(left, NodeV) and left.kinds == {"Null"} and d in ("Eq", "NotEq"):
                    continue  # `null eq x` is legitimately built as x == null(); checked by rule 6
                if t[0] == "call" and T.is_visit(t[1], "node.comparator") and len(t[2]) == 2:
                    outs.add((_mentions(t[2][0], "node.left") and not _mentions(t[2][0], "node.right"),
                              _mentions(t[2][1], "node.right") and not _mentions(t[2][1], "node.left")))
                else:
                    outs.add(("other", T.show(t, 80)))
            shapes[vcls] = outs
        ctx.check(shapes[ORM] == shapes[CORE] == {(True, True)}, "R5.orm-core-compare-agree", f"Compare[{d}]",
                  f"visit_Compare of ORM and Core must both build comparator(left, right); shapes: ORM {shapes[ORM]}, Core {shapes[CORE]}",
                  repo.classes[ORM].module.rel, witness.example("Compare", d))

    # ---- (6) null on either side ----------------------------------------------------------------------------------------------
    for vcls in (ORM, CORE):
        for d in ("Eq", "NotEq"):
            # evaluated for exactly the trees whose left operand is the null literal (a handler that never asks is still decided)
            n_ret = 0
            for p in H.eval_visit(vcls, "Compare", d, fields={"left": {"Null"}}) or []:
                if p.outcome != "return":
                    q = p.value.args[0].qual if isinstance(p.value, Sym) and p.value.op == "exc" and isinstance(p.value.args[0], RefV) else ""
                    if q.startswith("builtins.") and q != "builtins.NotImplementedError":
                        n_ret += 1
                        ctx.fail("R6.null-on-the-left", f"{H.short(vcls)}|Compare[{d}]", f"`null {O.OPERATOR_KEYWORD[d]} x` ends in {q.split('.')[-1]} "
                                 f"at {p.where} instead of a translation or a refusal", p.entry.get("where", ""), f"null {O.OPERATOR_KEYWORD[d]} a")
                    continue
                n_ret += 1
                t = T.norm(p.value)
                swapped = t[0] == "call" and T.is_visit(t[1], "node.comparator") and len(t[2]) == 2 and \
                    _mentions(t[2][1], "node.left") and not _mentions(t[2][0], "node.left")
                handled = swapped or "is_" in repr(t) or "isnot" in repr(t) or "is_not" in repr(t)
                ctx.check(handled, "R6.null-on-the-left", f"{H.short(vcls)}|Compare[{d}]",
                          f"`null {O.OPERATOR_KEYWORD[d]} x` is built as `{T.show(t, 120)}` with null() as the left operand: SQLAlchemy renders "
                          f"`NULL {'=' if d == 'Eq' else '!='} x`, which is never true (only a null on the right becomes IS [NOT] NULL)",
                          p.entry.get("where", ""), f"null {O.OPERATOR_KEYWORD[d]} a")
            ctx.floor(f"{H.short(vcls)} Compare[{d}] with null on the left: decided paths", n_ret, 1)
    ctx.assume("what the compiled statements return on SQLite and run-time equality of the three entry styles are not decided")
    ctx.trust("meaning table: operator.eq/ne/..., ColumnOperators.in_/contains/startswith/endswith(autoescape=), strpos 1-based, substr 1-based")


def _mentions(t, path: str) -> bool:
    return any(T.is_visit(x, path) for x, _ in T.walk(t))


def _fname(t) -> Optional[str]:
    if t[0] == "call" and t[1][0] == "ref":
        return T.short(t[1][1])
    return None


def _check_function(f: str, n: int, t) -> Optional[str]:
    name = _fname(t)
    if f in EXTRACT:
        if name != "extract":
            return "UNKNOWN"
        a = t[2]
        if len(a) != 2 or a[0][0] != "const":
            return "UNKNOWN"
        if a[0][1] != EXTRACT[f]:
            return f"extract({a[0][1]!r}, ..): {f}() needs the part {EXTRACT[f]!r}"
        return None if _is_arg(a[1], 0) else "the value (argument 0) must be the second argument of extract"
    if f in UNARY:
        if name is None:
            return "UNKNOWN"
        if name not in UNARY[f]:
            every = set().union(*UNARY.values())
            return f"{f} is translated with {name}; expected {sorted(UNARY[f])}" if name in every else "UNKNOWN"
        return None if len(t[2]) == 1 and _is_arg(t[2][0], 0) else f"{name} must be applied to argument 0"
    if f == "trim":
        if name in ("ltrim", "rtrim") and len(t[2]) == 1:
            inner = t[2][0]
            iname = _fname(inner)
            if iname in ("ltrim", "rtrim") and iname != name and len(inner[2]) == 1 and _is_arg(inner[2][0], 0):
                return None
            return "trim must strip both sides: ltrim(rtrim(x))"
        if name == "trim" and len(t[2]) == 1 and _is_arg(t[2][0], 0):
            return None
        return "UNKNOWN"
    if f in ("date", "time"):
        if name == "cast" and len(t[2]) == 2 and _is_arg(t[2][0], 0) and t[2][1][0] == "ref":
            want = "Date" if f == "date" else "Time"
            return None if T.short(t[2][1][1]) == want else f"cast to {T.short(t[2][1][1])}; {f}() needs {want}"
        return "UNKNOWN"
    if f == "now":
        return None if name == "now" and not t[2] else "UNKNOWN"
    if f == "concat":
        if name == "concat":
            args = t[2]
            if len(args) == 1 and args[0][0] == "star":
                items = [x for x in args[0][1][1:] if isinstance(x, tuple)]
                return None if len(items) == n and all(_is_arg(x, i) for i, x in enumerate(items)) else "arguments are concatenated out of order"
            return None if len(args) == n and all(_is_arg(x, i) for i, x in enumerate(args)) else "arguments are concatenated out of order"
        return "UNKNOWN"
    if f == "indexof":
        if t[0] == "binop" and _fname(t[2]) in ("strpos", "instr"):
            inner = t[2]
            if not (len(inner[2]) == 2 and _is_arg(inner[2][0], 0) and _is_arg(inner[2][1], 1)):
                return "strpos(haystack, needle): argument 0 of indexof is the searched string, argument 1 the substring"
            if t[1] == "-" and t[3] == ("const", 1):
                return None
            return f"the 1-based position is shifted by `{t[1]} {t[3][1] if t[3][0] == 'const' else '?'}`; OData's indexof is 0-based: `- 1`"
        if name in ("strpos", "instr"):
            return "the 1-based position is returned unshifted; OData's indexof is 0-based: `- 1`"
        return "UNKNOWN"
    if f == "substring":
        if name not in ("substr", "substring"):
            return "UNKNOWN"
        a = t[2]
        if len(a) != n:
            return f"{name} receives {len(a)} arguments for substring/{n}"
        if not _is_arg(a[0], 0):
            return "the string (argument 0) must come first"
        st = a[1]
        if not (st[0] == "binop" and st[1] == "+" and _is_arg(st[2], 1) and st[3] == ("const", 1)):
            return f"start position is `{T.show(st)}`; OData is 0-based, substr 1-based: `<index> + 1`"
        if n == 3 and not _is_arg(a[2], 2):
            return "the length (argument 2) must be passed unchanged"
        return None
    if f == "matchesPattern":
        if t[0] == "call" and t[1][0] == "attr" and t[1][2] == "regexp_match" and _is_arg(t[1][1], 0) and len(t[2]) == 1 and _is_arg(t[2][0], 1):
            return None
        return "UNKNOWN"
    return "UNKNOWN"


def _same_results(H, name: str, orm: str, core: str) -> bool:
    """Do the two visitors build the same constructs (per path condition) in this handler? Visitor labels are erased."""
    import re as _re

    def results(vcls):
        out = set()
        if name.startswith("visit_"):
            kind = name[len("visit_"):]
            cases = [(k, d) for (k, d) in H.kind_cases() if k == kind]
            paths = []
            for k, d in cases:
                paths += [(d, p) for p in (H.eval_visit(vcls, k, d) or [])]
        else:
            paths = []
            funcs = H.functions_for_handler(vcls, name)
            counts = set()
            for f in funcs:
                lo, hi = H.table[f]
                counts |= set(range(lo, hi + 1))
            for n in sorted(counts):
                paths += [(n, p) for p in H.eval_func(vcls, name, n)]
        for tag, p in paths:
            v = repr(T.norm(p.value)) if p.outcome == "return" else repr(p.value)
            text = f"{tag}|{p.outcome}|{p.cond_str()}|{v}"
            text = _re.sub(r"AstToSqlAlchemy(Orm|Core)Visitor", "V", text)
            out.add(text)
        return out

    return results(orm) == results(core)
