"""C08 - ORM back ends pass every filter value to the database as a bound parameter."""
from __future__ import annotations

import ast
from typing import Any, Dict, List, Optional, Set, Tuple

from .. import heval, termrules as T
from ..report import AnalysisError, Ctx
from ..values import AbsList, FuncV, NodeV, RefV, Sym

EXPLANATION = (
    "Taint analysis over the constructor terms the Django and SQLAlchemy (ORM, Core) visitors build. Every handler is "
    "evaluated by the abstract interpreter (per node kind, per function and argument count); sources are every read of "
    "a literal node's value (.val, .py_val, .wkt()) - booleans and null are finite keywords and exempt, as the property "
    "says; each occurrence in a returned term must sit directly in the value position of a binding constructor (Django "
    "Value / GEOSGeometry / the value side of Q(**{lookup: value}); SQLAlchemy literal / bindparam), and never under a "
    "text sink (text, literal_column, column, RawSQL, extra, F, a lookup/keyword name, an annotation alias, a Func "
    "template) or inside string formatting that reaches one. Exception arguments and comparisons are non-SQL uses. The "
    "one place that unwraps a value (annotation names) is accepted only while its call sites stay the ones shown to be "
    "unreachable with a value on the installed Django."
)
RULE_TEXT = "one obligation per (handler, literal source) flow"

BINDING = {"Value", "literal", "bindparam", "GEOSGeometry"}
TEXT_SINKS = {"text", "literal_column", "column", "RawSQL", "F", "OuterRef", "extra", "TextClause", "Func", "table", "Subquery"}
NAME_POSITION = {"extract": 0, "Extract": 1}  # constructor -> index of the argument that is SQL text (a field/part name)
EXEMPT_KINDS = {"Boolean", "Null"}
SOURCE_ATTRS = {"val", "py_val", "wkt"}


def _find(root: Any, path: str) -> Optional[NodeV]:
    if not isinstance(root, NodeV):
        return None
    if root.path == path:
        return root
    for v in root.fields.values():
        if isinstance(v, NodeV):
            r = _find(v, path)
            if r is not None:
                return r
        elem = getattr(v, "elem", None)
        if isinstance(elem, NodeV):
            r = _find(elem, path)
            if r is not None:
                return r
            for it in getattr(v, "_items", {}).values() if hasattr(v, "_items") else []:
                r = _find(it, path)
                if r is not None:
                    return r
    return None


def run(ctx: Ctx, env):
    H = heval.get(env)
    schema = env.schema
    literal_kinds = {k for k in schema.concrete() if schema.is_sub(k, "_Literal")} - EXEMPT_KINDS
    orm = [v for v in H.visitors() if "django" in v or "sqlalchemy" in v]
    ctx.floor("ORM visitors", len(orm), 3)
    _annotation_names(ctx, env)  # syntactic; first, so that it is decided even when the evaluation below cannot finish
    # the package's own Django lookup compiles to SQL text + parameters: every operand's parameters must stay parameters
    from .c02 import check_notequal_lookup
    check_notequal_lookup(ctx, env, "R1.custom-lookup-keeps-parameters")
    for vcls in orm:
        vs = H.short(vcls)
        n_flows = 0
        n_lit_handlers = 0
        paths: List[Tuple[str, Any]] = []
        for (k, d) in H.kind_cases():
            ps = H.eval_visit(vcls, k, d) or []
            if k in literal_kinds and ps:
                n_lit_handlers += 1
            paths += [(k + (f"[{d}]" if d else ""), p) for p in ps]
        for hn in H.func_handlers(vcls):
            funcs = H.functions_for_handler(vcls, hn)
            counts: Set[int] = set()
            for f in funcs:
                lo, hi = H.table[f]
                counts |= set(range(lo, hi + 1))
            for n in sorted(counts):
                paths += [(f"{hn}/{n}", p) for p in H.eval_func(vcls, hn, n)]
        # operator handlers hand back a callable (lambda a, b: a.in_(b), operator.add, ...): apply it to opaque operands so that
        # what it builds is inspected as well
        applied: List[Tuple[str, Any]] = []
        for label, p in paths:
            if p.outcome == "return" and isinstance(p.value, FuncV):
                it2 = env.interp()
                fv = p.value

                def setup2(it_, fv=fv):
                    rhs = AbsList(Sym("call", RefV("sqlalchemy.sql.expression.BindParameter"), (), ()), 0)
                    return fv.module, _APPLY, [fv, Sym("operand", "left"), rhs], {}, None

                try:
                    for q2 in it2.explore(setup2, max_paths=500):
                        q2.entry["handler"] = p.entry.get("handler", "?")
                        q2.entry["where"] = p.entry.get("where", "")
                        applied.append((label + "()", q2))
                except AnalysisError:
                    raise
        # a translated operand stays wrapped: reading `.value` off the translation of an argument takes a bound Value apart, and what
        # is done with the bare Python value afterwards (a str handed to a Django Func is a column reference) is no longer a parameter
        for label, p in paths:
            if p.outcome != "return" or "/" not in label:  # function handlers (label `<handler>/<n args>`): their operands are values, not paths
                continue
            r0 = repr(p.value)
            if "attr(visit(" in r0 and ",'value')" in r0:
                import re as _re
                m0 = _re.search(r"attr\(visit\([^()]*(?:\([^()]*\))?[^()]*\),'value'\)", r0)
                if m0:
                    ho = ".".join(p.entry.get("handler", "?").rsplit(".", 2)[-2:])
                    ctx.fail("R1.translated-operand-stays-wrapped", f"{ho}|value",
                             f"[{vs}] {label}: uses `{m0.group(0)[:80]}` - the Python value inside an already translated operand - to build the result "
                             f"`{T.show(T.norm(p.value), 120)}`: the literal is no longer passed as the bound Value it was translated to",
                             p.entry.get("where", ""), "title eq tolower('content')")
        for label, p in paths + applied:
            if p.outcome != "return":
                continue
            term0 = T.norm(p.value)
            for sub0, _par in T.walk(term0):
                if isinstance(sub0, tuple) and sub0 and sub0[0] == "call" and isinstance(sub0[1], tuple) and sub0[1][0] == "ref":
                    nm = T.short(sub0[1][1])
                    kw0 = dict(sub0[3]) if len(sub0) > 3 and sub0[3] else {}
                    if nm in ("bindparam", "literal", "BindParameter") and kw0.get("literal_execute") not in (None, ("const", False), ("const", None)):
                        ho = ".".join(p.entry.get("handler", "?").rsplit(".", 2)[-2:])
                        ctx.fail("R1.no-inlining-construct", f"{ho}|{nm}|literal_execute",
                                 f"[{vs}] {label}: builds {nm}(..., literal_execute=True): SQLAlchemy renders such a parameter into the statement text "
                                 "at execution time, so filter values end up in the SQL string", p.entry.get("where", ""),
                                 "id in (1, 2, ..., 501)  vs  id in (2, 3, ..., 502)")
                    if nm in ("bindparam", "BindParameter") and len(sub0[2]) >= 1 and sub0[2][0][0] == "const" and isinstance(sub0[2][0][1], str) \
                            and kw0.get("unique") not in (("const", True),):
                        # a fixed parameter name without unique=True: two such parameters in one statement are one parameter (last value wins)
                        ho = ".".join(p.entry.get("handler", "?").rsplit(".", 2)[-2:])
                        ctx.fail("R1.one-parameter-per-value", f"{ho}|{nm}|{sub0[2][0][1]}",
                                 f"[{vs}] {label}: binds the value as bindparam({sub0[2][0][1]!r}, ...) - a fixed name without unique=True: SQLAlchemy merges "
                                 "same-named parameters when it compiles, so of two literals in one filter only the last value is sent",
                                 p.entry.get("where", ""), "score gt 0.5 and score lt 1.5")
        for label, p in paths:
            if p.outcome != "return":
                continue
            handler_q = p.entry.get("handler", "?")
            owner_short = ".".join(handler_q.rsplit(".", 2)[-2:])
            roots = p.entry.get("args", [])
            term = T.norm(p.value)
            for sub, parents in T.walk(term):
                if not (isinstance(sub, tuple) and sub and sub[0] in ("prop", "field", "meth") and sub[2] in SOURCE_ATTRS):
                    continue
                node = None
                for r in roots:
                    node = _find(r, sub[1])
                    if node is not None:
                        break
                kinds = set(node.kinds) if node is not None else set()
                if not (kinds & literal_kinds):
                    continue
                n_flows += 1
                verdict, why = _classify(sub, parents)
                key = f"{owner_short}|{sub[1].split('.')[0].split('[')[0]}.{sub[2]}"
                where = p.entry.get("where", "")
                if verdict == "unknown":
                    raise AnalysisError(f"{vs}.{label}: literal value {sub[1]}.{sub[2]} flows into {why}, which is unknown to the binding oracle",
                                        where)
                ctx.check(verdict == "bound", "R1.value-is-bound", key,
                          f"[{vs}] {label}: the literal's value ({sub[1]}.{sub[2]}, kinds {sorted(kinds & literal_kinds)[:4]}) {why} in `{T.show(term)}`",
                          where, "name eq 'x'  vs  name eq 'y'  (compiled SQL must be identical)")
        ctx.floor(f"{vs}: literal handlers", n_lit_handlers, 8)
        ctx.floor(f"{vs}: literal value flows", n_flows, 8)
        ctx.analysed[f"{vs}.flows"] = n_flows

    ctx.trust("Django Value / GEOSGeometry-as-lookup-value / Q(**{lookup: value}) and SQLAlchemy literal / bindparam produce bound parameters")


def _classify(sub, parents) -> Tuple[str, str]:
    """('bound'|'text'|'unknown', explanation)"""
    inside_str = False
    for anc in reversed(parents):
        if not isinstance(anc, tuple) or not anc:
            continue
        if anc[0] == "str":
            inside_str = True
            continue
        if anc[0] == "exc":
            return "bound", "is only an exception argument"
        if anc[0] == "call":
            name = T.short(anc[1][1]) if isinstance(anc[1], tuple) and anc[1][0] == "ref" else None
            if name is None:
                # method call on a built expression, e.g. x.in_(...), col.contains(v): the value must already be wrapped
                return "text", "is passed unwrapped to a method of an expression object"
            if name in BINDING:
                kw = dict(anc[3]) if len(anc) > 3 and anc[3] else {}
                if name in ("bindparam", "literal") and kw.get("literal_execute") not in (None, ("const", False), ("const", None)):
                    return "text", f"is the value of {name}(..., literal_execute=True): SQLAlchemy renders it into the statement text at execution time"
                return "bound", f"is the value of {name}(...)"
            if name in TEXT_SINKS:
                return "text", f"is spliced into SQL text through {name}(...)"
            if name in NAME_POSITION:
                idx = NAME_POSITION[name]
                args = anc[2]
                if idx < len(args) and _contains(args[idx], sub):
                    return "text", f"is used as the part/field name of {name}(...)"
            if name == "Q":
                return "bound", "is the value side of Q(**{lookup: value})"
            return "unknown", f"{name}(...)"
        if anc[0] in ("dict",):
            # value or key of a keyword dictionary
            for k, v in anc[2]:
                if _contains(k, sub):
                    return "text", "becomes a lookup/keyword name"
            continue
        if anc[0] in ("binop",):
            return "text" if inside_str else "unknown", "an arithmetic expression on the raw value"
    if inside_str:
        return "text", "is formatted into a string that is returned as SQL"
    return "text", "is returned without being wrapped in a binding constructor"


def _contains(t, sub) -> bool:
    return any(x is sub or x == sub for x, _ in T.walk(t))


def _annotation_names(ctx: Ctx, env):
    """_gen_annotation_name turns an expression (possibly a Value) into an annotation alias, i.e. SQL text.
    Its only entry is _attempt_keywordify; that must stay reachable only (a) behind the `if not DJANGO_LT_4: return`
    guard, or (b) with a lambda owner, whose kinds the parser restricts to identifiers/paths (-> F(...), never a Value)."""
    repo = env.repo
    dq = "odata_query.django.django_q.AstToDjangoQVisitor"
    ci = repo.classes.get(dq)
    if ci is None:
        return
    m = ci.module
    unwrap = [n for n, fn in ci.methods.items()
              if any(isinstance(x, ast.Attribute) and x.attr == "value" and isinstance(x.ctx, ast.Load) and
                     isinstance(x.value, ast.Name) and x.value.id != "self" for x in ast.walk(fn))
              and any(isinstance(x, ast.Call) and isinstance(x.func, ast.Name) and x.func.id == "str" for x in ast.walk(fn))]
    if not unwrap:
        ctx.ok("R2.annotation-alias-free-of-values", "none", "no helper turns a wrapped value into text")
        return
    lt4 = None
    try:
        lt4 = repo.fold(m, ast.Name(id="DJANGO_LT_4", ctx=ast.Load()))
    except Exception:
        pass
    ctx.analysed["DJANGO_LT_4"] = lt4
    owner_kinds = env.kindflow.kinds.desc("CollectionLambda", None, "owner")
    # private helpers that reach an unwrapping helper through an *unguarded* call
    entry = set(unwrap)
    changed = True
    while changed:
        changed = False
        for n, fn in ci.methods.items():
            if n in entry or not n.startswith("_"):
                continue
            for x in ast.walk(fn):
                if isinstance(x, ast.Call) and isinstance(x.func, ast.Attribute) and isinstance(x.func.value, ast.Name) \
                        and x.func.value.id == "self" and x.func.attr in entry:
                    if not (_guarded_by_lt4(fn, x, repo, m) and lt4 is False):
                        entry.add(n)
                        changed = True
                        break
    for n, fn in ci.methods.items():
        for x in ast.walk(fn):
            if not (isinstance(x, ast.Call) and isinstance(x.func, ast.Attribute) and isinstance(x.func.value, ast.Name)
                    and x.func.value.id == "self" and x.func.attr in entry):
                continue
            if n in entry and n not in ("visit",):
                # internal call between the helpers: guarded by their own entry conditions
                guarded = _guarded_by_lt4(fn, x, repo, m) and lt4 is False
                if guarded or n in unwrap:
                    continue
                if _first_arg_is(x, "node.lhs") or _first_arg_is(x, "node.rhs"):
                    ctx.check(_guarded_by_lt4(fn, x, repo, m) and lt4 is False, "R2.annotation-alias-free-of-values", f"{n}->{x.func.attr}",
                              "a value-bearing expression can reach the annotation-name helper", m.loc(x))
                continue
            arg = ast.unparse(x.args[0]) if x.args else ""
            if arg == "node.owner" and n == "visit_CollectionLambda" and owner_kinds is not None and owner_kinds.kinds <= {"Identifier", "Attribute"}:
                ctx.ok("R2.annotation-alias-free-of-values", f"{n}->{x.func.attr}", "argument is a lambda owner: identifiers/paths only (Core F)")
                continue
            if _guarded_by_lt4(fn, x, repo, m) and lt4 is False:
                ctx.ok("R2.annotation-alias-free-of-values", f"{n}->{x.func.attr}", "behind `if not DJANGO_LT_4: return`; installed Django >= 4")
                continue
            ctx.fail("R2.annotation-alias-free-of-values", f"{n}->{x.func.attr}",
                     f"{n} calls {x.func.attr}({arg}): expressions containing literal values can now be turned into an annotation alias (SQL text)",
                     m.loc(x), "length('abc') eq 3")


def _first_arg_is(call: ast.Call, text: str) -> bool:
    return bool(call.args) and ast.unparse(call.args[0]) == text


def _guarded_by_lt4(fn: ast.FunctionDef, call: ast.Call, repo=None, m=None) -> bool:
    """Is the call unreachable with the installed Django: preceded, at the top level of fn, by an `if` whose test folds to
    True and whose body leaves the function, or nested under an `if` whose test folds to False?"""
    def folds_to(test, want: bool) -> bool:
        if repo is None:
            return ast.unparse(test) == ("not DJANGO_LT_4" if want else "DJANGO_LT_4")
        try:
            v = repo.fold(m, test)
        except Exception:
            return False
        return isinstance(v, bool) and v is want

    for st in fn.body:
        if st.lineno >= call.lineno:
            break
        if isinstance(st, ast.If) and st.body and isinstance(st.body[-1], (ast.Return, ast.Raise)) and folds_to(st.test, True):
            return True
    for n in ast.walk(fn):
        if isinstance(n, ast.If) and folds_to(n.test, False):
            if any(x is call for b in n.body for x in ast.walk(b)):
                return True
    return False


_APPLY = ast.parse("def __apply__(f, a, b):\n    return f(a, b)\n").body[0]
