"""Helpers shared by the property rule sets."""
from __future__ import annotations

import ast

import re
from typing import Any, Dict, List, Optional

from ..interp import Interp
from ..report import AnalysisError
from ..values import AbsList, AltV, Const, ListV, MapV, NewNode, NodeV, ObjV, PyList, PyTuple, RefV, Str, Sym, V

_SYM = re.compile(r"^p\[(\d+)\]")


def grammar_module(env):
    m = env.repo.modules.get("odata_query.grammar")
    if m is None:
        raise AnalysisError("odata_query/grammar.py not found")
    return m


def sym_index(v: Any) -> Optional[int]:
    """Index of the production symbol a value was read from (p[i], p[i].x, p[i][*] ...)."""
    path = getattr(v, "path", None)
    if isinstance(path, str):
        m = _SYM.match(path)
        if m:
            return int(m.group(1))
    return None


def list_source_order(v: Any) -> Optional[List[int]]:
    """Symbol indices, in list order, of the items of a list value built by a grammar action."""
    if isinstance(v, PyList):
        out: List[int] = []
        for it in v.items:
            i = sym_index(it)
            if i is None:
                return None
            out.append(i)
        for over, per in v.loop_parts:
            o = list_source_order(over)
            if o is None:
                return None
            out.extend(o)
        return out
    if isinstance(v, ListV):
        i = sym_index(v)
        return None if i is None else [i]
    if isinstance(v, AbsList):
        order = getattr(v, "order", None)
        if order is None or any(not isinstance(x, int) for x in order):
            return None
        return list(order)
    return None


def exception_fields(env, exc: V) -> Dict[str, Any]:
    """Evaluate the exception class's __init__ on the given arguments and return the attributes it
    stores (constants as Python values, everything else as repr)."""
    if not (isinstance(exc, Sym) and exc.op == "exc" and isinstance(exc.args[0], RefV)):
        return {}
    q = exc.args[0].qual
    args = list(exc.args[1])
    kwargs = dict(exc.args[2]) if len(exc.args) > 2 else {}
    repo = env.repo
    r = repo.lookup_method(q, "__init__") if q in repo.classes else None
    if r is None:
        return {"args": [_plain(a) for a in args]}
    ci, fn = r
    interp = Interp(repo, env.schema)
    holder: Dict[str, Any] = {}

    def setup(it):
        obj = ObjV(q, {}, "exc")
        holder["obj"] = obj
        return ci.module, fn, [obj] + args, kwargs, ci.qual

    res = interp.explore(setup)
    if not res:
        return {}
    # properties of the exception class: what a caller reads is the getter's result
    props = []
    for cq in repo.mro(q):
        cinfo = repo.classes.get(cq)
        if cinfo is None:
            continue
        for n, d in cinfo.all_defs:
            if isinstance(d, (ast.FunctionDef, ast.AsyncFunctionDef)) and any(ast.unparse(x) == "property" for x in d.decorator_list) and n not in props:
                props.append(n)
    # all paths must agree on the stored attributes
    out: Optional[Dict[str, Any]] = None
    for path in res:
        attrs = {}
        for ev in path.events:
            if ev.kind == "store_attr" and ev.data.get("obj") == "exc":
                attrs[ev.data["attr"]] = _plain(ev.data["value"])
        if props and len(res) == 1:
            for n in props:
                try:
                    attrs[n] = _plain(interp.getattr_v(holder["obj"], n, ci.module))
                except Exception:
                    attrs[n] = "<unreadable>"
        if out is None:
            out = attrs
        else:
            for k in list(out):
                if attrs.get(k) != out[k]:
                    out[k] = "<path-dependent>"
    return out or {}


def _plain(v: Any) -> Any:
    if isinstance(v, Const):
        return v.v
    if isinstance(v, Str) and v.is_const():
        return v.const()
    return repr(v)


def make_instance(interp, env, cls: str, args: List[V], label: str = "self", kwargs: Optional[Dict[str, V]] = None) -> ObjV:
    """An instance of an in-repo class with its constructor evaluated (so attribute names are found,
    not assumed). Must be called from inside an explore() setup callback."""
    obj = ObjV(cls, {}, label)
    r = env.repo.lookup_method(cls, "__init__")
    if r is not None:
        interp.call_function(r[0].module, r[1], [obj] + list(args), dict(kwargs or {}), r[0].qual)
    return obj


def is_visit_of(v: Any, path: str) -> bool:
    return isinstance(v, Sym) and v.op == "visit" and getattr(v.args[1], "path", None) == path


def check_shared_caches(ctx, paths, rule: str, consequence: str, witness: Optional[str] = None, label: str = ""):
    """Rule shared by several properties: a store into a class-level / module-level container must be keyed by
    everything the stored value depends on (otherwise results leak between visitor instances / calls)."""
    from ..heval import cache_findings
    assumed = sorted({ev.data.get("target") for p in paths or [] for ev in p.events if ev.kind == "shared_miss_assumed"})
    for name in assumed:
        ctx.assume(f"lookups in the shared container {name} are analysed on the miss path; the cache-key rule ({rule}) is what "
                   "makes a hit return the same value")
    for key, why, where in cache_findings(paths):
        ctx.fail(rule, key, f"{label + ': ' if label else ''}{why}; {consequence}", where, witness)


def check_arguments_influence(ctx, rule: str, label: str, p, schema, where: str, witness: Optional[str] = None):
    """Necessary condition for any translation of f(a0, a1, ...): on a returning path the result mentions every argument
    that can be row-dependent on that path (a field, a path, a call, an operation). A result that is the same whatever such
    an argument evaluates to cannot be its translation."""
    from ..values import NodeV
    if p.outcome != "return":
        return
    from .. import termrules as _T
    try:
        text = repr(p.value) + " " + repr(_T.norm(p.value))
    except Exception:
        text = repr(p.value)
    for a in p.entry.get("args", []):
        if not isinstance(a, NodeV) or not a.path.startswith("args["):
            continue
        dependent = sorted(k for k in a.kinds if k != "NoneType" and not schema.is_sub(k, "_Literal"))
        if not dependent:
            continue
        occurs = any((a.path + c) in text for c in "),.'[\"")
        ctx.check(occurs, rule, f"{label}|{a.path}",
                  f"{label}: the result `{text[:120]}` does not depend on {a.path} (which can be {', '.join(dependent[:4])}...) under "
                  f"{p.cond_str()[:120]}: whatever that operand evaluates to - NULL included - the answer is the same", where, witness)


def check_node_construction(ctx, env, rule: str, consequence: str):
    """`ast.X(<values>)` must be a new X holding those values. The dataclass decorator generates __init__; what is left to check
    is that no node class resolves a hand-written __new__ that can hand back anything but a fresh instance of the class asked
    for (evaluated: every returning path must end in `super().__new__(cls)` / `object.__new__(cls)`)."""
    schema, repo = env.schema, env.repo
    n = 0
    for name, nc in schema.classes.items():
        n += 1
        r = repo.lookup_method(nc.qual, "__new__")
        if r is None:
            ctx.ok(rule, name, "no hand-written __new__", nontrivial=False)
            continue
        ci, fn = r
        params = [a.arg for a in fn.args.args[1:]]
        interp = env.interp()

        def setup(it, ci=ci, fn=fn, params=params, q=nc.qual):
            args = [RefV(q)] + [Sym("param", p) for p in params]
            return ci.module, fn, args, {}, ci.qual

        paths = interp.explore(setup)
        bad = None
        for p in paths:
            if p.outcome != "return":
                continue
            v = p.value
            fresh = isinstance(v, Sym) and v.op == "call" and isinstance(v.args[0], Sym) and v.args[0].op == "attr" and v.args[0].args[1] == "__new__" \
                and ((isinstance(v.args[0].args[0], Sym) and v.args[0].args[0].op == "super") or repr(v.args[0].args[0]) == "<builtins.object>") \
                and len(v.args[1]) >= 1 and repr(v.args[1][0]) == repr(RefV(nc.qual))
            if not fresh:
                bad = (p, v)
                break
        ctx.check(bad is None, rule, name,
                  (f"{ci.qual}.__new__ returns `{bad[1]!r:.120}` under {bad[0].cond_str()[:160]}: ast.{name}(...) is not always a new {name} "
                   f"holding the values given; {consequence}") if bad else "every path of __new__ creates a fresh instance of the class",
                  ci.module.loc(fn))
    ctx.analysed["node classes whose construction was checked"] = n


def check_fields_hold_declared_shapes(ctx, env, rule: str, consequence: str):
    """The image of the grammar's actions (which kinds of value each field of each node class can receive, computed as a
    fixpoint over all productions) against the declared shape of the field: a node field receives a node, a list field a list
    of nodes, a scalar field a scalar, and None only where the field is declared Optional. The declared *class* of the nodes is
    not compared (the unchanged tree puts arbitrary expressions into `List.val: List[_Literal]`)."""
    schema, kf = env.schema, env.kindflow
    n = 0
    for (kind, discr), fields in sorted(kf.kinds.table.items(), key=lambda kv: (kv[0][0], kv[0][1] or "")):
        nc = schema.classes.get(kind)
        if discr is not None or nc is None:
            continue
        for fname, fd in fields.items():
            fi = nc.field(fname)
            if fi is None or fi.shape == "other":
                continue
            n += 1
            key = f"{kind}.{fname}"
            where = f"{schema.module.rel}:{fi.lineno or nc.lineno}"
            if fi.shape in ("node", "optional_node", "list_node"):
                want = "list" if fi.shape == "list_node" else "node"
                foreign = sorted(k for k in fd.kinds if k not in schema.classes and not (k == "NoneType" and fi.shape == "optional_node"))
                ok = fd.shape == want and not foreign
                what = (f"a {fd.shape} where `{fi.annotation}` is declared" if fd.shape != want else
                        f"{', '.join('None' if 'none' in k.lower() else k for k in foreign)} among the {'elements' if want == 'list' else 'values'} of `{fi.annotation}`")
                ctx.check(ok, rule, key, f"the parser's actions can put {what} into {kind}.{fname}: {consequence}" if not ok else
                          f"{fd.shape} of {len(fd.kinds)} node kinds", where)
            else:
                ok = fd.shape == "scalar"
                ctx.check(ok, rule, key, f"the parser's actions can put a {fd.shape} into the scalar field {kind}.{fname} (`{fi.annotation}`): {consequence}"
                          if not ok else f"scalar {fd.pytype}", where)
    ctx.floor("node fields filled by the parser", n, 30)


MUTATORS = {"append", "extend", "insert", "add", "update", "setdefault", "pop", "popitem", "remove", "discard", "clear", "sort", "reverse", "appendleft"}


def check_mutable_defaults(ctx, env, module_prefixes, rule: str, consequence: str):
    """A parameter whose default is a list / dict / set display (or list()/dict()/set()) and that the body mutates is one object
    shared by every call that omits the argument: what one call leaves in it is seen by the next. A mutable default that is
    only read is harmless and is not reported."""
    repo = env.repo
    n = 0
    for mname, m in repo.modules.items():
        if not any(mname == p or mname.startswith(p + ".") for p in module_prefixes):
            continue
        for fn in [x for x in ast.walk(m.tree) if isinstance(x, (ast.FunctionDef, ast.AsyncFunctionDef))]:
            a = fn.args
            pos = a.posonlyargs + a.args
            pairs = list(zip(pos[len(pos) - len(a.defaults):], a.defaults)) + [(p, d) for p, d in zip(a.kwonlyargs, a.kw_defaults) if d is not None]
            for p, d in pairs:
                mutable = isinstance(d, (ast.List, ast.Dict, ast.Set, ast.ListComp, ast.DictComp, ast.SetComp)) or (
                    isinstance(d, ast.Call) and isinstance(d.func, ast.Name) and d.func.id in ("list", "dict", "set", "defaultdict", "deque", "OrderedDict"))
                if not mutable:
                    continue
                n += 1
                names = {p.arg}
                # simple aliases: x = param
                for st in ast.walk(fn):
                    if isinstance(st, ast.Assign) and isinstance(st.value, ast.Name) and st.value.id in names:
                        names |= {t.id for t in st.targets if isinstance(t, ast.Name)}
                hit = None
                for x in ast.walk(fn):
                    if isinstance(x, ast.Call) and isinstance(x.func, ast.Attribute) and x.func.attr in MUTATORS and isinstance(x.func.value, ast.Name) \
                            and x.func.value.id in names:
                        hit = x
                    elif isinstance(x, (ast.Subscript,)) and isinstance(x.ctx, (ast.Store, ast.Del)) and isinstance(x.value, ast.Name) and x.value.id in names:
                        hit = x
                    elif isinstance(x, ast.AugAssign) and isinstance(x.target, ast.Name) and x.target.id in names:
                        hit = x
                    if hit is not None:
                        break
                ctx.check(hit is None, rule, f"{mname}.{fn.name}|{p.arg}",
                          f"parameter `{p.arg}` of {fn.name} defaults to the mutable `{ast.unparse(d)}` and the body changes it "
                          f"(`{ast.unparse(hit)[:60] if hit is not None else ''}`): calls that omit the argument share one object; {consequence}",
                          m.loc(hit if hit is not None else fn))
    return n
