"""C20 - lexer and parser instances are reusable and deterministic."""
from __future__ import annotations

import ast
import importlib.util
import os
from typing import Any, Dict, List, Optional, Set, Tuple

from ..report import AnalysisError, Ctx
from ..values import AbsList, Const, NewNode, ObjV, PyList, RefV, Sym
from .common import grammar_module

EXPLANATION = (
    "Effect analysis. R1: every callback of ODataLexer/ODataParser (token actions, grammar actions per production, "
    "error hooks, helpers - evaluated by the abstract interpreter, so helper calls are followed) stores nothing on "
    "self, the class, module globals or any object not created during the current parse (allowed: the token's own "
    "value, lists created by sibling actions of the same parse); syntactically: no mutable default arguments, no "
    "global/nonlocal, no memoising decorators, no module-level mutable state written from functions. R2: lists handed "
    "to node constructors are created during the parse. R3: the installed SLY driver still resets per-call state "
    "(parse assigns fresh stacks and restarts; tokenize takes its position from its arguments) - re-read from "
    "sly/yacc.py and sly/lex.py at each run. R4: nothing in the package iterates, joins or orders a set (hash-seed "
    "dependent order). R5: AliasRewriter uses supplied lexer/parser instances exactly when given, and the truthiness "
    "test it uses is safe because neither class defines __bool__/__len__."
)
RULE_TEXT = "one obligation per callback (effects), per function (syntactic state rules), per SLY driver fact"

MEMO = {"lru_cache", "cache", "cached_property", "memoize", "memoized"}
STATE_EVENTS = {"store_global": "stores to a module/class object", "store_foreign": "stores to an object it did not create",
                "global_decl": "declares global/nonlocal"}


def run(ctx: Ctx, env):
    repo = env.repo
    g = env.grammar
    gm = grammar_module(env)
    kf = env.kindflow

    # ---- R6 nothing outside the lexer/parser reads the state SLY leaves on an instance --------------------------------------
    check_no_run_state_reads(ctx, env)

    # ---- R1 effects of callbacks ---------------------------------------------------------------------------------
    n_cb = 0

    def scan(paths, key: str):
        bad = False
        for x in paths:
            for ev in x.events:
                if ev.kind == "store_attr" and ev.data.get("obj") in ("parser", "lexer"):
                    bad = True
                    ctx.fail("R1.no-instance-state", f"{key}|self.{ev.data['attr']}",
                             f"stores self.{ev.data['attr']} on the {ev.data['obj']} instance: the next parse on the same instance sees it",
                             ev.where)
                elif ev.kind in STATE_EVENTS:
                    bad = True
                    ctx.fail("R1.no-shared-state", f"{key}|{ev.kind}|{ev.data.get('target', ev.data.get('names'))}",
                             f"{STATE_EVENTS[ev.kind]}: {ev.data}", ev.where)
                elif ev.kind == "mutate":
                    tgt = str(ev.data.get("target", ""))
                    bad = True
                    ctx.fail("R1.no-shared-state", f"{key}|mutate|{tgt[:60]}", f"mutates {tgt} ({ev.data.get('op')}), a value not created by this parse",
                             ev.where)
                elif ev.kind == "list_mutation":
                    created = ev.data.get("created_in")
                    if created in (None, "module"):
                        bad = True
                        ctx.fail("R1.no-shared-state", f"{key}|list|{str(ev.data.get('target'))[:60]}",
                                 f"mutates a list that was not created during this parse: {ev.data}", ev.where)
        return not bad

    for rule in g.rules:
        if rule.func is None:
            continue
        n_cb += 1
        if scan(kf.token_paths.get(rule.name, []), f"token:{rule.name}"):
            ctx.ok("R1.no-instance-state", f"token:{rule.name}", "no store outside the token", nontrivial=False)
    for p in g.productions:
        n_cb += 1
        if scan(kf.prod_paths.get(p.index, []), f"{p.name}|{' '.join(p.syms)}"):
            ctx.ok("R1.no-instance-state", f"{p.name}|{' '.join(p.syms)}", "no store outside the parse", nontrivial=bool(p.syms))
    ctx.floor("callbacks analysed", n_cb, 80)

    # hooks and every other method of the two classes: syntactic store scan (self.x = ..., cls state)
    for cq in (g.lexer_class, g.parser_class):
        ci = repo.classes[cq]
        for name, fn in ci.methods.items():
            selfname = fn.args.args[0].arg if fn.args.args else None
            for n in ast.walk(fn):
                if isinstance(n, (ast.Assign, ast.AugAssign, ast.AnnAssign)):
                    targets = n.targets if isinstance(n, ast.Assign) else [n.target]
                    for t in targets:
                        for tt in (t.elts if isinstance(t, (ast.Tuple, ast.List)) else [t]):
                            root = tt
                            while isinstance(root, (ast.Attribute, ast.Subscript)):
                                root = root.value
                            if isinstance(tt, (ast.Attribute, ast.Subscript)) and isinstance(root, ast.Name):
                                if root.id == selfname or root.id in (ci.name, "type", "cls") or root.id in gm.assigns:
                                    ctx.fail("R1.no-instance-state", f"{ci.name}.{name}|{ast.unparse(tt)}",
                                             f"`{ast.unparse(tt)} = ...` keeps state across calls on the instance/class/module", gm.loc(n))
                elif isinstance(n, ast.Call) and isinstance(n.func, ast.Attribute) and n.func.attr in (
                        "append", "extend", "add", "update", "setdefault", "insert", "pop", "clear", "remove", "__setitem__"):
                    root = n.func.value
                    while isinstance(root, (ast.Attribute, ast.Subscript)):
                        root = root.value
                    if isinstance(root, ast.Name) and (root.id == selfname or root.id in gm.assigns or root.id == ci.name) \
                            and not (isinstance(n.func.value, ast.Name) and n.func.value.id not in gm.assigns and n.func.value.id != selfname):
                        ctx.fail("R1.no-shared-state", f"{ci.name}.{name}|{ast.unparse(n.func)}",
                                 f"`{ast.unparse(n.func)}(...)` mutates state shared across parses", gm.loc(n))

    # ---- syntactic rules over grammar.py, rewrite.py, ast.py ------------------------------------------------------
    n_fn = 0
    scan = ["odata_query.grammar", "odata_query.rewrite", "odata_query.ast", "odata_query.utils", "odata_query.visitor"]
    # ... and the modules of the package they import (helpers moved into private modules stay in scope)
    i = 0
    while i < len(scan):
        mm = repo.modules.get(scan[i])
        i += 1
        if mm is None:
            continue
        for target in mm.imports.values():
            parts = str(target).split(".")
            for k in range(len(parts), 0, -1):
                cand = ".".join(parts[:k])
                if cand in repo.modules and cand.startswith("odata_query") and cand not in scan and \
                        not any(cand.startswith(b) for b in ("odata_query.django", "odata_query.sqlalchemy", "odata_query.sql")):
                    scan.append(cand)
                    break
    for mname in scan:
        m = repo.modules.get(mname)
        if m is None:
            continue
        for fn, owner in _functions(m):
            n_fn += 1
            key = f"{mname.rsplit('.', 1)[-1]}.{owner + '.' if owner else ''}{fn.name}"
            for d in fn.args.defaults + [d for d in fn.args.kw_defaults if d is not None]:
                if isinstance(d, (ast.List, ast.Dict, ast.Set, ast.ListComp, ast.DictComp)) or (
                        isinstance(d, ast.Call) and isinstance(d.func, ast.Name) and d.func.id in ("list", "dict", "set")):
                    ctx.fail("R1.no-mutable-default", key, f"mutable default argument `{ast.unparse(d)}` is shared between calls", m.loc(d))
            for deco in fn.decorator_list:
                t = deco.func if isinstance(deco, ast.Call) else deco
                nm = t.attr if isinstance(t, ast.Attribute) else (t.id if isinstance(t, ast.Name) else "")
                if nm in MEMO:
                    why = _memo_harmless(env, m, fn, owner)
                    ctx.check(why is None, "R1.no-memoisation", key, f"@{ast.unparse(deco)} memoises results across calls: {why}", m.loc(fn))
            for n in ast.walk(fn):
                if isinstance(n, (ast.Global, ast.Nonlocal)):
                    ctx.fail("R1.no-shared-state", f"{key}|{'global' if isinstance(n, ast.Global) else 'nonlocal'} {','.join(n.names)}",
                             "global/nonlocal state written from a function", m.loc(n))
    ctx.floor("functions scanned", n_fn, 80)
    if not any(not o.ok and o.rule.startswith("R1") for o in ctx.obligations):
        ctx.ok("R1.syntactic-state-rules", "package", f"{n_fn} functions: no mutable default, memo decorator, global/nonlocal")

    # ---- R2 lists inside nodes are created by the parse -------------------------------------------------------------
    n_lists = 0
    for p in g.productions:
        for x in kf.prod_paths.get(p.index, []):
            if x.outcome != "return" or not isinstance(x.value, NewNode):
                continue
            for fname, fv in x.value.fields.items():
                if isinstance(fv, PyList):
                    n_lists += 1
                    ctx.check(fv.created_in is not None, "R2.fresh-lists", f"{p}|{fname}", "list stored in a node was not created in an action",
                              gm.loc(p.func))
                elif isinstance(fv, Const) and isinstance(fv.v, list):
                    ctx.fail("R2.fresh-lists", f"{p}|{fname}", "a module-level/default list is stored in a node", gm.loc(p.func))
    ctx.analysed["node_lists"] = n_lists

    # ---- R3 SLY driver shape -----------------------------------------------------------------------------------------
    _check_sly(ctx)

    # ---- R4 no hash-seed dependent iteration ------------------------------------------------------------------------------
    n_sets = 0
    for m in repo.modules.values():
        setnames: Set[str] = set()
        for name, vals in m.assigns.items():
            if any(isinstance(v, (ast.Set, ast.SetComp)) or (isinstance(v, ast.Call) and isinstance(v.func, ast.Name) and v.func.id in ("set", "frozenset")) for v in vals):
                setnames.add(name)
        for ci in m.classes.values():
            for name, v in ci.assigns.items():
                if isinstance(v, (ast.Set, ast.SetComp)) or (isinstance(v, ast.Call) and isinstance(v.func, ast.Name) and v.func.id in ("set", "frozenset")):
                    setnames.add(name)
        # local names bound to a set inside a function count within that module as well (a name bound to a set anywhere)
        def _is_set_expr(v) -> bool:
            return isinstance(v, (ast.Set, ast.SetComp)) or (isinstance(v, ast.Call) and isinstance(v.func, ast.Name) and v.func.id in ("set", "frozenset")) \
                or (isinstance(v, ast.BinOp) and isinstance(v.op, (ast.BitOr, ast.BitAnd, ast.Sub, ast.BitXor)) and (_is_set_expr(v.left) or _is_set_expr(v.right)))
        for fn_ in ast.walk(m.tree):
            if isinstance(fn_, (ast.FunctionDef, ast.AsyncFunctionDef)):
                for st_ in ast.walk(fn_):
                    if isinstance(st_, ast.Assign) and _is_set_expr(st_.value):
                        setnames |= {t.id for t in st_.targets if isinstance(t, ast.Name)}
                    elif isinstance(st_, ast.AnnAssign) and st_.value is not None and _is_set_expr(st_.value) and isinstance(st_.target, ast.Name):
                        setnames.add(st_.target.id)
        n_sets += len(setnames)
        for n in ast.walk(m.tree):
            it = None
            if isinstance(n, (ast.For, ast.comprehension)):
                it = n.iter
            elif isinstance(n, ast.Call) and isinstance(n.func, ast.Attribute) and n.func.attr == "join" and n.args:
                it = n.args[0]
            elif isinstance(n, ast.Call) and isinstance(n.func, ast.Name) and n.func.id in ("list", "tuple", "next", "iter", "enumerate") and n.args:
                it = n.args[0]
            if it is None:
                continue
            is_set = isinstance(it, (ast.Set, ast.SetComp)) or \
                (isinstance(it, ast.Call) and isinstance(it.func, ast.Name) and it.func.id in ("set", "frozenset")) or \
                (isinstance(it, ast.Name) and it.id in setnames) or \
                (isinstance(it, ast.Attribute) and it.attr in setnames)
            if is_set:
                ctx.fail("R4.no-set-iteration", f"{m.name}|{ast.unparse(it)[:50]}",
                         "iterates/joins a set: the order depends on PYTHONHASHSEED", m.loc(n))
    for p in g.productions:
        for x in kf.prod_paths.get(p.index, []):
            for ev in x.events:
                if ev.kind == "iterate_set":
                    ctx.fail("R4.no-set-iteration", f"grammar|{p}", "a grammar action iterates a set", ev.where)
    if not any(not o.ok and o.rule == "R4.no-set-iteration" for o in ctx.obligations):
        ctx.ok("R4.no-set-iteration", "package", f"{n_sets} set-valued names; none is iterated, joined or listed in the package")
    ctx.assume("SLY consumes `tokens`/`literals` for membership only; table construction follows definition order and the ordered precedence tuple")

    # ---- R5 AliasRewriter instances ----------------------------------------------------------------------------------
    for cq in (g.lexer_class, g.parser_class):
        for q in repo.mro(cq):
            ci = repo.classes.get(q)
            if ci is None:
                continue
            for dunder in ("__bool__", "__len__"):
                ctx.check(dunder not in ci.methods, "R5.truthiness-safe", f"{ci.name}.{dunder}",
                          f"{ci.name} defines {dunder}: `if not lexer` style tests in AliasRewriter can discard a supplied instance",
                          ci.module.loc(ci.methods[dunder]) if dunder in ci.methods else "")
    _check_supplied_left_as_found(ctx, env)
    check_error_hook_reads_no_stale_state(ctx, env)
    ctx.trust("SLY 0.4 Lexer.tokenize / Parser.parse / Parser.restart as installed (shape re-verified on each run)")


def _check_supplied_left_as_found(ctx: Ctx, env):
    """R7: the constructor of AliasRewriter, evaluated on every path, writes nothing on the lexer/parser it was handed - or
    undoes the write in a `finally` that covers everything after it, so that an alias that fails to parse cannot leave the
    caller's instance behaving differently from a fresh one."""
    repo = env.repo
    RW = "odata_query.rewrite.AliasRewriter"
    if RW not in repo.classes:
        raise AnalysisError("odata_query.rewrite.AliasRewriter not found")
    r = repo.lookup_method(RW, "__init__")
    if r is None:
        raise AnalysisError("AliasRewriter.__init__ not found")
    ci, fn = r
    params = [a.arg for a in fn.args.args[1:]]
    supplied = [p for p in params if p in ("lexer", "parser")]
    if len(supplied) != 2:
        raise AnalysisError(f"AliasRewriter.__init__ no longer takes lexer and parser (parameters: {params})", ci.module.loc(fn))
    from ..values import ObjV, Sym
    interp = env.interp()
    paths = interp.explore(lambda it: (ci.module, fn, [ObjV(RW, {}, "self")] + [Sym("param", p) for p in params], {}, ci.qual))
    ctx.floor("AliasRewriter.__init__ paths", len(paths), 2)
    writes = {}
    for x in paths:
        for ev in x.events:
            if ev.kind in ("store_foreign", "mutate") and any(f"param('{p}')" in str(ev.data.get("target", "")) for p in supplied):
                writes.setdefault(ev.where, ev)
    # statements of the constructor, with the try/finally blocks that protect them
    protected = {}  # line -> attrs undone by a finally whose try body contains (or directly follows) the line

    def attrs_written(stmts):
        out = set()
        for st in stmts:
            for n in ast.walk(st):
                if isinstance(n, ast.Attribute) and isinstance(n.ctx, (ast.Store, ast.Del)):
                    out.add(n.attr)
                if isinstance(n, ast.Call) and isinstance(n.func, ast.Name) and n.func.id in ("setattr", "delattr") and len(n.args) >= 2 \
                        and isinstance(n.args[1], ast.Constant):
                    out.add(n.args[1].value)
        return out

    def walk_block(stmts):
        for i, st in enumerate(stmts):
            if isinstance(st, ast.Try) and st.finalbody:
                undone = attrs_written(st.finalbody)
                covered = list(st.body)
                if i > 0 and not any(isinstance(n, ast.Call) for n in ast.walk(stmts[i - 1]) if not (isinstance(n, ast.Call) and isinstance(n.func, ast.Name)
                                                                                                 and n.func.id in ("setattr", "getattr"))):
                    covered.append(stmts[i - 1])  # `x.a = v` directly before `try:` - nothing can fail in between
                for c in covered:
                    for n in ast.walk(c):
                        if hasattr(n, "lineno"):
                            protected.setdefault(n.lineno, set()).update(undone)
                for n in (y for f in st.finalbody for y in ast.walk(f)):
                    if hasattr(n, "lineno"):
                        protected.setdefault(n.lineno, set()).update(undone)
            for name in ("body", "orelse", "finalbody"):
                sub = getattr(st, name, None)
                if isinstance(sub, list) and sub and isinstance(sub[0], ast.stmt):
                    walk_block(sub)
            for h in getattr(st, "handlers", []) or []:
                walk_block(h.body)

    walk_block(fn.body)
    for where, ev in sorted(writes.items()):
        line = int(where.rsplit(":", 1)[-1]) if ":" in where else -1
        attr = ev.data.get("attr")
        undone = protected.get(line, set())
        okay = (attr in undone) if attr else bool(undone)
        ctx.check(okay, "R7.supplied-instances-left-as-found", f"__init__|{ev.data.get('target')}|{attr or ev.data.get('op')}",
                  f"the constructor writes `{attr or ev.data.get('op')}` on the {ev.data.get('target')} it was handed and no `finally` undoes it: if an alias fails "
                  "to parse, the caller's instance keeps the change and no longer behaves like a fresh one", where,
                  "AliasRewriter({'a': 'author/'}, parser=p) raises; then p.parse(...) differs from a fresh parser")
    if not writes:
        ctx.ok("R7.supplied-instances-left-as-found", "__init__", f"{len(paths)} paths: no write on the supplied lexer/parser")


def _memo_harmless(env, m, fn, owner) -> Optional[str]:
    """A memoised function is harmless when the cache key determines the result and the cached object cannot change: a
    module-level function of str/int/bool parameters, evaluated, that writes nothing and returns only immutable values
    (constants, text, tuples of those). Returns None if harmless, else the reason."""
    if owner:
        return "a method: the cache holds on to instances and is shared by all of them"
    a = fn.args
    if a.vararg or a.kwarg:
        return "variadic parameters"
    ok_ann = {"str", "int", "bool", "float", "Optional[str]", "Optional[int]"}
    for p in a.posonlyargs + a.args + a.kwonlyargs:
        if p.annotation is None or ast.unparse(p.annotation) not in ok_ann:
            return f"parameter `{p.arg}` is not declared as an immutable scalar (str/int/bool)"
    from ..values import Const, PyTuple, Str, Sym
    interp = env.interp()
    params = [p.arg for p in a.posonlyargs + a.args]
    hints = {p.arg: ("str" if "str" in ast.unparse(p.annotation) else "int") for p in a.posonlyargs + a.args + a.kwonlyargs}

    def immutable(v) -> bool:
        from ..values import AltV
        if isinstance(v, (Const, Str)):
            return not isinstance(getattr(v, "v", None), (list, dict, set))
        if isinstance(v, PyTuple):
            return all(immutable(x) for x in v.items)
        if isinstance(v, AltV):
            return all(immutable(x) for x in v.options)
        if isinstance(v, Sym):
            # text / numbers / parts of a regex match; the result of an arbitrary call may be anything
            return v.hint in ("str", "int") or v.op in ("param", "splitpart", "rpartition", "partition", "len", "elem", "binop", "rematch1") or (v.op == "getslice" and immutable(v.args[0]))
        return False

    try:
        paths = interp.explore(lambda it: (m, fn, [Sym("param", n, hint=hints[n]) for n in params],
                                           {p.arg: Sym("param", p.arg, hint=hints[p.arg]) for p in a.kwonlyargs if False}, None))
    except AnalysisError as e:
        return f"cannot be evaluated ({e})"
    for x in paths:
        for ev in x.events:
            if ev.kind in ("store_global", "store_foreign", "store_attr") or (ev.kind == "mutate"):
                return f"writes state ({ev.kind} {ev.data.get('target', ev.data.get('attr', ''))})"
        if x.outcome == "return" and not immutable(x.value):
            return f"returns a value that is not immutable text/tuples (`{x.value!r:.80}`): every caller shares the cached object"
    return None


def _functions(m):
    for st in m.tree.body:
        if isinstance(st, (ast.FunctionDef, ast.AsyncFunctionDef)):
            yield st, ""
        elif isinstance(st, ast.ClassDef):
            for b in st.body:
                if isinstance(b, (ast.FunctionDef, ast.AsyncFunctionDef)):
                    yield b, st.name


def _sly_run_state() -> Dict[str, Set[str]]:
    """Attributes that the installed SLY assigns on the *instance* while it runs (Parser.parse / Lexer.tokenize and what they
    call): whoever reads them from outside sees the history of the instance."""
    spec = importlib.util.find_spec("sly")
    if spec is None or not spec.submodule_search_locations:
        raise AnalysisError("installed SLY not found")
    base = list(spec.submodule_search_locations)[0]
    out: Dict[str, Set[str]] = {}
    for fname, cls in (("yacc.py", "Parser"), ("lex.py", "Lexer")):
        tree = ast.parse(open(os.path.join(base, fname), encoding="utf-8").read())
        attrs: Set[str] = set()
        for st in tree.body:
            if isinstance(st, ast.ClassDef) and st.name == cls:
                for b in st.body:
                    if isinstance(b, ast.FunctionDef) and not b.name.startswith("__") and not any(
                            isinstance(d, ast.Name) and d.id == "classmethod" for d in b.decorator_list):
                        for n in ast.walk(b):
                            if isinstance(n, ast.Attribute) and isinstance(n.ctx, ast.Store) and isinstance(n.value, ast.Name) and n.value.id == "self":
                                attrs.add(n.attr)
        out[cls] = attrs
    return out


def _sly_stale_parser_state() -> Set[str]:
    """Attributes the installed SLY Parser.parse assigns on the instance only inside its main loop - not in the set-up before the
    loop nor in restart(): at a point where the loop has not assigned them yet, they still hold what the previous parse left."""
    spec = importlib.util.find_spec("sly")
    base = list(spec.submodule_search_locations)[0]
    tree = ast.parse(open(os.path.join(base, "yacc.py"), encoding="utf-8").read())

    def self_stores(nodes) -> Set[str]:
        out = set()
        for st in nodes:
            for n in ast.walk(st):
                if isinstance(n, ast.Attribute) and isinstance(n.ctx, ast.Store) and isinstance(n.value, ast.Name) and n.value.id == "self":
                    out.add(n.attr)
        return out

    for c in tree.body:
        if isinstance(c, ast.ClassDef) and c.name == "Parser":
            meths = {f.name: f for f in c.body if isinstance(f, ast.FunctionDef)}
            parse = meths.get("parse")
            if parse is None:
                break
            before, inside = [], []
            for st in parse.body:
                (inside if isinstance(st, ast.While) else before).append(st)
            reset = self_stores(before) | (self_stores(meths["restart"].body) if "restart" in meths else set())
            return self_stores(inside) - reset
    raise AnalysisError("installed SLY: Parser.parse not found")


def check_error_hook_reads_no_stale_state(ctx: Ctx, env, rule: str = "R6.error-hook-reads-no-stale-state"):
    """The parser's error hook can run before the first reduction of a parse; an attribute SLY assigns only inside its loop
    (`production`, ...) then still holds the value from the previous parse of the same instance."""
    g, repo = env.grammar, env.repo
    stale = _sly_stale_parser_state()
    fn = g.parser_error
    if fn is None:
        return
    ci = repo.classes[g.parser_class]
    selfname = fn.args.args[0].arg if fn.args.args else "self"
    for n in ast.walk(fn):
        attr = None
        if isinstance(n, ast.Attribute) and isinstance(n.ctx, ast.Load) and isinstance(n.value, ast.Name) and n.value.id == selfname:
            attr = n.attr
        elif isinstance(n, ast.Call) and isinstance(n.func, ast.Name) and n.func.id in ("getattr", "hasattr") and len(n.args) >= 2 and \
                isinstance(n.args[0], ast.Name) and n.args[0].id == selfname and isinstance(n.args[1], ast.Constant):
            attr = n.args[1].value
        if attr in stale:
            ctx.fail(rule, f"{ci.name}.error|{attr}", f"the error hook reads `{selfname}.{attr}`, which SLY assigns only while reducing: when the error "
                     "comes before the first reduction it is what the previous parse on this instance left, so the exception depends on history",
                     ci.module.loc(n), "p.parse('a eq 1') then p.parse(')')  vs  a fresh parser on ')'")
    if not any(o.rule == rule and not o.ok for o in ctx.obligations):
        ctx.ok(rule, f"{ci.name}.error", f"reads none of {sorted(stale)}")


def check_no_run_state_reads(ctx: Ctx, env, rule: str = "R6.no-read-of-run-state"):
    """Code outside the lexer/parser classes may not read, from a lexer or parser instance, an attribute SLY overwrites while
    running (tokens, symstack, index, ...): a supplied instance that was used before would behave differently from a fresh one."""
    repo, g = env.repo, env.grammar
    state = _sly_run_state()
    cls_of = {g.parser_class.rsplit(".", 1)[-1]: state["Parser"], g.lexer_class.rsplit(".", 1)[-1]: state["Lexer"]}
    n = 0
    for m in repo.modules.values():
        for fn, owner in _functions(m):
            if f"{m.name}.{owner}" in (g.parser_class, g.lexer_class):
                continue
            typed: Dict[str, Set[str]] = {}
            for a in fn.args.args + fn.args.kwonlyargs:
                ann = ast.unparse(a.annotation) if a.annotation is not None else ""
                for cname, attrs in cls_of.items():
                    if cname in ann:
                        typed[a.arg] = attrs
            for x in ast.walk(fn):
                if isinstance(x, ast.Assign) and isinstance(x.value, ast.Call) and len(x.targets) == 1 and isinstance(x.targets[0], ast.Name):
                    cname = ast.unparse(x.value.func).rsplit(".", 1)[-1]
                    if cname in cls_of:
                        typed[x.targets[0].id] = cls_of[cname]
            for x in ast.walk(fn):
                if isinstance(x, ast.Attribute) and isinstance(x.ctx, ast.Load) and isinstance(x.value, ast.Name) and x.value.id in typed:
                    n += 1
                    ctx.check(x.attr not in typed[x.value.id], rule, f"{m.name}.{owner + '.' if owner else ''}{fn.name}|{x.value.id}.{x.attr}",
                              f"reads `{x.value.id}.{x.attr}`, an attribute SLY assigns on the instance while it runs: for an instance that has been "
                              "used before, this is left-over state of the previous run, not what a fresh instance has", m.loc(x),
                              "AliasRewriter({...}, parser=<a parser that already parsed something>)")
    return n


def _check_sly(ctx: Ctx):
    spec = importlib.util.find_spec("sly")
    if spec is None or not spec.submodule_search_locations:
        raise AnalysisError("installed SLY not found: cannot re-verify the driver's reset shape")
    base = list(spec.submodule_search_locations)[0]
    yacc = ast.parse(open(os.path.join(base, "yacc.py"), encoding="utf-8").read())
    lex = ast.parse(open(os.path.join(base, "lex.py"), encoding="utf-8").read())

    def method(tree, cls, name):
        for st in tree.body:
            if isinstance(st, ast.ClassDef) and st.name == cls:
                for b in st.body:
                    if isinstance(b, ast.FunctionDef) and b.name == name:
                        return b
        return None

    parse = method(yacc, "Parser", "parse")
    restart = method(yacc, "Parser", "restart")
    tokenize = method(lex, "Lexer", "tokenize")
    if parse is None or restart is None or tokenize is None:
        raise AnalysisError("sly.Parser.parse/restart or sly.Lexer.tokenize not found: trusted base changed")
    src = ast.unparse(parse)
    ok = "self.statestack = statestack = []" in src and "self.symstack = symstack = []" in src and "self.restart()" in src
    if not ok:
        raise AnalysisError("sly.Parser.parse no longer assigns fresh stacks and restarts: trusted base changed")
    rs = ast.unparse(restart)
    if not ("del self.statestack[:]" in rs and "del self.symstack[:]" in rs and "self.state = 0" in rs):
        raise AnalysisError("sly.Parser.restart no longer clears the stacks: trusted base changed")
    params = [a.arg for a in tokenize.args.args]
    if params[:2] != ["self", "text"] or "index" not in params or "lineno" not in params:
        raise AnalysisError("sly.Lexer.tokenize no longer takes index/lineno as arguments: trusted base changed")
    lookaheads = [n for n in ast.walk(parse) if isinstance(n, ast.Assign) and any(isinstance(t, ast.Name) and t.id in ("lookahead", "lookaheadstack", "errorcount") for t in n.targets)]
    ctx.check(len(lookaheads) >= 3, "R3.sly-driver-resets", "Parser.parse", "per-call locals not initialised in parse")
    ctx.ok("R3.sly-driver-resets", "Parser.restart", "clears statestack/symstack and sets state 0")
    ctx.ok("R3.sly-driver-resets", "Lexer.tokenize", "position comes from its arguments (index=0, lineno=1)")
