"""C15 - shorthands conjoin the filter with the incoming query and leave the host intact."""
from __future__ import annotations

import ast
import importlib.util
import os
import re
from typing import Any, Dict, List, Optional, Set, Tuple

from .. import termrules as T
from ..report import AnalysisError, Ctx
from ..values import RefV, Sym

EXPLANATION = (
    "Static analysis of the three shorthands and of functions_ext.py. Each shorthand is evaluated by the abstract "
    "interpreter with symbolic parameters (the visitors behind self.visit are holes whose collections - joins, "
    "annotations - become unknown after the visit). R1: on every path the returned value is obtained from the *parameter* "
    "by a chain of additive builder calls only (join/outerjoin, annotate, filter/where) - never a fresh select()/Manager; "
    "R2: the chain ends with exactly one filter/where whose argument is the visitor's result for the parsed filter; R3: "
    "the join loop ranges over the relationships the visitor collected and each iteration joins or is skipped by the "
    "existing-join test; the Django annotations are applied (before filter) whenever non-empty; R4: every "
    "GenericFunction subclass in the package declares, in its own class body, a package other than _default (or "
    "_register = False) - the registration rule is re-read from the installed sqlalchemy/sql/functions.py - so "
    "sqlalchemy.func.<name> of the host is untouched; no other module-level statement of the SQLAlchemy package "
    "mutates SQLAlchemy globals; R5: joins the filter needs are outer joins (a missing related row must not drop the "
    "parent)."
)
RULE_TEXT = "one obligation per shorthand path, per GenericFunction class, per join call"

ADDITIVE = {"join", "outerjoin", "annotate", "filter", "where", "alias", "filter_by"}
FILTERS = {"filter", "where"}


def _chain(t) -> Tuple[Any, List[Tuple[str, tuple, tuple]]]:
    """Unwind x.a(..).b(..) into (base, [(method, args, kwargs) ...]) outermost last."""
    calls: List[Tuple[str, tuple, tuple]] = []
    cur = t
    while isinstance(cur, tuple) and cur and cur[0] == "call" and isinstance(cur[1], tuple) and cur[1][0] == "attr":
        calls.append((cur[1][2], cur[2], cur[3] if len(cur) > 3 else ()))
        cur = cur[1][1]
    calls.reverse()
    return cur, calls


def _is_param(t, name: str) -> bool:
    return t == ("sym", "param", name)


def _shorthand_paths(env, modname: str, fname: str):
    mf = env.repo.function(modname, fname)
    if mf is None:
        raise AnalysisError(f"{modname}.{fname} not found")
    m, fn = mf
    params = [a.arg for a in fn.args.args]
    interp = env.interp()
    res = interp.explore(lambda it: (m, fn, [Sym("param", p) for p in params], {}, None))
    return m, fn, params, res


def _filter_arg_ok(arg, visitor_cls_suffix: str, text_param: str) -> bool:
    """visit(<parser>.parse(<lexer>.tokenize(<text param>))) by a visitor of the expected class"""
    if not (isinstance(arg, tuple) and arg and arg[0] == "visit"):
        return False
    if visitor_cls_suffix not in str(arg[2]):
        return False
    inner = arg[1]

    def call_of(t, meth):
        # ('call', ('attr', <receiver>, meth), (one positional,), ())
        if (isinstance(t, tuple) and len(t) == 4 and t[0] == "call" and isinstance(t[1], tuple) and t[1][0] == "attr"
                and t[1][2] == meth and len(t[2]) == 1 and not t[3]):
            return t[1][1], t[2][0]
        return None

    pr = call_of(inner, "parse")
    if pr is None or "Parser" not in str(pr[0]):
        return False
    tk = call_of(pr[1], "tokenize")
    if tk is None or "Lexer" not in str(tk[0]):
        return False
    return tk[1] == ("sym", "param", text_param)


def _check_chain(ctx: Ctx, env, label: str, modname: str, fname: str, visitor_suffix: str, where_extra=None):
    m, fn, params, res = _shorthand_paths(env, modname, fname)
    from .common import check_shared_caches
    check_shared_caches(ctx, res, "R6.no-state-shared-between-calls", "a later call with a different filter text or query gets the earlier call's translation",
                        "name eq 'Gorilla' then name eq 'gorilla'", label)
    ctx.floor(f"{label}: paths", len(res), 1)
    qparam, tparam = params[0], params[1] if len(params) > 1 else "?"
    for p in res:
        key = f"{label}|{p.cond_str()[:70]}"
        where = m.loc(fn)
        if p.outcome != "return":
            # refusing (raising) is not a wrong result; only library/documented exceptions are expected here - but a
            # programming error of the shorthand's own statements (a name never bound, text combined with a non-text) is
            # raised for every filter: no row of the base query is ever selected
            v = p.value
            q = v.args[0].qual if isinstance(v, Sym) and v.op == "exc" and isinstance(v.args[0], RefV) else ""
            if q in ("builtins.NameError", "builtins.UnboundLocalError", "builtins.TypeError", "builtins.AttributeError"):
                ctx.fail("R1.shorthand-completes", key, f"{fname} raises {q.split('.')[-1]} at {p.where} "
                         f"({p.cond_str()[:120] or 'unconditionally'}) instead of returning the filtered query", where)
            continue
        t = T.norm(p.value)
        base, calls = _chain(t)
        ctx.check(_is_param(base, qparam), "R1.built-from-the-incoming-query", key,
                  f"{fname} returns `{T.show(t, 200)}`: the result is not built from the `{qparam}` argument, so what the base query already "
                  "filtered/joined/ordered is lost", where, "base query with its own where clause")
        bad = [c[0] for c in calls if c[0] not in ADDITIVE]
        ctx.check(not bad, "R1.additive-builders-only", key, f"{fname} applies {bad} to the incoming query; only join/outerjoin/annotate/filter/where keep it intact",
                  where)
        filters = [c for c in calls if c[0] in FILTERS]
        ok = len(filters) == 1 and calls and calls[-1][0] in FILTERS and len(filters[0][1]) == 1 and _filter_arg_ok(filters[0][1][0], visitor_suffix, tparam)
        ctx.check(ok, "R2.one-filter-with-the-translated-clause", key,
                  f"{fname} must end with exactly one filter(<visitor result of the parsed `{tparam}`>); got `{T.show(t, 220)}`", where)
        if where_extra:
            where_extra(ctx, p, t, calls, key, where)
    return m, fn, res


def check_django_shorthand(ctx: Ctx, env):
    def extra(ctx, p, t, calls, key, where):
        collected = [k for k, v in p.conds if k.startswith("truth(collected(") and "annotation" in k]
        nonempty = any(v is True for k, v in p.conds if k.startswith("truth(collected(") and "annotation" in k)
        ann = [i for i, c in enumerate(calls) if c[0] == "annotate"]
        fil = [i for i, c in enumerate(calls) if c[0] in FILTERS]
        if nonempty:
            ok = len(ann) == 1 and fil and ann[0] < fil[0] and "collected" in repr(calls[ann[0]][2]) + repr(calls[ann[0]][1])
            ctx.check(ok, "R3.annotations-before-filter", "django|annotations", "when the visitor collected annotations they must be applied with "
                      f"annotate(**annotations) before filter; got `{T.show(t, 200)}`", where, "length(title) eq 3 style filters that need an annotation")
        elif collected:
            ctx.check(not ann, "R3.annotations-before-filter", "django|no-annotations", "annotate() called although nothing was collected", where)
        else:
            ctx.fail("R3.annotations-before-filter", "django|annotations", "the shorthand never looks at the annotations the visitor collected: "
                     "filters that need them fail or select the wrong rows", where)

    _check_chain(ctx, env, "django.apply_odata_query", "odata_query.django.shorthand", "apply_odata_query", "AstToDjangoQVisitor", extra)


def run(ctx: Ctx, env):
    repo = env.repo
    from .common import check_mutable_defaults
    check_mutable_defaults(ctx, env, ("odata_query.sqlalchemy", "odata_query.django"), "R6.no-state-shared-between-calls",
                           "a query built later is composed with what an earlier one left behind")
    check_django_shorthand(ctx, env)
    m = check_orm_shorthand(ctx, env)

    # ---- Core shorthand ---------------------------------------------------------------------------------------------
    _check_chain(ctx, env, "sqlalchemy.apply_odata_core", "odata_query.sqlalchemy.shorthand", "apply_odata_core", "AstToSqlAlchemyCoreVisitor")
    _run_rest(ctx, env, m)


def check_orm_shorthand(ctx: Ctx, env):
    """SQLAlchemy ORM shorthand: which relationships are joined, how, and when a join may be skipped (shared with C04)."""
    repo = env.repo

    def orm_extra(ctx, p, t, calls, key, where):
        joins = [c for c in calls if c[0] in ("join", "outerjoin")]
        for c in joins:
            ok_src = c[1] and "join_relationships" in repr(c[1][0]) and "elemof" in repr(c[1][0])
            ctx.check(ok_src, "R3.joins-what-the-visitor-collected", "sqlalchemy.apply_odata_query|join-source",
                      f"join({T.show(c[1][0]) if c[1] else ''}): the joined relationship is not an element of the visitor's join list", where)
            outer = c[0] == "outerjoin" or any(k == "isouter" and v == ("const", True) for k, v in c[2]) or \
                any(k == "full" and v == ("const", True) for k, v in c[2])
            ctx.check(outer, "R5.filter-joins-are-outer", "sqlalchemy.apply_odata_query|join",
                      f"the relationship a path filter needs is joined with an INNER join (`{c[0]}({T.show(c[1][0]) if c[1] else ''})`): a parent whose "
                      "foreign key is NULL disappears even when another disjunct holds", where, "author/name eq 'A' or content eq 'y'")
        fil = [i for i, c in enumerate(calls) if c[0] in FILTERS]
        jn = [i for i, c in enumerate(calls) if c[0] in ("join", "outerjoin")]
        ctx.check(not jn or (fil and max(jn) < fil[0]), "R3.join-before-filter", "sqlalchemy.apply_odata_query|order", "filter applied before the joins it needs",
                  where)

    m, fn, res = _check_chain(ctx, env, "sqlalchemy.apply_odata_query", "odata_query.sqlalchemy.shorthand", "apply_odata_query",
                              "AstToSqlAlchemyOrmVisitor", orm_extra)
    any_join = any(any(c[0] in ("join", "outerjoin") for c in _chain(T.norm(p.value))[1]) for p in res if p.outcome == "return")
    ctx.check(any_join, "R3.joins-what-the-visitor-collected", "sqlalchemy.apply_odata_query|loop",
              "no path of the ORM shorthand joins the relationships collected by the visitor: path filters reference unjoined tables", m.loc(fn),
              "author/name eq 'A'")
    # the skip decision, read off the evaluated paths: inside the loop over the collected relationships a join may be left out
    # only when a membership test of that relationship against the joins already on the incoming query succeeded, and the
    # decision must take the relationship's full identity (str(relationship)) into account, not only its bare .key
    n_loop = 0
    for p in res:
        if p.outcome != "return":
            continue
        conds = list(p.conds)
        if not any(k.startswith("empty(") and "collected(" in k and "join_relationships" in k and v is False for k, v in conds):
            continue
        n_loop += 1
        memb = [(k, v) for k, v in conds if k.startswith("in(") and "elemof(collected(" in _first_arg(k) and "param('query')" in k]
        bare = [(k, v) for k, v in memb if re.match(r"S'\{elemof\(collected\([^)]*\)\)\|str\}'$", _first_arg(k))]
        keyed = [(k, v) for k, v in memb if "'key')" in _first_arg(k)]
        joined = any(c[0] in ("join", "outerjoin") and c[1] and "elemof" in repr(c[1][0]) and "collected" in repr(c[1][0])
                     for c in _chain(T.norm(p.value))[1])
        key = f"sqlalchemy.apply_odata_query|{p.cond_str()[-80:]}"
        # the loop must run over the collected relationships themselves or over a per-element selection of them; a positional selection
        # (dropwhile / takewhile / islice) stops testing after the first element that fails, so it is not "skip exactly those already joined"
        srcs = [repr(c[1][0]) for c in _chain(T.norm(p.value))[1] if c[0] in ("join", "outerjoin") and c[1]]
        positional = sorted({f for s in srcs for f in ("itertools.dropwhile", "itertools.takewhile", "itertools.islice")
                             if f"'elemof', ('call', ('ref', '{f}')" in s})
        if positional:
            ctx.fail("R3.join-skipped-only-if-present", "sqlalchemy.apply_odata_query|skip-test",
                     f"the joins are taken from {positional[0]}(...) over the collected relationships: a positional cut, not a test of every "
                     "relationship - one already joined on the query that follows a missing one is joined again (and one missing after the cut "
                     "is never joined)", m.loc(fn), "base query joined on Comment.author; filter blogpost/title eq 'T' and author/name eq 'A'")
            continue
        unknown = [s for s in srcs if "'elemof', ('call', ('ref', '" in s]
        if unknown:
            raise AnalysisError("sqlalchemy.apply_odata_query: the joins are taken from the result of a call over the collected relationships "
                                f"that the evaluator does not model ({unknown[0][:120]})", m.loc(fn))
        if joined:
            ctx.check(not any(v for _, v in memb), "R3.join-skipped-only-if-present", "sqlalchemy.apply_odata_query|skip-test",
                      "a relationship found among the joins already on the query is joined again", m.loc(fn))
        else:
            ctx.check(any(v for _, v in memb), "R3.join-skipped-only-if-present", "sqlalchemy.apply_odata_query|skip-test",
                      "the join loop must either join every collected relationship or skip exactly those already joined on the incoming query: "
                      f"a needed join is skipped under {p.cond_str()[-160:]}", m.loc(fn), "author/name eq 'A'")
        ctx.check(not keyed or bool(bare), "R3.join-skip-identifies-the-relationship", "sqlalchemy.apply_odata_query|skip-test",
                  "the decision to skip a join looks only at the relationship's bare `.key`: a relationship with the same name on another "
                  "model already joined on the query makes the needed join disappear", m.loc(fn),
                  "base query joined on Ticket.owner, filter project/owner/name eq 'Core'")
    ctx.floor("paths through the join loop", n_loop, 2)
    # what the loop itself records as "already joined" must be the relationship's full identity as well
    for n in ast.walk(fn):
        if isinstance(n, ast.For) and isinstance(n.target, ast.Name) and "join_relationships" in ast.unparse(n.iter):
            var = n.target.id
            for x in ast.walk(n):
                if isinstance(x, ast.Call) and isinstance(x.func, ast.Attribute) and x.func.attr in ("append", "add", "insert", "extend", "update") and x.args:
                    recv = ast.unparse(x.func.value)
                    # is the receiver the collection the skip test consults?
                    consulted = any(isinstance(c, ast.Compare) and any(isinstance(o, (ast.In, ast.NotIn)) for o in c.ops) and
                                    any(ast.unparse(cm) == recv for cm in c.comparators) for c in ast.walk(n)) or \
                        any(isinstance(c, ast.Call) and isinstance(c.func, ast.Attribute) and c.func.attr in ("isdisjoint", "__contains__", "issuperset")
                            and ast.unparse(c.func.value) == recv for c in ast.walk(n))
                    if not consulted:
                        continue
                    arg = x.args[-1]
                    names_full = any(isinstance(y, ast.Name) and y.id == var and not any(isinstance(z, ast.Attribute) and z.value is y for z in ast.walk(arg))
                                     for y in ast.walk(arg))
                    ctx.check(names_full, "R3.join-skip-identifies-the-relationship", "sqlalchemy.apply_odata_query|recorded-identity",
                              f"the loop records `{ast.unparse(arg)}` as already joined: an abridged identity (the bare key) makes a later, different "
                              "relationship of the same name look joined", m.loc(x), "parent/parent/name eq 'D' (File.parent -> Folder, Folder.parent -> Drive)")
    helper = m.functions.get("_get_joined_attrs") if hasattr(m, "functions") else None
    if helper is not None:
        interp = env.interp()
        hp = interp.explore(lambda it: (m, helper, [Sym("param", "query")], {}, None))
        for p in hp:
            if p.outcome != "return":
                continue
            t = T.norm(p.value)
            # every element must be the identity str(<join target>) of an existing join, unabridged
            lossy = [w for w in ("split", "rsplit", "partition", "rpartition", "slice", "lower", "upper") if f"'{w}'" in repr(t) or f".{w}(" in T.show(t, 2000)]
            ctx.check(not lossy, "R3.existing-joins-unabridged", "sqlalchemy._get_joined_attrs",
                      f"existing joins are reported as `{T.show(t, 120)}`: anything but the full str(<join target>) lets different relationships collide",
                      m.loc(helper), "base query joined on Ticket.owner, filter project/owner/name eq 'Core'")

    return m


def _run_rest(ctx: Ctx, env, m):
    repo = env.repo

    # ---- R4 registry isolation -----------------------------------------------------------------------------------------
    reg_default = _sqlalchemy_registration_rule()
    n_gf = 0
    for q, ci in repo.classes.items():
        mro = repo.mro(q)
        if not any(b.endswith("GenericFunction") for b in mro[1:]):
            continue
        n_gf += 1
        own = {}
        for st in ci.node.body:
            if isinstance(st, ast.Assign) and len(st.targets) == 1 and isinstance(st.targets[0], ast.Name):
                own[st.targets[0].id] = st.value
            elif isinstance(st, ast.AnnAssign) and isinstance(st.target, ast.Name) and st.value is not None:
                own[st.target.id] = st.value

        def const_of(e):
            if e is None:
                return None
            try:
                return repo.fold(ci.module, e)
            except Exception:
                return None

        pkg_v = const_of(own.get("package"))
        reg_v = const_of(own.get("_register"))
        isolated = (isinstance(pkg_v, str) and pkg_v != reg_default) or (reg_v is False)
        ctx.check(isolated, "R4.function-registry-isolated", ci.name,
                  f"GenericFunction subclass `{ci.name}` does not declare its own `package` (other than {reg_default!r}) in its class body: importing the "
                  f"back end replaces sqlalchemy.func.{own.get('name').value if isinstance(own.get('name'), ast.Constant) else ci.name} for the host application",
                  ci.module.loc(ci.node), f"host calls sqlalchemy.func.{ci.name}(...) after importing odata_query.sqlalchemy")
    ctx.floor("GenericFunction subclasses", n_gf, 9)
    # module-level statements of the sqlalchemy package must not write into sqlalchemy itself
    for mname, mod in repo.modules.items():
        if not mname.startswith("odata_query.sqlalchemy"):
            continue
        for st in mod.tree.body:
            for n in ast.walk(st) if not isinstance(st, (ast.FunctionDef, ast.ClassDef)) else []:
                if isinstance(n, (ast.Assign, ast.AugAssign)):
                    targets = n.targets if isinstance(n, ast.Assign) else [n.target]
                    for t in targets:
                        root = t
                        while isinstance(root, (ast.Attribute, ast.Subscript)):
                            root = root.value
                        if isinstance(t, (ast.Attribute, ast.Subscript)) and isinstance(root, ast.Name):
                            tgt = repo.resolve_name(mod, root.id) or root.id
                            if str(tgt).startswith("sqlalchemy"):
                                ctx.fail("R4.no-global-mutation", f"{mname}|{ast.unparse(t)[:50]}", f"module-level `{ast.unparse(n)[:80]}` modifies SQLAlchemy's own namespace",
                                         mod.loc(n))
                if isinstance(n, ast.Call) and isinstance(n.func, ast.Attribute) and n.func.attr in ("register", "setdefault", "update", "register_function"):
                    root = n.func.value
                    while isinstance(root, (ast.Attribute, ast.Subscript)):
                        root = root.value
                    if isinstance(root, ast.Name) and str(repo.resolve_name(mod, root.id) or "").startswith("sqlalchemy"):
                        ctx.fail("R4.no-global-mutation", f"{mname}|{ast.unparse(n.func)[:50]}", f"module-level `{ast.unparse(n)[:80]}` modifies SQLAlchemy globals",
                                 mod.loc(n))
    for mname, mod in repo.modules.items():
        if not mname.startswith("odata_query.sqlalchemy"):
            continue
        for n in ast.walk(mod.tree):
            if isinstance(n, ast.Call) and str(repo.resolve_expr(mod, n.func) or "").endswith("functions.register_function"):
                pk = None
                if len(n.args) >= 3:
                    pk = n.args[2]
                for k in n.keywords:
                    if k.arg == "package":
                        pk = k.value
                try:
                    pv = repo.fold(mod, pk) if pk is not None else reg_default
                except Exception:
                    pv = None
                ctx.check(isinstance(pv, str) and pv != reg_default, "R4.function-registry-isolated", f"register_function|{ast.unparse(n.args[0]) if n.args else '?'}",
                          f"`{ast.unparse(n)[:80]}` registers into package {pv!r}: SQLAlchemy's default registry is shared with the host application, whose "
                          "sqlalchemy.func.<name> now resolves to the back end's class", mod.loc(n), "host calls sqlalchemy.func.ceiling(x) after importing odata_query.sqlalchemy")
    # hooks registered on SQLAlchemy's own constructs (compile hooks, event listeners) act on the host's statements as well
    for mname, mod in repo.modules.items():
        if not mname.startswith("odata_query.sqlalchemy"):
            continue
        for n in ast.walk(mod.tree):
            if not isinstance(n, ast.Call) or not n.args:
                continue
            fq = str(repo.resolve_expr(mod, n.func) or "") if isinstance(n.func, (ast.Name, ast.Attribute)) else ""
            if fq in ("sqlalchemy.ext.compiler.compiles", "sqlalchemy.event.listen", "sqlalchemy.event.listens_for", "sqlalchemy.event.api.listen",
                      "sqlalchemy.event.api.listens_for"):
                tq = str(repo.resolve_expr(mod, n.args[0]) or "") if isinstance(n.args[0], (ast.Name, ast.Attribute)) else ""
                own = tq.startswith("odata_query.") and tq in repo.classes
                ctx.check(own, "R4.no-global-mutation", f"{mname}|{fq.rsplit('.', 1)[-1]}({ast.unparse(n.args[0])[:40]})",
                          f"`{ast.unparse(n)[:90]}` hooks into `{tq or ast.unparse(n.args[0])}`, which is not a class of this package: the hook also applies to "
                          "statements the host application builds with that construct", mod.loc(n),
                          "host compiles sqlalchemy.func.concat(a, b) after importing odata_query.sqlalchemy")
    if not any(o.rule == "R4.no-global-mutation" and not o.ok for o in ctx.obligations):
        ctx.ok("R4.no-global-mutation", "odata_query.sqlalchemy", "no module-level write into sqlalchemy's namespace")
    ctx.assume("row-level equality with the base query, SQLAlchemy's de-duplication of repeated joins and legacy Query internals are not decided")


def _sqlalchemy_registration_rule() -> str:
    """Re-read how GenericFunction registers: clsdict.get('package', '_default') - the class's own dict."""
    spec = importlib.util.find_spec("sqlalchemy")
    if spec is None or not spec.submodule_search_locations:
        raise AnalysisError("installed SQLAlchemy not found: cannot re-verify the registration rule")
    path = os.path.join(list(spec.submodule_search_locations)[0], "sql", "functions.py")
    try:
        src = open(path, encoding="utf-8").read()
    except OSError:
        raise AnalysisError("sqlalchemy/sql/functions.py not readable")
    import re
    m = re.search(r"clsdict\.get\(\s*[\"']package[\"']\s*,\s*[\"']([^\"']+)[\"']\s*\)", src)
    if not m:
        raise AnalysisError("sqlalchemy GenericFunction no longer registers with clsdict.get('package', ...): trusted base changed")
    return m.group(1)


def _first_arg(cond_key: str) -> str:
    """`in(<item>,<container>)` -> <item> (split at the first top-level comma)"""
    body = cond_key[3:]
    depth = 0
    quote = None
    for i, ch in enumerate(body):
        if quote:
            if ch == quote:
                quote = None
            continue
        if ch in "'\"":
            quote = ch
        elif ch in "([{":
            depth += 1
        elif ch in ")]}":
            depth -= 1
        elif ch == "," and depth == 0:
            return body[:i]
    return body
