"""C12 - a back end that cannot express a construct refuses it instead of mistranslating."""
from __future__ import annotations

import ast
import re
from typing import Any, Dict, List, Optional, Set, Tuple

from .. import heval, sqlrules, witness
from ..interp import PathResult
from ..report import AnalysisError, Ctx
from ..sqlrules import compatible, param_sorts, slot_sorts, sort_of
from ..values import Const, NodeV, Str, Sym
from . import oracles as O

EXPLANATION = (
    "Static analysis of the seven shipped visitors (3 SQL dialects, round trip, Django, SQLAlchemy ORM and Core). Every "
    "handler resolved through the MRO is evaluated by the abstract interpreter per node kind / operator kind of the "
    "parser's image and every function handler per admissible argument count (decorators such as requires_gis are "
    "evaluated too). R1: starting from the kinds a filter's root can have, follow every self.visit(...) a handler "
    "performs to the kinds the parser can put there; every (visitor, kind) so reached must resolve to a handler - "
    "falling through to NodeVisitor.generic_visit returns None, which the parent splices as a placeholder. R2: every "
    "visit_X names a node class and every function handler can be reached by a call the parser accepts. R3: the "
    "function dispatch key is derived from the full dotted name (sibling cross-check of the visit_Call "
    "implementations). R4: each built-in's admissible argument counts fit its handler's signature. R5: every reachable "
    "raise is an ODataException subclass or one of the documented NotImplementedErrors of the Core visitor. R6: every "
    "attribute read on an AST value exists on every kind that reaches it after narrowing, for well-typed arguments "
    "(OData signature sorts); no handler path returns nothing. R7: on the SQLAlchemy back ends an unknown field name "
    "always becomes InvalidFieldException (bare getattr on a model also finds non-column attributes)."
)
RULE_TEXT = "one obligation per (visitor, reachable kind), per handler path outcome, per function handler"

BASE_EXC = "odata_query.exceptions.ODataException"
CORE_DOCUMENTED = {"visit_Attribute", "visit_CollectionLambda"}


def lib_exc(env, q: Optional[str]) -> bool:
    return bool(q) and q in env.repo.classes and BASE_EXC in env.repo.mro(q)


def visit_targets(paths: List[PathResult]) -> List[Tuple[NodeV, str]]:
    out = []
    for p in paths or []:
        for ev in p.events:
            if ev.kind == "visit" and isinstance(ev.data.get("arg"), NodeV) and ev.data.get("visitor") == "self":
                out.append((ev.data["arg"], p.entry.get("handler", "?")))
    return out


def interp_isa(env, q: str, base: str) -> bool:
    return env.interp().exc_isa(q, base)


def _bind_guard(env, p, ev, paths) -> bool:
    """Before the dispatch, the same arguments were bound against the selected handler's signature
    (`inspect.signature(handler).bind(*args, **kwargs)`), and a sibling path turns the TypeError of that bind into a library
    exception."""
    want = (repr(ev.data.get("args")), repr(ev.data.get("kwargs")))
    found = False
    for e2 in p.events:
        if e2 is ev:
            break
        if e2.kind == "extcall":
            f = repr(e2.data.get("func"))
            if "inspect.signature" in f and "'bind'" in f and "dynmethod" in f and \
                    (repr(e2.data.get("args")), repr(e2.data.get("kwargs"))) == want:
                found = True
    if not found:
        return False
    for q in paths:
        if q.outcome == "raise" and any(k.startswith("raises TypeError") and "bind" in str(v) for k, v in q.conds):
            return lib_exc(env, _exc_class(q.value))
    return False


def run(ctx: Ctx, env):
    H = heval.get(env)
    repo, schema, kf = env.repo, env.schema, env.kindflow
    visitors = H.visitors()
    ctx.floor("visitors", len(visitors), 7)
    # the handlers rely on typing.infer_type / typecheck to refuse ill-typed arguments and to accept well-typed ones: the rules
    # of C18 (what type each call has, when typecheck must raise) are a precondition
    from . import c18 as _c18
    from .c04 import _SubCtx
    _c18.run(_SubCtx(ctx, only={"R1.return-type", "R2.infer-type-of-call", "R3.typecheck"}, rename=lambda r: "R0.typing-" + r.split(".", 1)[1]), env)
    total_handlers = 0
    total_raises = 0
    sources = {}
    for vcls in visitors:
        vs = H.short(vcls)
        d = H.dispatch(vcls)
        handlers = H.func_handlers(vcls)
        total_handlers += len(handlers)

        # ---- R1 reachability / exhaustiveness ---------------------------------------------------------------
        cases = {(k, dd) for k, dd in H.kind_cases()}
        seen: Dict[str, Tuple[str, str]] = {}
        todo: List[Tuple[str, str, str]] = [(k, "<filter root>", "root") for k in sorted(kf.expr_kinds)]
        func_paths: List[PathResult] = []
        for hn in handlers:
            funcs = H.functions_for_handler(vcls, hn)
            counts: Set[int] = set()
            for f in funcs:
                lo, hi = H.table[f]
                counts |= set(range(lo, hi + 1))
            for n in sorted(counts):
                func_paths.extend(_typed(H, vcls, hn, n, funcs))
        while todo:
            kind, via, slot = todo.pop()
            if kind in seen or kind == "NoneType":
                continue
            seen[kind] = (via, slot)
            paths: List[PathResult] = []
            if kind == "Call":
                paths = (H.eval_visit(vcls, "Call") or []) + func_paths
            else:
                df = kf.kinds.discr_field(kind)
                for (k, dd) in cases:
                    if k == kind:
                        paths.extend(H.eval_visit(vcls, k, dd) or [])
            for node, handler in visit_targets(paths):
                for k2 in sorted(node.kinds):
                    if k2 not in seen:
                        todo.append((k2, handler.rsplit(".", 1)[-1], node.path))
        for kind, (via, slot) in sorted(seen.items()):
            if kind not in schema.classes:
                continue
            has = H.resolve_visit(vcls, kind) is not None or H.generic_refuses(vcls)
            w = {"Attribute": "rel/a eq 1", "Time": "t eq 12:00:00", "Geography": "g eq geography'POINT(1 2)'", "USub": "-a gt 5",
                 "NamedParam": "ns.f(x=1) eq 1", "Lambda": "items/any(i: i/v eq 1)", "CollectionLambda": "items/any(i: i/v eq 1)",
                 "Any": "items/any()", "All": "items/all(i: i eq 1)", "Null": "null eq a"}.get(kind, f"{witness.LITERALS.get(kind, kind)} eq 1")
            ctx.check(has, "R1.handler-for-reachable-kind", f"{vs}|{kind}",
                      f"{vs} reaches {kind} nodes (from {via} at {slot}) but defines no visit_{kind}: generic_visit returns None and the "
                      "parent emits a placeholder", "odata_query/visitor.py", w)
        ctx.analysed[f"{vs}.reachable_kinds"] = len(seen)

        # ---- R2 dead handlers ---------------------------------------------------------------------------------
        for name in repo.all_method_names(vcls):
            if name.startswith("visit_") and repo.lookup_method(vcls, name):
                k = name[len("visit_"):]
                ci, fn = repo.lookup_method(vcls, name)
                ctx.check(k in schema.classes, "R2.handler-names-a-kind", f"{vs}.{name}",
                          f"{name} names no AST class: it can never be dispatched to (typo?)", ci.module.loc(fn))
        if d is not None:
            for hn, (ci, fn) in handlers.items():
                suffix = hn[len(d.prefix):]
                if suffix != suffix.lower():
                    ctx.fail("R2.function-handler-reachable", f"{vs}.{hn}", f"the dispatch key is lower-cased, so {hn} can never be selected", ci.module.loc(fn))
                    continue
                if d.source == "full_name":
                    funcs = H.functions_for_handler(vcls, hn)
                    if "__" not in suffix or suffix.startswith("geo__"):
                        ctx.check(bool(funcs), "R2.function-handler-reachable", f"{vs}.{hn}",
                                  f"{hn} corresponds to no function the parser accepts (un-namespaced and geo. calls are validated against ODATA_FUNCTIONS)",
                                  ci.module.loc(fn))

        # ---- R3 dispatch key -----------------------------------------------------------------------------------------
        if d is not None:
            sources[vs] = d
            ctx.check(d.source == "full_name", "R3.dispatch-on-full-name", f"{vs}.visit_Call",
                      f"function handlers are selected by `{d.prefix}` + {d.source}{list(d.transforms)}: the namespace is dropped, so "
                      "a call in another namespace is translated as the built-in of the same name", d.where,
                      "geo.length(x) eq 1 / foo.length(a, b) eq 1")

            pp = H.dispatch_passes_positional(vcls)
            ctx.check(pp is not False, "R3.call-arguments-reach-the-handler", f"{vs}.visit_Call",
                      f"[{vs}] no path of visit_Call hands the call's positional arguments (node.args) to the {d.prefix}* handler: the arguments "
                      "of every function call are missing from the translation (or every call is refused)", d.where, "length(name) eq 4")

        # ---- R10 names written in the filter must not become Python keyword names unchecked ---------------------------------
        call_paths = H.eval_visit(vcls, "Call") or []
        for p in call_paths:
            for ev in p.events:
                kd = ev.data.get("kwargs", {}).get("**") if ev.kind == "dispatch" else None
                if kd is None:
                    continue
                user_keys = [k for k, _ in getattr(kd, "opaque_keys", []) if "node" in repr(k)]
                if not user_keys:
                    continue
                open_sig = all(fn.args.kwarg is not None for _, fn in handlers.values()) and bool(handlers)
                caught = any(interp_isa(env, "builtins.TypeError", c) for c in ev.data.get("caught", []))
                guarded = _bind_guard(env, p, ev, call_paths)
                ctx.check(open_sig or caught or guarded, "R10.parameter-names-checked-before-use-as-keywords", f"{vs}.visit_Call",
                          f"[{vs}] the names of named parameters ({user_keys[0]!r:.60}) are passed as Python keyword names to the {d.prefix if d else ''}* handler: "
                          "a name the handler does not have (or `self`) raises TypeError instead of a library exception", ev.where,
                          "length(x=title) eq 1")

        # ---- R4 arity ----------------------------------------------------------------------------------------------------
        for hn, (ci, fn) in handlers.items():
            funcs = H.functions_for_handler(vcls, hn)
            lo_s, hi_s, kw = H.signature_counts(vcls, hn)
            for f in funcs:
                lo, hi = H.table[f]
                ok = lo >= lo_s and (hi_s is None or hi <= hi_s)
                ctx.check(ok, "R4.handler-arity", f"{vs}.{hn}|{f}", f"{f} admits {lo}..{hi} arguments but {hn} accepts {lo_s}..{hi_s if hi_s is not None else 'n'}",
                          ci.module.loc(fn), witness.call_example(f) + " eq 1")

        # ---- R5/R6 outcomes of every handler path ----------------------------------------------------------------------------
        all_paths: List[Tuple[str, PathResult, Optional[List[str]], Optional[str]]] = []
        for (k, dd) in sorted(cases, key=repr):
            if k in seen:
                for p in H.eval_visit(vcls, k, dd) or []:
                    all_paths.append((k + (f"[{dd}]" if dd else ""), p, None, k))
        for hn in handlers:
            funcs = H.functions_for_handler(vcls, hn)
            counts = set()
            for f in funcs:
                lo, hi = H.table[f]
                counts |= set(range(lo, hi + 1))
            for n in sorted(counts):
                for p in _typed(H, vcls, hn, n, funcs):
                    all_paths.append((f"{hn}/{n}", p, funcs, None))
        from .common import check_shared_caches
        check_shared_caches(ctx, [x[1] for x in all_paths], "R8.no-state-shared-between-visitors",
                            "a later translation returns a part computed for another visitor/input", None, vs)
        for label, p, funcs, kind in all_paths:
            handler_q = p.entry.get("handler", "?")
            owner_short = ".".join(handler_q.rsplit(".", 2)[-2:])
            where = p.where or p.entry.get("where", "")
            for ev in p.events:
                if ev.kind == "may_raise" and ev.data.get("in_exc_ctor") and not ev.data.get("caught"):
                    ecls = str(ev.data["in_exc_ctor"]).rsplit(".", 1)[-1]
                    exc = ev.data.get("exc", "").rsplit(".", 1)[-1]
                    ctx.fail("R5.refusal-can-be-built", f"{owner_short}|{ecls}|{exc}",
                             f"[{vs}] {label}: while building the refusal {ecls}, `{ev.data.get('what')}` can raise {exc} for the value the handler passes "
                             f"(a translated expression object, not text): the user gets an internal {exc} instead of the library's exception", ev.where,
                             _witness(funcs, None, None, kind))
            if p.outcome == "raise":
                total_raises += 1
                q = _exc_class(p.value)
                short = (q or "?").rsplit(".", 1)[-1]
                if lib_exc(env, q):
                    ctx.ok("R5.raises-library-exception", f"{owner_short}|{short}", "library exception", nontrivial=False)
                    continue
                hname = handler_q.rsplit(".", 1)[-1]
                if short == "NotImplementedError" and "core" in handler_q and hname in CORE_DOCUMENTED:
                    ctx.ok("R5.raises-library-exception", f"{owner_short}|{short}", "documented NotImplementedError of the Core visitor")
                    continue
                partial = [ev for ev in p.events if ev.kind == "may_raise" and not ev.data.get("caught") and ev.where == where]
                missing = [ev for ev in p.events if ev.kind == "attr_missing" and ev.where == where]
                if missing:
                    ev = missing[-1]
                    ctx.fail("R6.attribute-defined-on-every-kind", f"{owner_short}|{ev.data['attr']}",
                             f"[{vs}] reads .{ev.data['attr']} on {ev.data['node']} which can be {', '.join(ev.data['kinds'])[:120]} (no such attribute): "
                             f"AttributeError instead of a refusal", where, _witness(funcs, ev.data['node'], ev.data['kinds']))
                    continue
                what = partial[-1].data.get("what", "") if partial else ""
                explicit = [ev for ev in p.events if ev.kind == "raise" and ev.where == where]
                ctx.fail("R5.raises-library-exception", f"{owner_short}|{short}",
                         f"[{vs}] {label}: {'explicit `raise ' + short + '`' if explicit else 'operation ' + what + ' raises ' + short} "
                         f"- not an ODataException - under {p.cond_str()[:140]}", where, _witness(funcs, None, None, kind))
            else:
                v = p.value
                raw = _raw_nodes(v)
                if raw:
                    ctx.fail("R9.no-untranslated-node-in-output", f"{owner_short}|{raw[0][0]}",
                             f"[{vs}] {label}: the result contains the syntax-tree object {raw[0][1]} itself (its Python repr / an object the "
                             f"backend cannot use) instead of its translation, under {p.cond_str()[:120]}", where, _witness(funcs, None, None, kind))
                if isinstance(v, Const) and v.v is None and kind not in ("NoneType",):
                    ctx.fail("R6.handler-returns-a-translation", f"{owner_short}|returns-None",
                             f"[{vs}] {label} can return None (nothing translated) under {p.cond_str()[:140]}", where)
                for ev in p.events:
                    if ev.kind == "may_raise" and not ev.data.get("caught") and not ev.data.get("definite"):
                        exc = ev.data.get("exc", "").rsplit(".", 1)[-1]
                        what = str(ev.data.get("what", ""))
                        if exc in ("ValueError",) and "py_val" in what and "unpack" not in what:
                            ctx.fail("R5.conversion-errors-converted", f"{owner_short}|{what[:50]}",
                                     f"[{vs}] {what} can raise {exc} (e.g. a date that matches the token rule but is not a calendar date) and nothing "
                                     "converts it into a library exception", ev.where)
    ctx.floor("function handlers", total_handlers, 60)
    ctx.floor("raising paths", total_raises, 45)
    # R3 sibling agreement
    srcs = {v: d.source for v, d in sources.items()}
    ctx.check(len(set(srcs.values())) <= 1, "R3.siblings-agree", "visit_Call", f"the visit_Call implementations derive the handler key differently: {srcs}")

    # ---- R7 unknown fields on SQLAlchemy ------------------------------------------------------------------------------------
    for vcls in visitors:
        if "sqlalchemy" not in vcls:
            continue
        vs = H.short(vcls)
        for kind in ("Identifier", "Attribute"):
            for p in H.eval_visit(vcls, kind) or []:
                handler_q = p.entry.get("handler", "?")
                owner_short = ".".join(handler_q.rsplit(".", 2)[-2:])
                if p.outcome == "return":
                    v = p.value
                    # a getattr whose result is then required to be a mapped ORM attribute is a guarded lookup
                    guarded = any(k.startswith("isinstance(getattr(") and val is True and
                                  any(c in k for c in ("InstrumentedAttribute", "QueryableAttribute", "ColumnProperty", "Mapped"))
                                  for k, val in p.conds)
                    for g in ([] if guarded else _bare_getattrs(v)):
                        ctx.fail("R7.unknown-field-is-invalid-field", f"{owner_short}|getattr",
                                 f"[{vs}] the field is looked up with a bare getattr({g[0]}, <name from the filter>): names that are attributes of the "
                                 "model class but not mapped columns (metadata, registry, ...) are returned instead of raising InvalidFieldException",
                                 p.entry.get("where", ""), "metadata eq 1")
    ctx.trust("exceptions raised inside Django/SQLAlchemy at query-compilation time are not modelled")


def _typed(H, vcls, hn, n, funcs) -> List[PathResult]:
    """Paths of a function handler restricted to well-typed arguments (OData parameter sorts)."""
    out = []
    for p in H.eval_func(vcls, hn, n):
        ok = True
        for i, a in enumerate(p.entry.get("args", [])):
            if not isinstance(a, NodeV):
                continue
            ps = param_sorts(funcs, i) if funcs else {"X"}
            kinds = [k for k in a.kinds]
            if not any(compatible(_kind_sorts(k), ps) for k in kinds):
                ok = False
                break
        if ok:
            out.append(p)
    return out


def _kind_sorts(kind: str) -> Set[str]:
    if kind == "Call":
        return {"X"}
    if kind == "UnaryOp":
        return {"B", "N", "D"}
    return sort_of(kind)


def _exc_class(v) -> Optional[str]:
    from ..values import RefV
    if isinstance(v, Sym) and v.op == "exc" and isinstance(v.args[0], RefV):
        return v.args[0].qual
    return None


def _witness(funcs, node_path, kinds, kind=None) -> Optional[str]:
    if funcs:
        f = funcs[0]
        idx = 0
        m = re.search(r"args\[(\d+)\]", node_path or "")
        if m:
            idx = int(m.group(1))
        bad = None
        if kinds:
            for k in ("Attribute", "Null", "BinOp", "Identifier"):
                if k in kinds:
                    bad = {"Attribute": "rel/b", "Null": "null", "BinOp": "(a add b)", "Identifier": "b"}[k]
                    break
        ex = witness.call_example(f, {idx: bad} if bad else None)
        return ex if O.ODATA_FUNCTION_RETURN.get(f) == "Boolean" else f"{ex} eq 1"
    if kind == "Null":
        return "null eq title"
    return None


def _bare_getattrs(v) -> List[Tuple[str, str]]:
    out = []
    if isinstance(v, Sym):
        if v.op == "getattr" and len(v.args) >= 2:
            name = v.args[1]
            if "field(node" in repr(name) or "node." in repr(name):
                out.append((repr(v.args[0])[:40], repr(name)[:40]))
        for a in v.args:
            if isinstance(a, (Sym, tuple, list)):
                out.extend(_bare_getattrs(a))
    elif isinstance(v, (tuple, list)):
        for a in v:
            out.extend(_bare_getattrs(a))
    return out


def _raw_nodes(v, out=None, depth=0):
    """AST nodes / node lists that sit in a result as themselves: not as the argument of a visit, not as the object of a
    field read, not as the source of a map. -> [(stable label, description)]"""
    from ..values import ListV, MapV, NewNode, PyDict, PyList, PyTuple
    if out is None:
        out = []
    if depth > 40 or len(out) > 3:
        return out
    if isinstance(v, NodeV):
        if v.kinds - {"NoneType"}:
            out.append((v.path.split("[")[0].split(".")[-1] or "node", f"{v.path} ({', '.join(sorted(v.kinds))[:60]})"))
        return out
    if isinstance(v, (ListV,)):
        out.append((v.path.split(".")[-1], f"list {v.path}"))
        return out
    if isinstance(v, NewNode):
        out.append((f"new:{v.cls}", f"a freshly built ast.{v.cls}"))
        return out
    if isinstance(v, Str):
        for part in v.parts:
            if part[0] == "dyn":
                _raw_nodes(part[1], out, depth + 1)
            elif part[0] == "join":
                _raw_nodes(part[2], out, depth + 1)
                if not isinstance(part[3], ListV):  # the list being joined over (its items are in part[2])
                    _raw_nodes(part[3], out, depth + 1)
        return out
    if isinstance(v, MapV):
        _raw_nodes(v.elem, out, depth + 1)
        if not isinstance(v.over, ListV):
            _raw_nodes(v.over, out, depth + 1)
        return out
    if isinstance(v, (PyList, PyTuple)):
        for i in v.items:
            _raw_nodes(i, out, depth + 1)
        return out
    if isinstance(v, PyDict):
        for i in v.items.values():
            _raw_nodes(i, out, depth + 1)
        return out
    if isinstance(v, Sym):
        if v.op in ("visit", "field", "prop", "meth", "typeof", "cfg", "param", "len", "isinstance", "hasattr", "dispatch"):
            return out  # the node is handed on to a handler / only inspected, not put into the result
        for a in v.args:
            if isinstance(a, (tuple, list)):
                for x in a:
                    if isinstance(x, tuple):
                        for y in x:
                            _raw_nodes(y, out, depth + 1)
                    else:
                        _raw_nodes(x, out, depth + 1)
            else:
                _raw_nodes(a, out, depth + 1)
    return out
