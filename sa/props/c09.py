"""C09 - every SQL dialect emits well-formed SQL whose structure mirrors the filter."""
from __future__ import annotations

import re
from typing import Any, Dict, List, Optional, Set, Tuple

from .. import heval, sqlrules, sqltok, witness
from . import oracles as O
from ..report import AnalysisError, Ctx
from ..sqlrules import SqlAnalysis, Tmpl, compatible, hole_node, raw_origin, sort_of
from ..values import Const, NodeV, Str, Sym

EXPLANATION = (
    "Static analysis of the three raw SQL visitors (base, SQLite, Athena; handlers resolved through the MRO). Every "
    "handler is evaluated by the abstract interpreter per node kind / operator kind of the parser's image and per "
    "admissible argument count, which yields its finite set of string templates (literal SQL text + holes for "
    "visited children + raw field values). Rules on templates: R1 well-formed (balanced parentheses/quotes, operator "
    "operands present, CASE skeleton, non-empty; raw values emitted outside quotes must be SQL tokens for every "
    "spelling the lexer accepts); R2 no hole can resolve to a missing handler (None spliced in); R3 for every "
    "(template, hole, child template) triple admissible under the OData signature sorts, the operators the child "
    "exposes at parenthesis depth 0 must keep their grouping next to the operators adjacent to the hole under the "
    "dialect's precedence table - by induction on tree depth the SQL parser then rebuilds the filter's tree for every "
    "nesting; R4 every operand/argument appears exactly once (operands in source order); R5 the table alias only "
    "qualifies identifiers. The tables of SQL-92/Trino/SQLite are oracle data."
)
RULE_TEXT = ("one obligation per template (R1,R4,R5), per (visitor, reachable kind) (R2) and per (handler, slot, child "
             "variant) triple (R3); non-trivial = decided from extracted templates")

NUMERIC_SQL = r"[+-]?(?:[0-9]+(?:\.[0-9]*)?|\.[0-9]+)(?:e[+-]?[0-9]+)?"
RAW_OUTSIDE_QUOTES_LANGUAGE = {"Integer": NUMERIC_SQL, "Float": NUMERIC_SQL, "Boolean": r"true|false"}


COMPARATOR_SQL = {"Eq": {"=", "==", "IS"}, "NotEq": {"!=", "<>", "IS NOT"}, "Lt": {"<"}, "LtE": {"<="}, "Gt": {">"}, "GtE": {">="},
                  "In": {"IN"}}


def run(ctx: Ctx, env, only_dialect: Optional[str] = None, prop_rules: Optional[Set[str]] = None):
    H = heval.get(env)
    visitors = H.sql_visitors()
    ctx.floor("SQL visitors", len(visitors), 3)
    langs = sqlrules.TokenLanguages(env, [NUMERIC_SQL], full=(ctx.tier == "thorough"))
    langs.full = ctx.tier == "thorough"
    n_templates = 0
    r3: Dict[str, Dict[str, Any]] = {}
    for vcls in visitors:
        A = SqlAnalysis(env, vcls)
        if only_dialect and A.dialect() != only_dialect:
            continue
        n_templates += check_visitor(ctx, env, A, langs, r3)
    for tkey, ent in r3.items():
        if ent["bad"]:
            items = sorted(ent["bad"].items())
            _, (hit, w) = items[0]
            variants = sorted(ent["bad"])
            ctx.fail("R3.grouping-preserved", tkey,
                     f"{len(variants)} of {ent['n']} admissible nestings lose their grouping, e.g. {hit}; all: {', '.join(variants)[:600]}",
                     ent["where"], w, variants=variants)
        else:
            ctx.ok("R3.grouping-preserved", tkey, f"{ent['n']} nestings safe")
    ctx.floor("templates", n_templates, 60 if not only_dialect else 20)
    ctx.trust("SQL operator precedence tables: SQL-92 <value expression>, Trino SqlBase.g4, SQLite lang_expr.html (oracle data)")
    ctx.assume("acceptance by a real Presto/SQL-92 parser is not decided (none is available offline)")


def reachable_kinds(A: SqlAnalysis) -> List[Tuple[str, Optional[str], str, str]]:
    """(kind, discr, via-handler, slot) reachable through self.visit holes from the start symbol."""
    seen: Dict[Tuple[str, Optional[str]], Tuple[str, str]] = {}
    todo: List[Tuple[str, Optional[str], str, str]] = []
    for k in sorted(A.kf.expr_kinds):
        for (kind, discr, func) in A.child_variants(NodeV("root", {k})):
            if kind != "Call":
                todo.append((kind, discr, "<filter root>", "root"))
    todo.append(("Call", None, "<filter root>", "root"))
    while todo:
        kind, discr, via, slot = todo.pop()
        if (kind, discr) in seen:
            continue
        seen[(kind, discr)] = (via, slot)
        tmpls: List[Tmpl] = []
        if kind == "Call":
            for v in A.func_tmpls.values():
                tmpls.extend(v)
        else:
            tmpls = A.node_tmpls.get((kind, discr)) or []
        for t in tmpls:
            for ev in t.path.events:
                if ev.kind == "visit" and isinstance(ev.data.get("arg"), NodeV):
                    n = ev.data["arg"]
                    for (k2, d2, f2) in A.child_variants(n):
                        kk = (k2, d2 if k2 != "Call" else None)
                        if kk not in seen:
                            todo.append((k2, kk[1], f"{t.owner}", n.path))
    return [(k, d, v, s) for (k, d), (v, s) in seen.items()]


def check_visitor(ctx: Ctx, env, A: SqlAnalysis, langs, done: Dict[str, Dict[str, Any]]) -> int:
    vs = A.short
    n = 0
    # ---- R2 no placeholder: reachable kinds need a handler ---------------------------------------------------
    for kind, discr, via, slot in reachable_kinds(A):
        if kind == "Call":
            continue
        label = A.variant_label(kind, discr, None)
        has = A.node_tmpls.get((kind, discr)) is not None or A.H.generic_refuses(A.vcls)
        if not has:
            wit = witness.LITERALS.get(kind) or witness.example(kind, discr)
            w = {"Attribute": "rel/a eq 1", "Time": "t eq 12:00:00", "Geography": "g eq geography'POINT(1 2)'", "UnaryOp": "-a gt 5",
                 "USub": "-a gt 5", "NamedParam": "length(x='a') eq 1", "Lambda": "items/any(i: i/v eq 1)",
                 "CollectionLambda": "items/any(i: i/v eq 1)", "Any": "items/any()", "All": "items/all(i: i eq 1)"}.get(kind, f"{wit} eq 1")
            ctx.fail("R2.no-placeholder", f"{vs}|{kind}",
                     f"{vs} has no handler for {kind}: NodeVisitor.generic_visit returns None, which {via} splices into its output at {slot}",
                     "odata_query/visitor.py", w)
        else:
            ctx.ok("R2.no-placeholder", f"{vs}|{kind}", "handler present", nontrivial=False)

    # ---- a string literal's SQL constant denotes the string itself: the only rewriting of the text is doubling its quotes ----------
    for t in A.node_tmpls.get(("String", None)) or []:
        if t.path.outcome != "return" or not t.is_string:
            continue
        for tok in t.st.toks:
            if tok.kind != "string":
                continue
            for c in (tok.value or []):
                if isinstance(c, str) or c[0] != "dyn":
                    continue
                o = raw_origin(c[1])
                if o is None or o.attr != "val":
                    continue
                chain = [x for x in tuple(o.extra_transforms) + tuple(c[2]) if x and x[0] != "str"]
                extra = [x for x in chain if not (x[0] == "replace" and x[1] == "'" and x[2] == "''")]
                ctx.check(not extra, "R4.string-literal-faithful", f"{vs}|String",
                          f"[{vs}] the text of a string literal is rewritten with {extra} before it is quoted (template `{t.text()[:80]}`): in SQL a string "
                          "constant has no escape but the doubled quote, so the constant no longer denotes the string that was written", t.where,
                          "name eq 'C:\\tmp'")

    # ---- the comparison a Compare node is rendered with is its own comparator's (IS / IS NOT only for eq / ne) -------------------
    for disc, allowed in COMPARATOR_SQL.items():
        for t in A.node_tmpls.get(("Compare", disc)) or []:
            if t.path.outcome != "return" or not t.is_string:
                continue
            for x in t.st.toks:
                if x.kind == "op" and x.depth == 0 and x.text in sqltok.COMPARISONS:
                    ctx.check(x.text in allowed, "R4.comparison-operator-kept", f"{vs}|Compare[{disc}]|{x.text}",
                              f"[{vs}] `{O.OPERATOR_KEYWORD[disc]}` is rendered with `{x.text}` in the template `{t.text()}` (under {t.path.cond_str()[:120]}): "
                              f"that is another comparison than the one written", t.where,
                              f"a {O.OPERATOR_KEYWORD[disc]} null" if "Null" in t.text() or "NULL" in t.text() or "null" in t.path.cond_str().lower() else None)

    # a literal must stand in the SQL with its own value whatever case the user typed its keyword letters in (TRUE, 1E3, ...t...z)
    from .c19 import CASE_VARIANT_KINDS, check_backend_case, check_py_val_case
    if not getattr(ctx, "_case_rule_done", False):
        ctx._case_rule_done = True
        check_py_val_case(ctx, env, "R1.literal-independent-of-case")
    check_backend_case(ctx, env, list(CASE_VARIANT_KINDS), "R1.literal-independent-of-case", only=lambda v: v == A.vcls)
    from .common import check_shared_caches
    check_shared_caches(ctx, [t.path for t in A.all_tmpls()], "R6.no-state-shared-between-visitors",
                        "a visitor configured differently (another table alias) emits what an earlier visitor computed",
                        "two visitors with different table_alias translating the same field", vs)
    # ---- per-template rules -----------------------------------------------------------------------------------
    seen_text: Set[Tuple[str, str]] = set()
    for t in A.all_tmpls():
        if t.path.outcome != "return":
            continue
        if t.kind is not None and A.is_op_token_kind(t.kind):
            continue  # operator spellings are inlined into their parents
        if t.kind == "Call":
            continue  # visit_Call only dispatches
        txt = t.text()
        if (t.owner, txt) in seen_text:
            continue
        seen_text.add((t.owner, txt))
        n += 1
        key = f"{vs}.{t.owner}|{t.label}"
        if not t.is_string:
            ctx.fail("R1.returns-sql-text", key, f"handler returns {txt[:80]} instead of SQL text under {t.path.cond_str()[:100]}", t.where)
            continue
        st = t.st
        # R1 well-formedness
        if not any(isinstance(i, str) and not i.isspace() for i in t.items) and not any(not isinstance(i, str) for i in t.items):
            ctx.fail("R1.non-empty", key, f"handler can return an empty SQL fragment under {t.path.cond_str()[:140]}", t.where,
                     "x eq duration'P'" if t.kind == "Duration" else None)
        probs = sorted(set(st.problems))
        ctx.check(not probs, "R1.well-formed", f"{key}", f"template `{_clip(txt)}` is not well-formed SQL: {probs}", t.where,
                  _func_witness(t))
        # raw values outside quotes must be SQL tokens
        for tok in st.toks:
            if tok.kind != "raw":
                continue
            o = raw_origin(tok.value[1])
            transforms = tuple(tok.value[2])
            if o is None:
                ctx.fail("R1.raw-token-class", f"{key}|{_clip(repr(tok.value[1]), 40)}", "raw value of unknown origin emitted outside quotes", t.where)
                continue
            for k in sorted(o.kinds):
                if k == "Duration" and "unpack" in o.attr:
                    continue  # the sign of a duration: '+', '-' or nothing (checked with the DURATION_PATTERN in C06)
                if k == "Float" and o.attr == "py_val":
                    # not the literal's text but Python's rendering of a double: a literal beyond the range of a double (the lexer accepts
                    # any exponent) is rendered `inf`, which is no SQL numeric literal
                    ctx.fail("R1.raw-token-class", f"{vs}|{k}.{o.attr}", "the Python float value of the literal is emitted instead of its text: "
                             "`1e999` is rendered as `inf`, which is not a SQL numeric literal (and digits beyond double precision are lost)",
                             t.where, "x lt 1e999")
                    continue
                pat = RAW_OUTSIDE_QUOTES_LANGUAGE.get(k)
                if pat is None:
                    ctx.fail("R1.raw-token-class", f"{key}|{k}.{o.attr}", f"{k}.{o.attr} is emitted outside quotes; no SQL token class is known for it",
                             t.where)
                    continue
                w = langs.included(k, pat)
                ctx.check(w is None, "R1.raw-token-class", f"{vs}|{k}.{o.attr}",
                          f"{k}.{o.attr} is emitted raw, but the lexer accepts the spelling {w!r} which is not a SQL "
                          f"{'numeric literal' if k != 'Boolean' else 'boolean keyword'}", t.where, f"x eq {w}" if w else None)
        # no Python repr of AST nodes / node lists in the output
        for tok in st.toks:
            pieces = [tok.value] if tok.kind == "raw" else [c for c in (tok.value or []) if not isinstance(c, str)] if tok.kind in ("string", "qident") else []
            for piece in pieces:
                if piece[0] == "dyn" and isinstance(piece[1], (NodeV,)) or (piece[0] == "dyn" and type(piece[1]).__name__ in ("ListV", "NewNode", "MapV")):
                    ctx.fail("R1.no-node-repr", key, f"template `{_clip(txt)}` formats an AST node (or a list of nodes) with str(): the Python repr of the "
                             "syntax tree is spliced into the SQL instead of a translation", t.where, _func_witness(t))
        # R4 exactly once / in order
        _exactly_once(ctx, A, t, key)
        # R5 alias
        for tok in st.toks:
            inside = tok.kind in ("string", "qident") and any(not isinstance(c, str) and c[0] == "dyn" and isinstance(c[1], Sym) and c[1].op == "cfg"
                                                               for c in (tok.value or []))
            if tok.kind == "cfg" or inside:
                ok = t.kind == "Identifier" and inside and tok.kind == "qident"
                ctx.check(ok, "R5.alias-only-qualifies-identifiers", key, "the table alias is emitted somewhere other than a quoted qualifier of an identifier",
                          t.where)
    # alias present in every identifier template when configured
    idt = A.node_tmpls.get(("Identifier", None)) or []
    with_alias = [t for t in idt if any(k.startswith("truth(cfg(") and v is True for k, v in t.path.conds)]
    for t in with_alias:
        txt = t.text()
        ok = bool(re.match(r'^"\{self\.[A-Za-z_]+\}"\."', txt))
        ctx.check(ok, "R5.alias-qualifies-identifier", f"{vs}.visit_Identifier", f"with a table alias configured the identifier template is `{txt}`: "
                  "the alias does not qualify the column", t.where, "a eq 1 (with table_alias)")
    if idt and not with_alias:
        ctx.fail("R5.alias-qualifies-identifier", f"{vs}.visit_Identifier", "the identifier handler ignores the table alias", idt[0].where,
                 "a eq 1 (with table_alias)")

    # ---- R3 triples ----------------------------------------------------------------------------------------------
    # obligations are keyed by (defining handler, slot, child kind); the child variants (operator kind / function)
    # that break are listed in the detail, the first one provides the witness
    n_triples = 0
    for t in A.all_tmpls():
        if t.path.outcome != "return" or not t.is_string or (t.kind is not None and A.is_op_token_kind(t.kind)):
            continue
        handler_q = t.path.entry.get("handler", f"{A.vcls}.{t.owner}")
        owner_short = ".".join(handler_q.rsplit(".", 2)[-2:])
        for hole in t.st.holes:
            node = hole_node(hole)
            if node is None:
                continue
            slot, ssorts = A.slot_info(t, node)
            left, right = sqltok.neighbours(t.st, hole)
            if left is None and right is None:
                continue
            for (ck, cd, cf) in A.child_variants(node):
                if A.is_op_token_kind(ck):
                    continue
                if not compatible(sort_of(ck, cd, cf), ssorts):
                    continue
                cts = A.child_tmpls(ck, cd, cf)
                if not cts:
                    continue
                tkey = f"{owner_short}|{slot}|{ck}"
                ent = done.setdefault(tkey, {"bad": {}, "n": 0, "where": t.where})
                vlabel = A.variant_label(ck, cd, cf)
                plabel = f"{vs}:{t.label}"
                if (plabel, vlabel) in ent.setdefault("seen", set()):
                    continue
                ent["seen"].add((plabel, vlabel))
                n_triples += 1
                ent["n"] += 1
                for c in cts:
                    if c.path.outcome != "return" or not c.is_string:
                        continue
                    if cf and c.funcs and cf not in c.funcs:
                        continue
                    hit = None
                    for tname, table, strict in A.tables():
                        why = sqltok.slot_safe(c.st.exposed, left, right, table, strict)
                        if why:
                            hit = f"{tname}: {why}; `{_clip(t.text(), 60)}` <- `{_clip(c.text(), 60)}`"
                            break
                    if hit:
                        if f"{plabel}<-{vlabel}" not in ent["bad"]:
                            w = witness.embed(t.kind or "Call", t.discr, slot, witness.example(ck, cd, cf), ck,
                                              func=(t.funcs[0] if t.funcs else None), child_is_boolean=("B" in sort_of(ck, cd, cf)))
                            ent["bad"][f"{plabel}<-{vlabel}"] = (hit, w)
                        break
    ctx.analysed[f"{vs}.triples"] = n_triples
    ctx.analysed[f"{vs}.templates"] = n
    ctx.sample({"visitor": vs, "templates": sorted({t.text() for t in A.all_tmpls() if t.is_string and t.path.outcome == "return"})[:12]})
    return n


def _shape(txt: str) -> str:
    return re.sub(r"\{[^}]*\}", "{}", txt)[:60]


def _clip(s: str, n: int = 90) -> str:
    s = s.replace("\n", " ")
    return s if len(s) <= n else s[:n - 3] + "..."


def _func_witness(t: Tmpl) -> Optional[str]:
    if t.funcs:
        f = t.funcs[0]
        ex = witness.call_example(f)
        return f"{ex} eq 1"
    if t.kind:
        return f"{witness.example(t.kind, t.discr)} eq 1" if t.kind not in ("Compare", "BoolOp") else witness.example(t.kind, t.discr)
    return None


def _exactly_once(ctx: Ctx, A: SqlAnalysis, t: Tmpl, key: str):
    paths: List[str] = []
    for tok in t.st.toks:
        if tok.kind in ("hole", "join"):
            n = hole_node(tok)
            if n is not None:
                paths.append(n.path.replace("[*]", ""))
        elif tok.kind in ("string", "qident"):
            for c in tok.value or []:
                if not isinstance(c, str) and c[0] == "dyn" and isinstance(c[1], Sym) and c[1].op == "visit" and isinstance(c[1].args[1], NodeV):
                    paths.append(c[1].args[1].path)
    if t.kind is not None:
        nc = A.schema.classes[t.kind]
        df = A.kf.kinds.discr_field(t.kind)
        want = [f"node.{f.name}" for f in nc.fields if f.shape in ("node", "list_node", "optional_node") and f.name != df]
        got = [p for p in paths if p.count(".") == 1 and not (df and p == f"node.{df}")]
        null_swap = sorted(got) == sorted(want) and any(
            hole_node(tok) is not None and hole_node(tok).kinds == {"Null"} for tok in t.st.holes) and \
            any(x.kind == "op" and x.text in ("IS", "IS NOT") for x in t.st.toks)
        if want and not null_swap:
            ctx.check(got == want, "R4.operands-once-in-order", key,
                      f"template `{_clip(t.text())}` contains the operands {got}; each of {want} must appear exactly once, in source order", t.where,
                      _func_witness(t))
    else:
        want_n = t.nargs or 0
        counts = {i: 0 for i in range(want_n)}
        for tok in t.st.toks:
            for piece in ([tok.value] if tok.kind in ("hole", "raw") else [c for c in (tok.value or []) if not isinstance(c, str)] if tok.kind in ("string", "qident") else []):
                m = re.findall(r"args\[(\d+)\]", repr(piece))
                for i in set(int(x) for x in m):
                    if i in counts:
                        counts[i] += 1
        bad = {i: c for i, c in counts.items() if c != 1}
        ctx.check(not bad, "R4.arguments-once", key, f"template `{_clip(t.text())}`: argument occurrence counts {counts} (each argument must be emitted exactly once)",
                  t.where, _func_witness(t))
