"""C18 - type inference never reports a wrong type."""
from __future__ import annotations

from typing import Any, Dict, List, Optional, Tuple

from ..interp import Interp, KindEnv
from ..report import AnalysisError, Ctx
from ..values import NONE, Const, NewNode, NodeV, ObjV, PyList, PyTuple, RefV, Sym
from . import oracles as O

EXPLANATION = (
    "Static analysis of odata_query/typing.py. R1: infer_return_type is evaluated by the abstract interpreter for every "
    "function name of the OData table, near-miss spellings and foreign namespaces (the function branches only on the "
    "dotted name, so this grid exhausts its control flow); each answer must be the specification's return type, an "
    "argument-derived type for concat/substring (argument index within the function's minimum arity), or unknown. "
    "R2: infer_type is evaluated for every node class (per operator kind for UnaryOp); the answer must be unknown or "
    "the kind's actual type - own class for literals, Boolean for comparisons/logical operators/lambdas, delegation "
    "to R1 for calls, never a definite type for data-dependent kinds. R3: typecheck is evaluated on the grid "
    "(single/tuple expectation x unknown/allowed/disallowed actual type) and must raise ArgumentTypeException exactly "
    "when the actual type is known and not allowed."
)
RULE_TEXT = "one obligation per function name, per node class, per typecheck grid point"

AST = "odata_query.ast."
TYPING = "odata_query.typing"
BOOLEAN_KINDS = {"Compare", "BoolOp", "CollectionLambda"}


def run(ctx: Ctx, env):
    repo, schema = env.repo, env.schema
    tm = repo.modules.get(TYPING)
    if tm is None:
        raise AnalysisError("odata_query/typing.py not found")
    found = {}
    for fn in ("infer_type", "infer_return_type", "typecheck"):
        found[fn] = repo.function(TYPING, fn)  # defined in typing.py or re-exported from a private module
        if found[fn] is None:
            raise AnalysisError(f"typing.{fn} not found", tm.rel)
    (irt_m, irt), (it_m, it_fn), (tc_m, tc_fn) = found["infer_return_type"], found["infer_type"], found["typecheck"]

    # ---- R1 infer_return_type on the name grid ---------------------------------------------------------------
    names: List[Tuple[Tuple[str, ...], str]] = []
    for full in O.ODATA_FUNCTION_ARITY:
        parts = full.split(".")
        ns, nm = tuple(parts[:-1]), parts[-1]
        names += [(ns, nm), (ns, nm.upper()), (("custom",), nm), (ns, nm + "x")]
        if ns:
            names.append(((), nm))
        else:
            names.append((("geo",), nm))
    names += [((), "unknownfunction"), (("a", "b"), "length")]
    n_rows = _name_grid(ctx, env, (irt_m, irt), (it_m, it_fn), names, "R1.return-type", "infer_return_type")
    # infer_type applied to a call must give the very same answers (however it gets them: by delegating or by its own table)
    _name_grid(ctx, env, (it_m, it_fn), (it_m, it_fn), names, "R2.infer-type-of-call", "infer_type")
    ctx.floor("function names evaluated", n_rows, 100)
    _rest(ctx, env, (it_m, it_fn), (tc_m, tc_fn), f"{irt_m.name}.{irt.name}")


def _name_grid(ctx: Ctx, env, entry_mf, it_mf, names, rule: str, entry_name: str) -> int:
    repo, schema = env.repo, env.schema
    tm, irt = entry_mf
    it_m, it_fn = it_mf
    it_q = f"{it_m.name}.{it_fn.name}"  # the name the interpreter knows infer_type by: that of the module defining it
    seen = set()
    n_rows = 0
    for ns, nm in names:
        if (ns, nm) in seen:
            continue
        seen.add((ns, nm))
        full = ".".join(ns + (nm,))
        arity = O.ODATA_FUNCTION_ARITY.get(full)
        nargs = arity[0] if arity else 2
        interp = Interp(repo, schema, env.kindflow.kinds)
        it_fn_ = it_fn

        # the call's arguments are opaque: asking for their type is answered by a stub that records the question; any other
        # use of infer_type (on the call node itself, when infer_type is the entry) is evaluated for real
        def arg_stub(it, a, kw, it_fn_=it_fn_):
            if a and isinstance(a[0], NodeV) and a[0].path.startswith("args["):
                return Sym("call", RefV(TYPING + ".infer_type"), (a[0],), ())
            return it.call_function(it_m, it_fn_, list(a), dict(kw), None)

        interp.func_overrides = {it_q: arg_stub}

        def setup(it, ns=ns, nm=nm, nargs=nargs):
            func = NewNode("Identifier", {"name": Const(nm), "namespace": Const(tuple(ns))}, "grid")
            args = PyList([NodeV(f"args[{i}]", env.kindflow.expr_kinds) for i in range(nargs)])
            node = NewNode("Call", {"func": func, "args": args}, "grid")
            return tm, irt, [node], {}, None

        paths = interp.explore(setup)
        from .common import check_shared_caches
        check_shared_caches(ctx, paths, "R5.no-cached-types", "the type inferred for one call is reported for a later, different call of the same function",
                            "substring('abc', 1) then substring((1, 2), 1)")
        n_rows += 1
        want = O.ODATA_FUNCTION_RETURN.get(full) if arity else None
        key = full
        where = tm.loc(irt)
        for x in paths:
            if x.outcome != "return":
                q = interp.exc_class(x.value)
                ctx.fail(rule, f"{key}|raise", f"{entry_name}({full}(...)) raises {q} "
                         f"(with {nargs} arguments - the function's minimum arity)", x.where, f"{full}({', '.join('x' * 1 for _ in range(nargs))})")
                continue
            v = x.value
            if isinstance(v, Const) and v.v is None:
                ctx.ok(rule, f"{key}|unknown", "unknown", nontrivial=False)
                continue
            if isinstance(v, RefV) and v.qual.startswith(AST):
                got = v.qual[len(AST):]
                ctx.check(want is not None and want != "ARG" and got == want, rule, f"{key}|{got}",
                          f"{entry_name} says {full} returns {got}; OData says {want or 'nothing known (not a built-in: must be unknown)'}",
                          where, f"{full}(...)")
                continue
            if isinstance(v, Sym) and v.op == "call" and isinstance(v.args[0], RefV) and v.args[0].qual.endswith("infer_type"):
                arg = v.args[1][0] if v.args[1] else None
                path = getattr(arg, "path", "")
                import re as _re
                m = _re.match(r"args\[(\d+)\]$", path)
                idx = int(m.group(1)) if m else None
                allowed = O.ODATA_FUNCTION_RETURN_ARGS.get(full, set())
                ctx.check(want == "ARG" and idx in allowed, rule, f"{key}|arg-derived|{idx}",
                          f"{full}: type derived from argument {idx if idx is not None else path or arg!r}; in OData the result of {full} has the type of "
                          f"argument(s) {sorted(allowed) if allowed else 'none (' + str(want) + ')'}", where,
                          "length(substring(name, 1)) eq 2" if full == "substring" else f"{full}(...)")
                continue
            ctx.fail(rule, f"{key}|other", f"{entry_name}({full}) returns {v!r}: neither unknown nor an ast class", where)
        if n_rows % 29 == 0:
            ctx.sample({"function": full, "outcomes": [repr(p.value) for p in paths]})
    return n_rows


def _rest(ctx: Ctx, env, it_mf, tc_mf, irt_q: str):
    repo, schema = env.repo, env.schema
    tm, it_fn = it_mf
    tc_m, tc_fn = tc_mf
    it_q = f"{tm.name}.{it_fn.name}"
    # ---- R2 infer_type per node class ---------------------------------------------------------------------------
    kenv = KindEnv(schema)
    cases: List[Tuple[str, Optional[str]]] = []
    for kind in schema.concrete():
        df = kenv.discr_field(kind)
        if kind == "UnaryOp" and df:
            for d in schema.subclasses_of(schema.classes[kind].field(df).node_type):
                cases.append((kind, d))
        else:
            cases.append((kind, None))
    for kind, discr in cases:
        if kind == "Call":
            continue  # decided per function name by the grid above (R2.infer-type-of-call)
        interp = Interp(repo, schema, kenv, opaque_funcs=(irt_q,))

        def setup(it, kind=kind, discr=discr):
            node = NodeV("node", {kind})
            if discr:
                df = kenv.discr_field(kind)
                node.fields[df] = NodeV(f"node.{df}", {discr}, node, via=df)
            return tm, it_fn, [node], {}, None

        paths = interp.explore(setup)
        key = kind + (f"[{discr}]" if discr else "")
        for x in paths:
            if x.outcome != "return":
                ctx.fail("R2.infer-type", f"{key}|raise", f"infer_type raises {x.value!r}", x.where)
                continue
            v = x.value
            if isinstance(v, Const) and v.v is None:
                ctx.ok("R2.infer-type", f"{key}|unknown", "unknown", nontrivial=False)
                continue
            if isinstance(v, Sym) and v.op == "call" and "infer_return_type" in repr(v.args[0]):
                ctx.check(kind == "Call" and getattr(v.args[1][0], "path", None) == "node", "R2.infer-type", f"{key}|delegates",
                          f"{key} delegates to infer_return_type", tm.loc(it_fn))
                continue
            got = v.qual[len(AST):] if isinstance(v, RefV) and v.qual.startswith(AST) else repr(v)
            if schema.is_sub(kind, "_Literal"):
                want = kind
            elif kind in BOOLEAN_KINDS or (kind == "UnaryOp" and discr == "Not"):
                want = "Boolean"
            else:
                want = None  # data dependent: only unknown is acceptable
            wit = {"UnaryOp[USub]": "contains(-a, 'x') / round(-a)", "Identifier": "length(name)", "BinOp": "round(a add b)"}.get(key)
            ctx.check(want is not None and got == want, "R2.infer-type", f"{key}|{got}",
                      f"infer_type({key}) answers {got}; the actual type is {want or 'data dependent (only unknown is acceptable)'}",
                      tm.loc(it_fn), wit)
    ctx.floor("infer_type cases", len(cases), 40)

    # ---- R3 typecheck grid ----------------------------------------------------------------------------------------
    T = lambda k: RefV(AST + k)  # noqa: E731
    expectations = [("single", T("String"), {"String"}), ("tuple", PyTuple([T("Identifier"), T("String")]), {"Identifier", "String"}),
                    ("tuple1", PyTuple([T("Integer")]), {"Integer"})]
    # a single expected class of every literal kind: class names that contain one another (Date / Time in DateTime) must not pass for each other
    expectations += [(f"single-{k}", T(k), {k}) for k in sorted(k for k in schema.concrete() if schema.is_sub(k, "_Literal")) if k != "String"]
    # every class type inference can answer with: the literal classes (a subclass relation between two of them must not make one
    # pass for the other) and Identifier
    actuals = [None, "Identifier"] + sorted(k for k in schema.concrete() if schema.is_sub(k, "_Literal"))
    n_grid = 0
    for ename, evalue, allowed in expectations:
        for actual in actuals:
            n_grid += 1
            interp = Interp(repo, schema, kenv)
            interp.func_overrides = {it_q: (lambda it, args, kw, actual=actual: NONE if actual is None else T(actual))}

            def setup(it, evalue=evalue):
                return tc_m, tc_fn, [NodeV("node", set(schema.concrete())), evalue, Const("field")], {}, None

            paths = interp.explore(setup)
            key = f"{ename}|{actual}"
            should_raise = actual is not None and actual not in allowed
            ok = len(paths) >= 1
            for x in paths:
                if should_raise:
                    q = interp.exc_class(x.value) if x.outcome == "raise" else None
                    good = q is not None and q.endswith(".ArgumentTypeException")
                else:
                    good = x.outcome == "return"
                if not good:
                    ok = False
                    ctx.fail("R3.typecheck", key, f"typecheck(expected={sorted(allowed)}, inferred={actual}) "
                             f"{'raises ' + repr(x.value) if x.outcome == 'raise' else 'accepts'}; it must "
                             f"{'raise ArgumentTypeException' if should_raise else 'accept'}", tc_m.loc(tc_fn),
                             "contains(name, 5)" if should_raise else "contains(name, 'x')")
                    break
            if ok:
                ctx.ok("R3.typecheck", key, "raises" if should_raise else "accepts")
    ctx.floor("typecheck grid", n_grid, 18)
    ctx.trust("OData 4.01 Part 2 5.1.1.5-5.1.1.13 return types (oracle, sa/props/oracles.py)")
