"""C02 - Django apply_odata_query returns exactly the objects the filter denotes (structural clauses)."""
from __future__ import annotations

import ast
from typing import Any, Dict, List, Optional, Set, Tuple

from .. import heval, termrules as T, witness
from ..interp import Interp
from ..report import AnalysisError, Ctx
from ..values import Const, NodeV, ObjV, RefV, Sym
from . import oracles as O

EXPLANATION = (
    "Decides the structural clauses of the property on AstToDjangoQVisitor, not Django's SQL generation. Every handler is "
    "evaluated by the abstract interpreter into constructor terms. (1) each OData operator maps to the Django construct of "
    "the same meaning and receives its operands in source order; the in-repo NotEqual lookup renders `<>`; "
    "COMPARISON_FLIP is an involution mapping each comparator to its mirror; (2) `eq null` -> IsNull(lhs, True), `ne null` "
    "-> IsNull(lhs, False), other comparators with null refuse; (3) every djangofunc_* matches the meaning table "
    "(argument order, StrIndex(...) - 1, Substr(s, i + 1, n), Extract*/Trunc*/Lower/...); (4) visit promotes the result "
    "with _ensure_q exactly when the depth returns to 0, and _ensure_q is the identity on Q/Exists; (5) the shorthand "
    "annotates before it filters, on the incoming queryset; (7) the substring family type-checks both operands on every "
    "path before the lookup is built."
)
RULE_TEXT = "one obligation per operator handler, per function handler x count, per visit depth case, per shorthand path"

DJ = "odata_query.django.django_q.AstToDjangoQVisitor"
OP_CONSTRUCT = {
    "Eq": {"django.db.models.lookups.Exact"}, "NotEq": {"odata_query.django.django_q_ext.NotEqual"},
    "Lt": {"django.db.models.lookups.LessThan"}, "LtE": {"django.db.models.lookups.LessThanOrEqual"},
    "Gt": {"django.db.models.lookups.GreaterThan"}, "GtE": {"django.db.models.lookups.GreaterThanOrEqual"},
    "In": {"django.db.models.lookups.In"},
    "Add": {"operator.add"}, "Sub": {"operator.sub"}, "Mult": {"operator.mul"}, "Div": {"operator.truediv"}, "Mod": {"operator.mod"},
    "And": {"operator.and_"}, "Or": {"operator.or_"}, "Not": {"operator.invert", "operator.inv", "operator.not_"},
}
MIRROR = {"Exact": "Exact", "NotEqual": "NotEqual", "LessThan": "GreaterThan", "LessThanOrEqual": "GreaterThanOrEqual",
          "GreaterThan": "LessThan", "GreaterThanOrEqual": "LessThanOrEqual", "Eq": "Eq", "NotEq": "NotEq", "Lt": "Gt", "LtE": "GtE",
          "Gt": "Lt", "GtE": "LtE"}
UNARY_FUNCS = {"length": "Length", "tolower": "Lower", "toupper": "Upper", "trim": "Trim", "date": "TruncDate", "time": "TruncTime",
               "year": "ExtractYear", "month": "ExtractMonth", "day": "ExtractDay", "hour": "ExtractHour", "minute": "ExtractMinute",
               "second": "ExtractSecond", "ceiling": "Ceil", "floor": "Floor", "round": "Round"}
SUBSTR_LOOKUP = {"contains": "Contains", "startswith": "StartsWith", "endswith": "EndsWith"}


def _canon(q: str) -> str:
    return q.replace("django.db.models.lookups.", "django.db.models.lookups.")


def check_notequal_lookup(ctx, env, rule: str = "R1.notequal-lookup"):
    """The custom `ne` lookup, evaluated: SQL text `lhs <> rhs`, parameters = lhs parameters then rhs parameters (nothing spliced
    into the text, nothing dropped). Shared with C08 (a value rendered into the SQL text is no longer a bound parameter)."""
    repo = env.repo
    # NotEqual lookup renders <>
    ne = repo.classes.get("odata_query.django.django_q_ext.NotEqual")
    if ne is not None and "as_sql" in ne.methods:
        afn = ne.methods["as_sql"]
        interp = env.interp()

        def setup_ne(it):
            return ne.module, afn, [ObjV(ne.qual, {}, "self"), Sym("compiler"), Sym("connection")], {}, ne.qual

        for p in interp.explore(setup_ne):
            t = T.norm(p.value) if p.outcome == "return" else None
            ok = False
            why = f"returns {T.show(t) if t else p.outcome}"
            if t and t[0] == "tuple" and len(t) == 3 and t[1][0] == "str":
                parts = t[1][1]
                # "<lhs> <> <rhs>" with lhs/rhs being the first elements of process_lhs / process_rhs
                def side(x):
                    r = repr(x)
                    return "lhs" if "process_lhs" in r else ("rhs" if "process_rhs" in r else "?")
                dyn = [q for q in parts if q[0] == "dyn"]
                lits = "".join(q[1] for q in parts if q[0] == "lit").strip()
                text_ok = len(dyn) == 2 and side(dyn[0][1]) == "lhs" and side(dyn[1][1]) == "rhs" and lits in ("<>", "!=")
                params = t[2]
                order = [side(x) for x, _ in T.walk(params) if isinstance(x, tuple) and x and x[0] == "sym" and x[1] == "elem"]
                params_ok = order[:2] == ["lhs", "rhs"] and len(order) == 2
                ok = text_ok and params_ok
                why = (f"SQL text `{T.show(t[1], 80)}` with parameters ordered {order}: the text must be `lhs <> rhs` and the parameters "
                       "lhs-parameters followed by rhs-parameters (placeholders bind positionally)")
            ctx.check(ok, rule, "NotEqual.as_sql", f"the custom `ne` lookup: {why}", ne.module.loc(afn), "id add 1 ne 3")
    else:
        ctx.fail(rule, "NotEqual.as_sql", "custom NotEqual lookup not found")


def _case_when_rule(ctx: Ctx, env):
    """A lookup used as a value is wrapped as CASE WHEN <lookup> THEN true ELSE false: Django's When(condition) without `then` yields NULL
    for matching rows (then=None), and a Case without `default` yields NULL for the others - `contains(a, 'x') eq true` then selects nothing.
    Every When(...) / Case(...) built by the Django visitor is read off the syntax tree: then must be True, default must be False."""
    import ast as _ast
    repo = env.repo
    ci = repo.classes.get(DJ)
    if ci is None:
        return

    def truth(x):
        if isinstance(x, _ast.Constant) and isinstance(x.value, bool):
            return x.value
        if isinstance(x, _ast.Call) and _ast.unparse(x.func).endswith("Value") and len(x.args) == 1 and isinstance(x.args[0], _ast.Constant) \
                and isinstance(x.args[0].value, bool):
            return x.args[0].value
        return None
    n = 0
    for q in repo.mro(DJ):
        c2 = repo.classes.get(q)
        if c2 is None or not q.startswith("odata_query."):
            continue
        for name, fn in c2.methods.items():
            for call in _ast.walk(fn):
                if not isinstance(call, _ast.Call):
                    continue
                fname = _ast.unparse(call.func).rsplit(".", 1)[-1]
                if fname in ("When", "Case") and (any(k.arg is None for k in call.keywords) or any(isinstance(a, _ast.Starred) for a in call.args)):
                    raise AnalysisError(f"{c2.name}.{name}: `{_ast.unparse(call)[:60]}` passes its arguments through * / **: not read off the "
                                        "syntax tree", c2.module.loc(call))
                if fname == "When":
                    n += 1
                    then = next((k.value for k in call.keywords if k.arg == "then"), call.args[1] if len(call.args) >= 2 else None)
                    if then is not None and truth(then) is None:
                        raise AnalysisError(f"{c2.name}.{name}: When(..., then={_ast.unparse(then)}) - not a literal truth value", c2.module.loc(call))
                    ctx.check(then is not None and truth(then) is True, "R4.case-when-yields-a-boolean", f"{c2.name}.{name}|When",
                              f"`{_ast.unparse(call)[:80]}`: the value of a matching row is {'NULL (no then=)' if then is None else 'false'}, not true",
                              c2.module.loc(call), "contains(title, 'x') eq true")
                elif fname == "Case":
                    n += 1
                    default = next((k.value for k in call.keywords if k.arg == "default"), None)
                    if default is not None and truth(default) is None:
                        raise AnalysisError(f"{c2.name}.{name}: Case(..., default={_ast.unparse(default)}) - not a literal truth value", c2.module.loc(call))
                    ctx.check(default is not None and truth(default) is False, "R4.case-when-yields-a-boolean", f"{c2.name}.{name}|Case",
                              f"`{_ast.unparse(call)[:80]}`: the value of a non-matching row is {'NULL (no default=)' if default is None else 'true'}, not false",
                              c2.module.loc(call), "contains(title, 'x') eq false")
    ctx.analysed["case_when_calls"] = n


def run(ctx: Ctx, env):
    repo = env.repo
    if DJ not in repo.classes:
        raise AnalysisError("AstToDjangoQVisitor not found")
    H = heval.get(env)
    ci = repo.classes[DJ]
    dm = ci.module

    # ---- (0) the front of the pipeline the shorthand runs: literal values as written, parse -> visit -> filter ----------
    from .c06 import check_token_actions
    from .c15 import _check_chain
    check_token_actions(ctx, env, "R0.literal-values-as-written")
    from .common import check_mutable_defaults
    check_mutable_defaults(ctx, env, ("odata_query.django",), "R6.no-state-shared-between-calls", "a later translation depends on an earlier one")
    # the Django handlers refuse ill-typed and accept well-typed arguments through typing.typecheck / infer_type: C18's rules are a precondition
    from . import c18 as _c18
    from .c04 import _SubCtx
    _c18.run(_SubCtx(ctx, only={"R1.return-type", "R2.infer-type-of-call", "R3.typecheck"}, rename=lambda r: "R0.typing-" + r.split(".", 1)[1]), env)
    from .c19 import check_py_val_case
    check_py_val_case(ctx, env, "R0.literal-values-independent-of-case")
    _check_chain(ctx, env, "django.apply_odata_query", "odata_query.django.shorthand", "apply_odata_query", "AstToDjangoQVisitor")

    # ---- (1) operator constructs ---------------------------------------------------------------------------------
    n_ops = 0
    for cls, allowed in OP_CONSTRUCT.items():
        ps = H.eval_visit(DJ, cls)
        if not ps:
            ctx.fail("R1.operator-construct", cls, f"no handler for {cls}", dm.rel)
            continue
        n_ops += 1
        for p in ps:
            v = T.norm(p.value) if p.outcome == "return" else None
            q = v[1] if v and v[0] == "ref" else None
            qq = repo.canonical(q) if q else None
            allowed_c = {repo.canonical(a) for a in allowed}
            ctx.check(qq in allowed or q in allowed or qq in allowed_c, "R1.operator-construct", cls,
                      f"OData `{O.OPERATOR_KEYWORD[cls]}` is translated with {T.show(v) if v else p.outcome}; expected {sorted(T.short(a) for a in allowed)}",
                      p.entry.get("where", ""), witness.example(O.OPERATOR_NODE[cls], cls))
    ctx.floor("operator handlers", n_ops, 13)
    check_notequal_lookup(ctx, env)
    # operand order in the composite handlers
    for kind, d, fields in [("Compare", c, ("comparator", "left", "right")) for c in ("Gt", "GtE", "Lt", "LtE")] + \
            [("BinOp", o, ("op", "left", "right")) for o in ("Sub", "Add", "Mult", "Div", "Mod")] + \
            [("BoolOp", o, ("op", "left", "right")) for o in ("And", "Or")]:
        for p in H.eval_visit(DJ, kind, d) or []:
            if p.outcome != "return":
                continue
            t = T.norm(p.value)
            if t[0] == "call" and T.is_visit(t[1], f"node.{fields[0]}"):
                args = t[2]
                ok = len(args) == 2 and _mentions_visit(args[0], "node.left") and _mentions_visit(args[1], "node.right") and \
                    not _mentions_visit(args[0], "node.right")
                ctx.check(ok, "R1.operand-order", f"visit_{kind}", f"{kind} is built as {T.show(t)}: operands must be (left, right) in source order",
                          p.entry.get("where", ""), witness.example(kind, d))
                if ok and kind == "Compare":
                    # a comparison compares the two translations themselves: anything wrapped around one of them (a CASE that maps
                    # unknown to false, a cast, a default) changes which rows compare equal, most visibly for NULL
                    plain = T.is_visit(args[0], "node.left") and T.is_visit(args[1], "node.right")
                    ctx.check(plain, "R1.comparison-operands-unwrapped", f"visit_Compare|{d}",
                              f"the comparison is built as `{T.show(t, 200)}`: an operand is not the plain translation of the node's operand, so "
                              "its NULL/unknown behaviour is no longer that of the operand", p.entry.get("where", ""),
                              "false eq contains(s, 'b')  on a row where s is NULL")
            elif T.is_call_of(t, "IsNull"):
                pass
            else:
                ctx.fail("R1.operand-order", f"visit_{kind}", f"{kind} is built as {T.show(t)}: expected <construct>(left, right)", p.entry.get("where", ""))
    # COMPARISON_FLIP
    cf = repo.assign(dm.name, "COMPARISON_FLIP")
    if cf is not None:
        try:
            table = repo.fold(cf[0], cf[1])
        except Exception as e:
            raise AnalysisError(f"COMPARISON_FLIP is not a constant table: {e}", dm.rel)
        names = {T.short(k.qual): T.short(v.qual) for k, v in table.items()}
        for k, v in names.items():
            ctx.check(MIRROR.get(k) == v, "R1.comparison-flip", k, f"COMPARISON_FLIP maps {k} to {v}; flipping operands requires {MIRROR.get(k)}",
                      cf[0].loc(cf[1]), "4 gt version_id")
            ctx.check(names.get(v) == k, "R1.comparison-flip-involution", k, f"flip(flip({k})) = {names.get(v)}", dm.rel)

    # ---- (2) null tests -------------------------------------------------------------------------------------------
    for d in [x for (k, x) in H.kind_cases() if k == "Compare"]:
        # evaluated for exactly the trees whose right operand is the null literal (a handler that never asks is still decided)
        for p in H.eval_visit(DJ, "Compare", d, fields={"right": {"Null"}}) or []:
            key = f"Compare[{d}]|null"
            if d in ("Eq", "NotEq"):
                t = T.norm(p.value) if p.outcome == "return" else None
                ok = t is not None and T.is_call_of(t, "IsNull") and len(t[2]) == 2 and T.is_visit(t[2][0], "node.left") and \
                    t[2][1] == ("const", d == "Eq")
                ctx.check(ok, "R2.null-polarity", key, f"`{O.OPERATOR_KEYWORD[d]} null` is translated as {T.show(t) if t else p.outcome}; "
                          f"required IsNull(<left>, {d == 'Eq'})", p.entry.get("where", ""), f"a {O.OPERATOR_KEYWORD[d]} null")
            else:
                q = _exc(p)
                ok = p.outcome == "raise" and q is not None and q in repo.classes and "odata_query.exceptions.ODataException" in repo.mro(q)
                ctx.check(ok, "R2.null-polarity", key, f"`{O.OPERATOR_KEYWORD.get(d, d)} null` must be refused with a library exception; got "
                          f"{p.outcome} {T.show(T.norm(p.value))}", p.entry.get("where", ""), f"a {O.OPERATOR_KEYWORD.get(d, d)} null")

    # ---- (3) function table ------------------------------------------------------------------------------------------
    n_fn = 0
    handlers = H.func_handlers(DJ)
    for hn in sorted(handlers):
        for f in H.functions_for_handler(DJ, hn):
            if "." in f:
                continue
            lo, hi = H.table[f]
            for n in range(lo, hi + 1):
                for p in H.eval_func(DJ, hn, n):
                    if p.outcome != "return":
                        continue
                    n_fn += 1
                    from .common import check_arguments_influence
                    check_arguments_influence(ctx, "R3.result-depends-on-operands", f"{hn}/{n}", p, env.schema, p.entry.get("where", ""))
                    t = T.norm(p.value)
                    problem = _check_function(f, n, t)
                    if problem == "UNKNOWN":
                        raise AnalysisError(f"the Django form `{T.show(t)}` of {f}/{n} is unknown to the meaning table (sa/props/c02.py)",
                                            p.entry.get("where", ""))
                    ctx.check(problem is None, "R3.function-meaning", f"{hn}|{f}/{n}", f"{f}: built as `{T.show(t)}`: {problem}",
                              p.entry.get("where", ""), witness.call_example(f) + ("" if O.ODATA_FUNCTION_RETURN.get(f) == "Boolean" else " eq 1"))
    ctx.floor("function handler paths", n_fn, 20)
    dd = H.dispatch(DJ)
    ctx.check(H.dispatch_passes_positional(DJ) is not False, "R3.call-arguments-reach-the-handler", "visit_Call",
              "no path of visit_Call hands the call's positional arguments (node.args) to the djangofunc_* handler: the handlers above are "
              "never given the operands they translate", dd.where if dd else dm.rel, "length(name) eq 4")

    # ---- (7) substring family type checks ------------------------------------------------------------------------------
    for f, lk in SUBSTR_LOOKUP.items():
        hn = "djangofunc_" + f
        r = repo.lookup_method(DJ, hn)
        if r is None:
            continue
        interp = env.interp(opaque_funcs=(env.func_q("odata_query.typing", "typecheck"),))
        hci, fn = r

        def setup(it, hci=hci, fn=fn):
            a = [NodeV("args[0]", env.kindflow.expr_kinds), NodeV("args[1]", env.kindflow.expr_kinds)]
            it._cur_args = a
            return hci.module, fn, [ObjV(DJ, {}, "self")] + a, {}, hci.qual

        for p in interp.explore(setup):
            if p.outcome != "return":
                continue
            checks = [ev for ev in p.events if ev.kind == "call_repo_func" and ev.data["func"].endswith("typecheck")]
            seen = {}
            for ev in checks:
                a = ev.data["args"]
                seen[getattr(a[0], "path", "?")] = T.norm(a[1])
            ok0 = seen.get("args[0]") is not None and {T.short(x[1]) for x in seen["args[0]"][1:]} if False else None
            want0 = {"Identifier", "String"}
            got0 = _type_set(seen.get("args[0]"))
            got1 = _type_set(seen.get("args[1]"))
            ctx.check(got0 == want0 and got1 == {"String"}, "R7.substring-typechecks", hn,
                      f"{f}: before building the lookup the operands must be type-checked (field: Identifier|String, substring: String); "
                      f"found checks {dict((k, sorted(_type_set(v) or [])) for k, v in seen.items())}", hci.module.loc(fn), f"{f}(name, 5)")

    # ---- (4) promotion to Q at depth 0 -------------------------------------------------------------------------------------
    r = repo.lookup_method(DJ, "visit")
    if r is None or r[0].qual != DJ:
        ctx.fail("R4.top-level-promotion", "visit", "AstToDjangoQVisitor no longer overrides visit: top-level results are not promoted to Q", dm.rel)
    else:
        vci, vfn = r
        depth_attr = _depth_attr(vfn)
        for depth, want_promote in ((0, True), (1, False), (3, False)):
            interp = env.interp()
            interp.inline_visit = True
            interp.stub_methods = lambda name: name.startswith("visit_") or name in ("generic_visit",) or name.startswith("_ensure")

            def setup(it, depth=depth):
                obj = ObjV(DJ, {depth_attr: Const(depth)} if depth_attr else {}, "self")
                it._cur_args = [obj]
                return vci.module, vfn, [obj, NodeV("node", {"Compare"})], {}, vci.qual

            for p in interp.explore(setup):
                stubs = [ev.data["name"] for ev in p.events if ev.kind == "stub_call"]
                promoted = any(n.startswith("_ensure") for n in stubs)
                obj = p.entry["args"][0]
                final = obj.attrs.get(depth_attr) if depth_attr else None
                restored = isinstance(final, Const) and final.v == depth
                ctx.check(p.outcome == "return" and promoted == want_promote and restored, "R4.top-level-promotion", f"depth={depth}",
                          f"visit() entered at depth {depth}: promoted to Q: {promoted} (required {want_promote}); depth counter afterwards "
                          f"{getattr(final, 'v', final)!r} (required {depth})", vci.module.loc(vfn), "contains(title, 'x')")
        _case_when_rule(ctx, env)
        er = repo.lookup_method(DJ, "_ensure_q")
        if er:
            eci, efn = er
            interp = env.interp()

            def setup2(it):
                return eci.module, efn, [ObjV(DJ, {}, "self"), Sym("expr")], {}, eci.qual

            for p in interp.explore(setup2):
                isq = [v for k, v in p.conds if k.startswith("isinstance(expr()")]
                if p.outcome != "return" or not isq:
                    continue
                t = T.norm(p.value)
                if isq[0] is True:
                    ctx.check(t == ("sym", "expr"), "R4.ensure-q-identity", "_ensure_q|Q", f"_ensure_q(Q/Exists) returns {T.show(t)}, must return its argument",
                              eci.module.loc(efn))
                else:
                    ctx.check(T.is_call_of(t, "Q") and t[2] == (("sym", "expr"),), "R4.ensure-q-wraps", "_ensure_q|expr",
                              f"_ensure_q(expression) returns {T.show(t)}, must return Q(expression) on Django >= 4", eci.module.loc(efn))

    # ---- (5) shorthand ------------------------------------------------------------------------------------------------------
    from .c15 import check_django_shorthand
    check_django_shorthand(ctx, env)
    ctx.assume("Django's SQL generation and SQLite's evaluation over all table contents are not decided")
    ctx.trust("meaning table: lookups.Exact/LessThan/..., StrIndex(hay, needle) 1-based, Substr(s, pos 1-based, len), Extract*/Trunc*")


def _exc(p) -> Optional[str]:
    v = p.value
    if isinstance(v, Sym) and v.op == "exc" and isinstance(v.args[0], RefV):
        return v.args[0].qual
    return None


def _mentions_visit(t, path: str) -> bool:
    return any(T.is_visit(x, path) for x, _ in T.walk(t))


def _type_set(t) -> Optional[Set[str]]:
    if t is None:
        return None
    if t[0] == "ref":
        return {T.short(t[1])}
    if t[0] in ("tuple", "list"):
        return {T.short(x[1]) for x in t[1:] if x[0] == "ref"}
    return set()


def _depth_attr(fn: ast.FunctionDef) -> Optional[str]:
    for n in ast.walk(fn):
        if isinstance(n, ast.AugAssign) and isinstance(n.target, ast.Attribute) and isinstance(n.target.value, ast.Name) and n.target.value.id == "self":
            return n.target.attr
    return None


def _is_arg(t, i: int) -> bool:
    return T.is_visit(t, f"args[{i}]")


def _check_function(f: str, n: int, t) -> Optional[str]:
    if f in UNARY_FUNCS:
        want = UNARY_FUNCS[f]
        if t[0] != "call" or t[1][0] != "ref":
            return "UNKNOWN"
        name = T.short(t[1][1])
        if name != want:
            known = set(UNARY_FUNCS.values())
            return f"{f} is translated with {name}; expected {want}" if name in known else "UNKNOWN"
        if len(t[2]) != 1 or not _is_arg(t[2][0], 0):
            return f"{want} must be applied to argument 0"
        return None
    if f == "now":
        return None if T.is_call_of(t, "Now") and not t[2] else "UNKNOWN"
    if f == "concat":
        if T.is_call_of(t, "Concat"):
            args = t[2]
            if len(args) == 1 and args[0][0] == "star":
                inner = args[0][1]
                items = [x for x in inner[1:] if isinstance(x, tuple)]
                if inner[0] == "list" and len(items) == n and all(_is_arg(x, i) for i, x in enumerate(items)):
                    return None
                return "arguments are concatenated out of order"
            if len(args) == n and all(_is_arg(x, i) for i, x in enumerate(args)):
                return None
            return "arguments are concatenated out of order"
        return "UNKNOWN"
    if f == "indexof":
        if t[0] == "binop" and T.is_call_of(t[2], "StrIndex"):
            inner = t[2]
            if not (len(inner[2]) == 2 and _is_arg(inner[2][0], 0) and _is_arg(inner[2][1], 1)):
                return "StrIndex(haystack, needle): argument 0 of indexof is the searched string, argument 1 the substring"
            if t[1] == "-" and t[3] == ("const", 1):
                return None
            return f"the 1-based position is shifted by `{t[1]} {t[3][1] if t[3][0] == 'const' else '?'}`; OData's indexof is 0-based: `- 1`"
        if T.is_call_of(t, "StrIndex"):
            return "the 1-based position is returned unshifted; OData's indexof is 0-based: `- 1`"
        return "UNKNOWN"
    if f == "substring":
        if not T.is_call_of(t, "Substr"):
            return "UNKNOWN"
        a = t[2]
        if len(a) < 2 or not _is_arg(a[0], 0):
            return "the string (argument 0) must come first"
        st = a[1]
        if not (st[0] == "binop" and st[1] == "+" and _is_arg(st[2], 1) and st[3] == ("const", 1)):
            return f"start position is `{T.show(st)}`; OData is 0-based, Substr 1-based: `<index> + 1`"
        if n == 3:
            if len(a) < 3 or not _is_arg(a[2], 2):
                return "the length (argument 2) must be passed as third argument"
        elif len(a) >= 3 and a[2] != ("const", None):
            return "no length was given but one is passed"
        return None
    if f in SUBSTR_LOOKUP:
        if t[0] == "call" and t[1][0] == "ref":
            name = T.short(t[1][1])
            if name != SUBSTR_LOOKUP[f]:
                return f"{f} is translated with {name}; expected {SUBSTR_LOOKUP[f]}" if name in SUBSTR_LOOKUP.values() else "UNKNOWN"
            if len(t[2]) == 2 and _is_arg(t[2][0], 0) and _is_arg(t[2][1], 1):
                return None
            return "operands must be (field, substring)"
        return "UNKNOWN"
    if f == "matchesPattern":
        if T.is_call_of(t, "Regex") and len(t[2]) == 2 and _is_arg(t[2][0], 0) and _is_arg(t[2][1], 1):
            return None
        return "UNKNOWN"
    return "UNKNOWN"
