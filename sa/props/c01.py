"""C01 - the SQLite WHERE clause selects exactly the rows the OData filter denotes (structural clauses)."""
from __future__ import annotations

import re
from typing import Any, Dict, List, Optional, Set, Tuple

from .. import heval, sqlrules, sqltok, witness
from ..report import AnalysisError, Ctx
from ..sqlrules import SqlAnalysis, Tmpl, hole_node, raw_origin
from ..values import NodeV, Sym
from . import c09
from . import oracles as O

EXPLANATION = (
    "Decides the structural clauses of the property on the SQLite visitor (handlers resolved through its MRO), not "
    "SQLite's evaluation. Every handler is evaluated by the abstract interpreter into its finite set of templates; "
    "then: (1) grouping is preserved under SQLite's precedence for every admissible (template, hole, child template) "
    "triple, templates are well-formed, no placeholder, operands once and in order (the C09 rules instantiated for "
    "SQLite); (2) every OData operator is spelled by a SQLite token of the same meaning; (3) an `eq/ne null` test is "
    "rendered with IS [NOT] whichever side the null is on; (4) LIKE patterns that embed filter text carry an ESCAPE "
    "clause and escape % and _ with it; (5) each function handler matches the meaning table: argument i flows to the "
    "slot the SQLite function assigns, index shifts present with the right sign, strftime codes match the date part, "
    "wildcards on the right side(s). A necessary condition each: breaking one breaks the behaviour for a nameable "
    "filter."
)
RULE_TEXT = "C09 obligations for SQLite + one obligation per operator spelling, null-test template, LIKE template, function handler"

OP_SPELLING = {
    "Eq": {"=", "=="}, "NotEq": {"!=", "<>"}, "Lt": {"<"}, "LtE": {"<="}, "Gt": {">"}, "GtE": {">="}, "In": {"IN"},
    "Add": {"+"}, "Sub": {"-"}, "Mult": {"*"}, "Div": {"/"}, "Mod": {"%"}, "And": {"AND"}, "Or": {"OR"}, "Not": {"NOT"},
}
STRFTIME = {"year": "%Y", "month": "%m", "day": "%d", "hour": "%H", "minute": "%M", "second": "%S"}
UNARY_FUNCS = {"length": {"LENGTH", "CHAR_LENGTH"}, "tolower": {"LOWER"}, "toupper": {"UPPER"}, "trim": {"TRIM"}, "date": {"DATE"},
               "floor": {"FLOOR"}, "ceiling": {"CEILING", "CEIL"}, "round": {"ROUND"}}
# position functions: name -> (index of haystack argument, index of needle argument)
POSITION_FUNCS = {"INSTR": (0, 1), "STRPOS": (0, 1), "CHARINDEX": (1, 0)}
SUBSTR_FUNCS = {"SUBSTR", "SUBSTRING"}


def _arg_index(tok: sqltok.Tok) -> Optional[int]:
    n = hole_node(tok) if tok.kind in ("hole", "join") else None
    if n is None:
        return None
    m = re.search(r"args\[(\d+)\]", n.path)
    return int(m.group(1)) if m else None


def _split_call(toks: List[sqltok.Tok], i: int) -> Optional[Tuple[List[List[sqltok.Tok]], int]]:
    """toks[i] is a word followed by '(' : return (argument token lists, index after ')')."""
    if i + 1 >= len(toks) or toks[i + 1].kind != "lp":
        return None
    depth = 0
    args: List[List[sqltok.Tok]] = [[]]
    j = i + 1
    while j < len(toks):
        t = toks[j]
        if t.kind == "lp":
            depth += 1
            if depth > 1:
                args[-1].append(t)
        elif t.kind == "rp":
            depth -= 1
            if depth == 0:
                return ([a for a in args if a] if args != [[]] else []), j + 1
            args[-1].append(t)
        elif t.kind == "comma" and depth == 1:
            args.append([])
        else:
            args[-1].append(t)
        j += 1
    return None


def _strip_cast(toks: List[sqltok.Tok]) -> List[sqltok.Tok]:
    """CAST(x AS INTEGER) -> x"""
    if len(toks) >= 4 and toks[0].kind == "word" and toks[0].text == "CAST" and toks[1].kind == "lp" and toks[-1].kind == "rp":
        inner = toks[2:-1]
        for k in range(len(inner) - 1, -1, -1):
            if inner[k].kind == "word" and inner[k].text == "AS":
                return inner[:k]
    return toks


def _is_hole(toks: List[sqltok.Tok], idx: int) -> bool:
    return len(toks) == 1 and _arg_index(toks[0]) == idx


def _hole_plus_one(toks: List[sqltok.Tok], idx: int) -> Optional[str]:
    """None if toks is `{idx} + 1`; otherwise a description of what it is."""
    if len(toks) == 3 and _arg_index(toks[0]) == idx and toks[1].kind == "op" and toks[2].kind == "num":
        if toks[1].text == "+" and toks[2].text == "1":
            return None
        return f"`{{{idx}}} {toks[1].text} {toks[2].text}`"
    if len(toks) == 3 and toks[0].kind == "num" and toks[1].kind == "op" and _arg_index(toks[2]) == idx:
        if toks[1].text == "+" and toks[0].text == "1":
            return None
    if _is_hole(toks, idx):
        return f"`{{{idx}}}` without the + 1 shift (OData indices are 0-based, SQL 1-based)"
    return "`" + " ".join(t.text or "{}" for t in toks) + "`"


def run(ctx: Ctx, env):
    H = heval.get(env)
    sqlite = [v for v in H.sql_visitors() if "sqlite" in v.lower()]
    if len(sqlite) != 1:
        raise AnalysisError(f"expected one SQLite visitor, found {sqlite}")
    vcls = sqlite[0]
    # clause 1 (+ well-formedness, placeholders, once/in-order): the C09 rule set on the SQLite dialect
    c09.run(ctx, env, only_dialect="sqlite")
    from .c06 import check_token_actions
    check_token_actions(ctx, env, "R0.literal-values-as-written")
    A = SqlAnalysis(env, vcls)
    vs = A.short

    # ---- clause 2: operator spellings -------------------------------------------------------------------------
    n_ops = 0
    for cls, allowed in OP_SPELLING.items():
        txt = A.op_text(cls)
        if txt is None:
            if H.resolve_visit(vcls, cls) is None:
                continue  # reported by the no-placeholder rule
            ctx.fail("R2.operator-meaning", cls, f"visit_{cls} does not return one constant SQL token")
            continue
        n_ops += 1
        r = H.resolve_visit(vcls, cls)
        ctx.check(txt.strip().upper() in allowed, "R2.operator-meaning", cls, f"OData `{O.OPERATOR_KEYWORD[cls]}` is rendered as `{txt}`; "
                  f"SQLite spells that operator {sorted(allowed)}", r[0].module.loc(r[1]), witness.example(O.OPERATOR_NODE[cls], cls))
    ctx.floor("operator spellings", n_ops, 13)

    # ---- clause 3: null tests ----------------------------------------------------------------------------------------
    n_null = 0
    for disc, want in (("Eq", "IS"), ("NotEq", "IS NOT")):
        for t in A.node_tmpls.get(("Compare", disc)) or []:
            if t.path.outcome != "return" or not t.is_string:
                continue
            ops = [x for x in t.st.toks if x.kind == "op" and x.depth == 0]
            if len(ops) != 1:
                continue
            op = ops[0]
            for h in t.st.holes:
                n = hole_node(h)
                if n is None or n.via not in ("left", "right"):
                    continue
                if "Null" not in n.kinds:
                    continue
                n_null += 1
                only_null = n.kinds == {"Null"}
                ok = op.text == want
                key = f"Compare[{disc}]|{n.via}"
                if only_null or not ok:
                    ctx.check(ok, "R3.null-test-uses-is", key,
                              f"a null {n.via} operand of `{O.OPERATOR_KEYWORD[disc]}` is rendered with `{op.text}` (template `{t.text()}`): "
                              f"`{op.text} NULL` is never true in SQL, OData's null comparison is", t.where,
                              f"null {O.OPERATOR_KEYWORD[disc]} a" if n.via == "left" else f"a {O.OPERATOR_KEYWORD[disc]} null")
    ctx.floor("null-test templates", n_null, 2)

    # ---- clause 4: LIKE discipline ----------------------------------------------------------------------------------
    n_like = 0
    for (hn, nargs), tmpls in A.func_tmpls.items():
        for t in tmpls:
            if t.path.outcome != "return" or not t.is_string:
                continue
            toks = t.st.toks
            likes = [x for x in toks if x.kind == "op" and x.text in ("LIKE", "NOT LIKE")]
            if not likes:
                continue
            for x in toks:
                if x.kind != "string":
                    continue
                raws = [c for c in (x.value or []) if not isinstance(c, str)]
                if not raws:
                    continue
                n_like += 1
                has_escape = any(y.kind == "op" and y.text == "ESCAPE" for y in toks) or any(y.kind == "word" and y.text == "ESCAPE" for y in toks)
                owner_short = ".".join(t.path.entry.get("handler", hn).rsplit(".", 2)[-2:])
                key = f"{owner_short}|pattern"
                tr = tuple(raws[0][2])
                reps = [(a[1], a[2]) for a in tr if a and a[0] == "replace"]
                esc_ok = False
                why = "no ESCAPE clause: SQLite's LIKE has no default escape character, so %% and __ are just more wildcards"
                if has_escape:
                    esc_chars = [("".join(c for c in (y.value or []) if isinstance(c, str))) for k, y in enumerate(toks)
                                 if y.kind == "string" and k > 0 and toks[k - 1].text == "ESCAPE"]
                    e = esc_chars[0] if esc_chars else None
                    if e and len(e) == 1:
                        need = {("%", e + "%"), ("_", e + "_"), (e, e + e)}
                        esc_ok = need <= set(reps) and (reps.index((e, e + e)) < min(reps.index(("%", e + "%")), reps.index(("_", e + "_"))))
                        why = f"with ESCAPE '{e}' the text must be transformed by replace({e!r},{e + e!r}) first, then % and _ prefixed with it; got {reps}"
                fn = t.funcs[0] if t.funcs else "contains"
                ctx.check(esc_ok, "R4.like-wildcards-escaped", key,
                          f"filter text is embedded in the LIKE pattern `{t.text()[:80]}` with transforms {reps}: {why}", t.where,
                          f"{fn}(name, 'a_b')  (must not match 'aXb')",
                          # the recorded finding is the doubling of % and _ without ESCAPE; another set of replacements is another
                          # defect. Only told apart when every transform of the text is a plain replace (else: the known one)
                          **({"variants": ["replaces " + ", ".join(f"{a!r}->{b!r}" for a, b in sorted(set(reps)))]}
                             if all(a and a[0] in ("replace", "str") for a in tr) else {}))
    ctx.floor("LIKE templates with embedded text", n_like, 3)

    # ---- clause 5: function table ---------------------------------------------------------------------------------------
    n_fn = 0
    for (hn, nargs), tmpls in sorted(A.func_tmpls.items()):
        for f in sorted({f for t in tmpls for f in t.funcs if "." not in f}):
            for t in tmpls:
                if t.path.outcome != "return" or not t.is_string or f not in t.funcs:
                    continue
                n_fn += 1
                problem = _check_function(f, nargs, t)
                owner_short = ".".join(t.path.entry.get("handler", hn).rsplit(".", 2)[-2:])
                if problem == "UNKNOWN":
                    raise AnalysisError(f"the SQL form `{t.text()[:100]}` of {f} is unknown to the meaning table (sa/props/c01.py)", t.where)
                ctx.check(problem is None, "R5.function-meaning", f"{owner_short}|{f}/{nargs}", f"{f}: template `{t.text()[:90]}`: {problem}", t.where,
                          witness.call_example(f) + (" eq 1" if O.ODATA_FUNCTION_RETURN.get(f) != "Boolean" else ""))
    ctx.floor("function templates", n_fn, 20)

    # literal forms
    for t in A.node_tmpls.get(("Boolean", None)) or []:
        if t.path.outcome == "return" and t.is_string:
            truth = [v for k, v in t.path.conds if k.startswith("truth(prop(node,'py_val'))")]
            txt = t.text().strip()
            if truth:
                ctx.check((txt == "1") == truth[0] and txt in ("0", "1"), "R5.boolean-literal", f"Boolean|{truth[0]}",
                          f"boolean literal with py_val={truth[0]} is rendered `{txt}`", t.where, "flag eq true")
            else:
                ctx.check(txt.upper() in ("TRUE", "FALSE", "{RAW FIELD(NODE,'VAL')|UPPER}"), "R5.boolean-literal", "Boolean|raw",
                          f"boolean literal rendered `{txt}`", t.where)
    ctx.assume("SQLite's evaluation of the emitted text (three-valued logic, collation, numeric/date functions) is not decided here")
    ctx.trust("meaning table of SQLite functions: INSTR(hay, needle), SUBSTR(s, start[, len]) 1-based, strftime codes, LIKE ... ESCAPE")


def _check_function(f: str, nargs: int, t: Tmpl) -> Optional[str]:
    toks = t.st.toks
    if f in ("contains", "startswith", "endswith"):
        likes = [i for i, x in enumerate(toks) if x.kind == "op" and x.text == "LIKE" and x.depth == 0]
        if len(likes) != 1:
            return "UNKNOWN" if not likes else "more than one LIKE"
        i = likes[0]
        left, right = toks[:i], toks[i + 1:]
        # drop a trailing ESCAPE 'c'
        for k, x in enumerate(right):
            if x.text == "ESCAPE":
                right = right[:k]
                break
        if not _is_hole(left, 0):
            return "the searched value (argument 0) must be the left operand of LIKE"
        want_pre = f in ("contains", "endswith")
        want_suf = f in ("contains", "startswith")
        if len(right) == 1 and right[0].kind == "string":
            c = right[0].value or []
            lits_before = "".join(x for x in c[:next((k for k, y in enumerate(c) if not isinstance(y, str)), len(c))] if isinstance(x, str))
            last_dyn = max((k for k, y in enumerate(c) if not isinstance(y, str)), default=-1)
            lits_after = "".join(x for x in c[last_dyn + 1:] if isinstance(x, str))
            dyn = [y for y in c if not isinstance(y, str)]
            if len(dyn) != 1 or "args[1]" not in repr(dyn[0]):
                return "the pattern must embed argument 1 exactly once"
            pre, suf = lits_before.endswith("%"), lits_after.startswith("%")
        else:
            # '%' || {1} || '%'
            parts = [x for x in right if not (x.kind == "op" and x.text == "||")]
            holes = [x for x in parts if _arg_index(x) is not None]
            if len(holes) != 1 or _arg_index(holes[0]) != 1:
                return "the pattern must be built from argument 1"
            k = parts.index(holes[0])
            def is_pct(x):
                return x.kind == "string" and "".join(c for c in (x.value or []) if isinstance(c, str)) == "%"
            pre = k > 0 and is_pct(parts[k - 1])
            suf = k + 1 < len(parts) and is_pct(parts[k + 1])
            if len(parts) != 1 + int(pre) + int(suf):
                return "UNKNOWN"
        if pre != want_pre or suf != want_suf:
            return (f"wildcards {'before' if pre else ''}{' and ' if pre and suf else ''}{'after' if suf else ''}{'none' if not pre and not suf else ''}"
                    f" the text; {f} needs {'%text%' if f == 'contains' else ('text%' if f == 'startswith' else '%text')}")
        return None
    if f == "concat":
        core = [x for x in toks]
        if len(core) == 3 and _arg_index(core[0]) == 0 and core[1].kind == "op" and core[1].text == "||" and _arg_index(core[2]) == 1:
            return None
        if core and core[0].kind == "word" and core[0].text == "CONCAT":
            sc = _split_call(core, 0)
            if sc and len(sc[0]) == 2 and _is_hole(sc[0][0], 0) and _is_hole(sc[0][1], 1):
                return None
        if len(core) == 3 and core[1].text == "||":
            return "arguments are concatenated in the wrong order"
        return "UNKNOWN"
    if f == "indexof":
        if not toks or toks[0].kind != "word":
            return "UNKNOWN"
        name = toks[0].text
        sc = _split_call(toks, 0)
        if sc is None:
            return "UNKNOWN"
        args, after = sc
        rest = toks[after:]
        if name in POSITION_FUNCS:
            hay, needle = POSITION_FUNCS[name]
            if len(args) != 2:
                return f"{name} takes (haystack, needle)"
            if not (_is_hole(args[hay], 0) and _is_hole(args[needle], 1)):
                return f"{name} expects the {'haystack' if hay == 0 else 'needle'} first: argument 0 of indexof is the searched string, argument 1 the substring"
        elif name == "POSITION":
            inner = args[0] if len(args) == 1 else []
            k = next((j for j, x in enumerate(inner) if x.kind == "op" and x.text == "IN"), None)
            if k is None or not (_is_hole(inner[:k], 1) and _is_hole(inner[k + 1:], 0)):
                return "POSITION(needle IN haystack): argument 1 of indexof is the needle"
        else:
            return "UNKNOWN"
        if len(rest) == 2 and rest[0].kind == "op" and rest[1].kind == "num":
            if rest[0].text == "-" and rest[1].text == "1":
                return None
            return f"the 1-based SQL position is shifted by `{rest[0].text} {rest[1].text}`; OData's indexof is 0-based: `- 1`"
        if not rest:
            return "the 1-based SQL position is returned unshifted; OData's indexof is 0-based: `- 1`"
        return "UNKNOWN"
    if f == "substring":
        if not toks or toks[0].kind != "word" or toks[0].text not in SUBSTR_FUNCS:
            return "UNKNOWN"
        sc = _split_call(toks, 0)
        if sc is None or toks[sc[1]:]:
            return "UNKNOWN"
        args = sc[0]
        if len(args) == 1:
            # SUBSTRING(x FROM i FOR n)
            return "UNKNOWN"
        if len(args) != nargs:
            return f"{toks[0].text} receives {len(args)} arguments for substring/{nargs}"
        if not _is_hole(args[0], 0):
            return "the string (argument 0) must come first"
        p = _hole_plus_one(args[1], 1)
        if p is not None:
            return f"start index is {p}; OData is 0-based and SQLite's SUBSTR 1-based: `{{1}} + 1`"
        if nargs == 3 and not _is_hole(args[2], 2):
            return "the length (argument 2) must be passed unchanged"
        return None
    if f in STRFTIME:
        core = _strip_cast(toks)
        if not core or core[0].kind != "word" or core[0].text != "STRFTIME":
            return "UNKNOWN"
        sc = _split_call(core, 0)
        if sc is None or len(sc[0]) != 2:
            return "UNKNOWN"
        code_t, arg_t = sc[0]
        code = "".join(c for c in (code_t[0].value or []) if isinstance(c, str)) if len(code_t) == 1 and code_t[0].kind == "string" else None
        if code != STRFTIME[f]:
            return f"strftime code {code!r}; {f}() needs {STRFTIME[f]!r}"
        if not _is_hole(arg_t, 0):
            return "the date value (argument 0) must be the second argument of STRFTIME"
        return None
    if f in UNARY_FUNCS:
        if not toks or toks[0].kind != "word":
            return "UNKNOWN"
        name = toks[0].text
        sc = _split_call(toks, 0)
        if sc is None:
            return "UNKNOWN"
        if f == "round" and name == "TRUNC" and len(sc[0]) == 1:
            a = sc[0][0]
            if len(a) == 3 and _arg_index(a[0]) == 0 and a[1].text == "+" and a[2].text == "0.5":
                return None
            return "TRUNC must be applied to `{0} + 0.5`"
        if name not in UNARY_FUNCS[f]:
            return f"{f} is rendered with {name}; expected one of {sorted(UNARY_FUNCS[f])}"
        if len(sc[0]) != 1 or not _is_hole(sc[0][0], 0) or toks[sc[1]:]:
            return f"{name} must be applied to argument 0 alone"
        return None
    if f == "now":
        txt = t.text().upper().replace(" ", "")
        return None if txt in ("DATETIME('NOW')", "CURRENT_TIMESTAMP") else "UNKNOWN"
    return "UNKNOWN"
