"""C17 - making a lambda body relative strips exactly the lambda variable's prefix."""
from __future__ import annotations

from typing import Any, Dict, List, Optional

from ..interp import Interp
from ..report import AnalysisError, Ctx
from ..values import Const, NewNode, NodeV, ObjV, RefV, Sym
from .common import make_instance, is_visit_of

EXPLANATION = (
    "Static analysis of IdentifierStripper (rewrite.py) and expression_relative_to_identifier (utils.py). The "
    "stripper is instantiated abstractly (its constructor is evaluated, so the attribute holding the variable is "
    "found, not assumed) and its Attribute handler is evaluated over the shape domain of Attribute nodes in the "
    "parser's image: owner equal to the variable / another identifier / a longer path. Required outcomes: "
    "Identifier(node.attr); the node unchanged (or an equal rebuild); Attribute(self.visit(node.owner), node.attr). "
    "No other node kind may be handled specially, the class must inherit the generic transformer (whose rebuild "
    "is decided by C16) and the shorthand must construct the stripper with its first argument and return "
    "visit(expression). By induction over path depth this is the re-rooting function of the property for every "
    "expression."
)
RULE_TEXT = "one obligation per shape of Attribute (path through visit_Attribute), per extra handler, per shorthand path"

STRIPPER = "odata_query.rewrite.IdentifierStripper"
TRANSFORMER = "odata_query.visitor.NodeTransformer"
WITNESS = "x/a/b eq 1 made relative to x"


def run(ctx: Ctx, env):
    repo = env.repo
    if STRIPPER not in repo.classes:
        raise AnalysisError("odata_query.rewrite.IdentifierStripper not found")
    ci = repo.classes[STRIPPER]
    stripper_quals = {STRIPPER, ci.qual}  # the class may live in a private module and be re-exported from rewrite.py
    # nodes are found by equality (dict lookup / `==`): structural equality over all fields is a precondition (C16's schema rules)
    from .c16 import check_node_schema
    from .c04 import _SubCtx
    check_node_schema(_SubCtx(ctx, only={"R5.frozen-dataclass", "R5.generated-eq", "R5.no-custom-eq", "R5.field-compares", "R5.constructed-as-declared"},
                              rename=lambda r: "R0.nodes-compare-structurally-" + r.split(".", 1)[1]), env)
    ctx.check(TRANSFORMER in repo.mro(STRIPPER), "R0.is-transformer", "IdentifierStripper",
              "IdentifierStripper does not derive from NodeTransformer: untouched nodes are no longer rebuilt unchanged",
              ci.module.loc(ci.node))
    for name in ("visit", "generic_visit"):
        r = repo.lookup_method(STRIPPER, name)
        ctx.check(r is not None and r[0].qual in (TRANSFORMER, "odata_query.visitor.NodeVisitor"), "R0.generic-traversal-inherited",
                  f"IdentifierStripper.{name}", f"{name} is overridden: the generic rebuild of C16 no longer applies",
                  ci.module.loc(r[1]) if r else "")

    # paths inside every other construct (lists, call arguments, operators) are reached only through the generic
    # transformer the stripper inherits: it must visit every contained node and rebuild from the visited children (as C16/R3)
    from .c16 import check_generic_traversal
    check_generic_traversal(ctx, env, TRANSFORMER, True, "R0.generic-transformer-complete")

    interp = env.interp()
    strip_arg = Sym("strip_argument")
    r = repo.lookup_method(STRIPPER, "visit_Attribute")
    if r is None or r[0].qual not in stripper_quals:
        ctx.fail("R1.strip-shape", "visit_Attribute", "IdentifierStripper has no Attribute handler: nothing is stripped",
                 ci.module.loc(ci.node), WITNESS)
        return
    hci, fn = r

    def setup(it):
        obj = make_instance(it, env, STRIPPER, [strip_arg], "self")
        node = NodeV("node", {"Attribute"})
        return hci.module, fn, [obj, node], {}, hci.qual

    paths = interp.explore(setup)
    from .common import check_shared_caches
    check_shared_caches(ctx, paths, "R4.no-state-shared-between-strippers",
                        "a later call that strips another variable reuses the rewrite computed for the first one",
                        "strip x from x/a/b, then make x/a/b relative to y")
    ctx.floor("paths through visit_Attribute", len(paths), 2)
    seen_shapes = set()
    for x in paths:
        node: NodeV = x.entry["args"][1]
        owner = node.fields.get("owner")
        okinds = set(owner.kinds) if isinstance(owner, NodeV) else set()
        eq_conds = [(k, v) for k, v in x.conds if k.replace(" ", "") in ("eq(node.owner,strip_argument())", "eq(strip_argument(),node.owner)")]
        other_conds = [(k, v) for k, v in x.conds if "strip_argument" in k and (k, v) not in eq_conds]
        where = hci.module.loc(fn)
        if other_conds:
            ctx.fail("R1.strip-condition", "|".join(k for k, _ in other_conds)[:120],
                     f"the decision to strip depends on {other_conds}, not on `node.owner == <variable>` as a whole "
                     "(e.g. comparing names only strips namespaced or nested look-alikes)", where, "x.y/a eq 1 relative to y")
            continue
        stripped = any(v is True for _, v in eq_conds)
        if x.outcome != "return":
            ctx.fail("R1.strip-shape", f"raise|{x.cond_str()[:80]}", f"visit_Attribute raises {x.value!r}", x.where, WITNESS)
            continue
        v = x.value
        if stripped:
            shape = "owner==variable"
            ok = isinstance(v, NewNode) and v.cls == "Identifier" and _is_field(v.fields.get("name"), "node", "attr") and \
                _empty_ns(v.fields.get("namespace"))
            want = "Identifier(node.attr)"
            wit = "x/a -> a"
        elif "Attribute" in okinds:
            shape = "owner is a longer path"
            ok = isinstance(v, NewNode) and v.cls == "Attribute" and is_visit_of(v.fields.get("owner"), "node.owner") and \
                _is_field(v.fields.get("attr"), "node", "attr")
            want = "Attribute(self.visit(node.owner), node.attr)"
            wit = "x/a/b -> a/b"
        else:
            shape = "owner is another identifier" if okinds <= {"Identifier"} else "owner of kind " + ",".join(sorted(okinds))
            ok = (isinstance(v, NodeV) and v.path == "node") or (
                isinstance(v, NewNode) and v.cls == "Attribute" and _is_field(v.fields.get("attr"), "node", "attr") and
                (is_visit_of(v.fields.get("owner"), "node.owner") or (isinstance(v.fields.get("owner"), NodeV) and v.fields["owner"].path == "node.owner")))
            want = "the node unchanged"
            wit = "y/a stays y/a"
        if not eq_conds and "Identifier" in okinds:
            ctx.fail("R1.strip-condition", shape, "an Attribute whose owner is an identifier is handled without comparing the owner "
                     "with the variable", where, wit)
            continue
        seen_shapes.add(shape)
        ctx.check(ok, "R1.strip-shape", shape, f"returns {v!r}, required {want}", where, wit)
        ctx.sample({"shape": shape, "conditions": x.cond_str(), "returns": repr(v)})
    for need in ("owner==variable", "owner is a longer path"):
        ctx.check(need in seen_shapes, "R1.strip-shape-covered", need, f"no path of visit_Attribute handles the case `{need}`",
                  hci.module.loc(fn), WITNESS)

    # no other kind is special-cased
    for name in repo.all_method_names(STRIPPER):
        if not name.startswith("visit_") or name == "visit_Attribute":
            continue
        r2 = repo.lookup_method(STRIPPER, name)
        if r2 is None or r2[0].qual in (TRANSFORMER, "odata_query.visitor.NodeVisitor"):
            continue
        kind = name[len("visit_"):]
        h2ci, fn2 = r2
        if kind not in env.schema.classes:
            ctx.ok("R2.other-handlers", name, "names no node class (dead)")
            continue

        def setup2(it, fn2=fn2, h2ci=h2ci, kind=kind):
            obj = make_instance(it, env, STRIPPER, [strip_arg], "self")
            return h2ci.module, fn2, [obj, NodeV("node", {kind})], {}, h2ci.qual

        for x in interp.explore(setup2):
            same = x.outcome == "return" and isinstance(x.value, NodeV) and x.value.path == "node"
            ctx.check(same, "R2.other-handlers", f"{name}|{x.cond_str()[:60]}", f"{name} changes nodes of kind {kind}: returns {x.value!r}; "
                      "only paths rooted at the variable may change", h2ci.module.loc(fn2))

    # the shorthand
    uf = repo.function("odata_query.utils", "expression_relative_to_identifier")
    if uf is None:
        raise AnalysisError("odata_query.utils.expression_relative_to_identifier not found")
    um, sfn = uf
    params = [a.arg for a in sfn.args.args]

    def setup3(it):
        return um, sfn, [Sym("param", params[0]) if params else Sym("param", "?"), NodeV("expression", env.kindflow.expr_kinds)], {}, None

    sp = interp.explore(setup3)
    for x in sp:
        news = [ev for ev in x.events if ev.kind == "new_obj" and ev.data["cls"] in stripper_quals]
        visits = [ev for ev in x.events if ev.kind == "visit"]
        given = (list(news[0].data["args"]) + [v for k, v in news[0].data.get("kwargs", {}).items() if k != "**"]) if len(news) == 1 else []
        ok = (x.outcome == "return" and len(news) == 1 and len(given) == 1 and
              repr(given[0]) == repr(Sym("param", params[0])) and len(visits) == 1 and
              getattr(visits[0].data["arg"], "path", None) == "expression" and visits[0].data["vcls"] in stripper_quals and
              isinstance(x.value, Sym) and x.value.op == "visit")
        ctx.check(ok, "R3.shorthand", "expression_relative_to_identifier",
                  f"must return IdentifierStripper(<first argument>).visit(<second argument>); got {x.outcome} {x.value!r}", um.loc(sfn), WITNESS)
    ctx.floor("shorthand paths", len(sp), 1)
    ctx.trust("C16 R3: the inherited NodeTransformer.generic_visit rebuilds every other node unchanged")


def _is_field(v, node_path: str, attr: str) -> bool:
    return isinstance(v, Sym) and v.op == "field" and getattr(v.args[0], "path", None) == node_path and v.args[1] == attr


def _empty_ns(v) -> bool:
    return (isinstance(v, Const) and v.v == ()) or (isinstance(v, Sym) and v.op == "default")
