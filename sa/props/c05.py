"""C05 - the parser groups operators exactly as the OData precedence table dictates.

Decided on the LALR automaton built from the source-extracted grammar, with SLY's conflict
resolution replicated: the induced decision relation (reduce/shift for every operator production x
binary look-ahead) must equal the one the specification table induces.
"""
from __future__ import annotations

import itertools
from typing import Dict, List, Optional, Tuple

from ..lr import ParseFail, PNode, parse_model
from ..report import AnalysisError, Ctx
from ..values import NewNode, NodeV
from . import oracles as O

EXPLANATION = (
    "Static analysis of odata_query/grammar.py: productions, precedence tuple and actions are read from the "
    "source; canonical LR(1) item sets are built and merged to LALR; SLY's shift/reduce resolution is replicated. "
    "Obligations: no reduce/reduce and no default-resolved conflict; for every (operator production, binary "
    "look-ahead) conflict the resolution equals what OData 4.01 5.1.1.14 dictates; operator productions have the "
    "shape E op E / op E on one non-terminal; actions put operator/left/right into the right dataclass fields; "
    "parenthesis and unit productions return their inner value unchanged; operator tokens have the keyword "
    "language of their operator. By the operator-precedence argument this decides grouping for every expression "
    "tree, not a sample of them. Thorough adds the canonical-LR(1) cross-check and re-derives every operator "
    "pair/triple with the model automaton."
)
RULE_TEXT = ("one obligation per (production, look-ahead) conflict of the LALR automaton, per operator production "
             "shape/action, per operator token; non-trivial = decided from repository content")


def token_class(env, tok: str) -> Optional[str]:
    sh = env.kindflow.token_shapes.get(tok, set())
    ks = {s[1] for s in sh if s[0] == "node"}
    return next(iter(ks)) if len(ks) == 1 and len(sh) == 1 else None


def run(ctx: Ctx, env):
    g = env.grammar
    T = env.tables
    kf = env.kindflow
    gm = env.repo.modules["odata_query.grammar"]
    start = g.start

    # --- which tokens are operators, by the AST class their lexer action builds -------------
    op_tokens: Dict[str, str] = {}
    for r in g.rules:
        k = token_class(env, r.name)
        if k in O.ODATA_OPERATORS:
            if k in op_tokens.values():
                ctx.fail("R7.operator-token-unique", k, f"two tokens build ast.{k}", gm.loc(r.func) if r.func else "")
            op_tokens[r.name] = k
    for k in O.ODATA_OPERATORS:
        ctx.check(k in op_tokens.values(), "R4.operator-has-token", k, f"no token's action builds ast.{k}")
    ctx.floor("operator tokens", len(op_tokens), 14)

    # --- R8: what the actions build is what they ask for -------------------------------------------
    from .common import check_node_construction
    check_node_construction(ctx, env, "R8.nodes-built-as-written", "the tree no longer has the shape the grammar's actions give it "
                            "(e.g. `not not a` parsed as `a`)")
    from .common import check_fields_hold_declared_shapes
    check_fields_hold_declared_shapes(ctx, env, "R8.fields-hold-what-they-declare", "that part of the filter is missing from the tree "
                                      "(visitors meet None or a bare value where a node is declared)")

    # an operator token that a look-behind keeps from matching where the grammar expects it changes the tree (or refuses the filter)
    from .c06 import check_token_left_context
    check_token_left_context(ctx, env, "R8.operator-token-not-excluded-by-left-context")

    # --- R1: grammar sanity -------------------------------------------------------------------
    from ..lr import Grammar
    undefined = Grammar(g).undefined_symbols()
    ctx.check(not undefined, "R1.symbols-defined", "grammar", f"undefined symbols {undefined}")
    ctx.check(g.parser_tokens_same, "R1.parser-tokens", "tokens", "parser tokens differ from lexer tokens")

    # --- R2: conflicts ------------------------------------------------------------------------
    for st, la, p1, p2 in T.rr_conflicts:
        ctx.fail("R2.no-reduce-reduce", f"{p1}|{p2}|{la}", f"reduce/reduce conflict in state {st} on {la}", gm.loc(p2.func))
    if not T.rr_conflicts:
        ctx.ok("R2.no-reduce-reduce", "grammar", f"{T.n_states} LALR states, none")
    for d in T.decisions:
        if d.by_default:
            ctx.fail("R2.no-default-resolution", f"{d.production}|{d.terminal}",
                     f"shift/reduce conflict resolved by default ({d.resolution}) - no precedence decides it",
                     gm.loc(d.production.func))
    if not any(d.by_default for d in T.decisions):
        ctx.ok("R2.no-default-resolution", "grammar", f"{len(T.decisions)} conflicts, all decided by precedence")

    # --- R4: operator production shapes ------------------------------------------------------------
    op_prods = {}
    for p in g.productions:
        ops = [(i, s) for i, s in enumerate(p.syms) if s in op_tokens]
        if not ops:
            continue
        key = str(p)
        if len(ops) != 1:
            ctx.fail("R4.production-shape", key, "more than one operator token in a production", gm.loc(p.func))
            continue
        i, tok = ops[0]
        cls = op_tokens[tok]
        level, fix = O.ODATA_OPERATORS[cls]
        rest = [s for j, s in enumerate(p.syms) if j != i and s != "BWS"]
        shape_ok = False
        if fix == "binary" and cls != "In":
            shape_ok = p.name == start and i == 1 and list(p.syms) == [start, tok, start]
        elif cls == "In":
            shape_ok = p.name == start and i == 1 and len(p.syms) == 3 and p.syms[0] == start and \
                kf.node_kinds(p.syms[2]) == {"List"}
        elif fix == "prefix":
            shape_ok = p.name == start and i == 0 and rest == [start] and p.syms[-1] == start
        # a %prec clause is harmless exactly when it names a token of the same level and associativity as the operator's own
        prec_terms = {}
        for level_, (assoc_, terms_) in enumerate(g.precedence, start=1):
            for t_ in terms_:
                prec_terms[t_] = (assoc_, level_)
        override_ok = p.prec_override is None or (p.prec_override in prec_terms and prec_terms.get(p.prec_override) == prec_terms.get(tok))
        ctx.check(shape_ok and override_ok, "R4.production-shape", key,
                  f"operator production for {cls} does not have the shape the precedence argument needs"
                  + ("" if override_ok else f" (%prec {p.prec_override} gives it another level than its own operator token)"), gm.loc(p.func))
        op_prods[p.index] = (p, i, tok, cls)
    for cls in O.ODATA_OPERATORS:
        n = sum(1 for v in op_prods.values() if v[3] == cls)
        ctx.check(n == 1, "R4.operator-has-production", cls, f"{n} productions use the token of {cls}")
    ctx.floor("operator productions", len(op_prods), 16)

    # --- R3: the decision relation ------------------------------------------------------------------
    n_dec = 0
    for d in T.decisions:
        if d.production.index not in op_prods or d.terminal not in op_tokens:
            ctx.fail("R3.unexpected-conflict", f"{d.production}|{d.terminal}",
                     f"conflict outside the operator fragment resolved as {d.resolution}", gm.loc(d.production.func))
            continue
        _, _, _, pcls = op_prods[d.production.index]
        lcls = op_tokens[d.terminal]
        plevel, pfix = O.ODATA_OPERATORS[pcls]
        llevel, lfix = O.ODATA_OPERATORS[lcls]
        if lfix != "binary":
            ctx.fail("R3.unexpected-conflict", f"{d.production}|{d.terminal}", "prefix operator as look-ahead conflict",
                     gm.loc(d.production.func))
            continue
        expected = "reduce" if (plevel > llevel or (plevel == llevel and pfix == "binary")) else "shift"
        n_dec += 1
        wit = O.witness_for_pair(pcls, lcls)
        ctx.check(d.resolution == expected, "R3.decision", f"{pcls}|{lcls}",
                  f"after `.. {pcls} ..` with look-ahead {lcls}: automaton does {d.resolution}, OData table says {expected} "
                  f"(levels prod={d.rlevel}/{d.rassoc} token={d.slevel})", gm.loc(d.production.func), wit)
        if n_dec <= 6:
            ctx.sample({"production": str(d.production), "lookahead": d.terminal, "resolution": d.resolution,
                        "expected": expected, "witness": wit})
    # completeness: every operator production that ends in E conflicts with every binary look-ahead
    binaries = [t for t, c in op_tokens.items() if O.ODATA_OPERATORS[c][1] == "binary"]
    seen = {(d.production.index, d.terminal) for d in T.decisions}
    for idx, (p, i, tok, cls) in op_prods.items():
        if p.syms[-1] != start:
            continue
        for b in binaries:
            ctx.check((idx, b) in seen, "R3.decision-present", f"{cls}|{op_tokens[b]}",
                      "expected shift/reduce decision is missing from the automaton (grammar shape changed)", gm.loc(p.func))
    ctx.floor("precedence decisions", n_dec, 196)

    # --- R5: actions put the symbols in the right fields -----------------------------------------------
    for idx, (p, i, tok, cls) in op_prods.items():
        paths = kf.prod_paths.get(idx, [])
        key = str(p)
        rets = [r for r in paths if r.outcome == "return"]
        if len(paths) != 1 or len(rets) != 1 or not isinstance(rets[0].value, NewNode):
            ctx.fail("R5.action-builds-node", key, f"action does not unconditionally build one node: {[(r.outcome, repr(r.value)[:80]) for r in paths]}",
                     gm.loc(p.func))
            continue
        n: NewNode = rets[0].value
        want_cls = O.OPERATOR_NODE[cls]
        if n.cls != want_cls:
            ctx.fail("R5.action-builds-node", key, f"action builds ast.{n.cls}, expected ast.{want_cls} for {cls}", gm.loc(p.func))
            continue
        nc = env.schema.classes[n.cls]
        df = env.kindflow.kinds.discr_field(n.cls)
        operand_fields = [f.name for f in nc.fields if f.name != df]
        operand_syms = [j for j, s in enumerate(p.syms) if j != i and s != "BWS"]
        got = {f: _sym_index(n.fields.get(f)) for f in nc.fields_names()} if hasattr(nc, "fields_names") else \
            {f.name: _sym_index(n.fields.get(f.name)) for f in nc.fields}
        ok = df is not None and got.get(df) == i and len(operand_fields) == len(operand_syms) and \
            all(got.get(f) == j for f, j in zip(operand_fields, operand_syms))
        ctx.check(ok, "R5.action-fields", key,
                  f"fields {got} - expected {df}<-p[{i}] and {operand_fields}<-{operand_syms} (source order)",
                  gm.loc(p.func), O.witness_for_pair(cls, cls))
        ctx.sample({"production": key, "builds": n.cls, "fields": {k: f"p[{v}]" for k, v in got.items()}})

    # --- R6: parentheses and unit productions return the inner value unchanged -----------------------------
    n_pass = 0
    for p in g.productions:
        inner = [j for j, s in enumerate(p.syms) if s != "BWS" and s not in ("(", ")")]
        is_paren = p.name == start and p.syms and p.syms[0] == "(" and p.syms[-1] == ")" and len(inner) == 1 and \
            p.syms[inner[0]] == start
        is_unit = len(p.syms) == 1 and p.syms[0] in kf.image and kf.node_kinds(p.syms[0]) and p.name in _expr_chain(g, start)
        if not (is_paren or is_unit):
            continue
        n_pass += 1
        j = inner[0] if is_paren else 0
        paths = kf.prod_paths.get(p.index, [])
        ok = len(paths) == 1 and paths[0].outcome == "return" and _sym_index(paths[0].value) == j
        ctx.check(ok, "R6.passthrough", str(p), f"production must return p[{j}] unchanged, got "
                  f"{[(r.outcome, repr(r.value)[:60]) for r in paths]}", gm.loc(p.func),
                  "(a add b) mul c" if is_paren else None)
    ctx.floor("pass-through productions", n_pass, 5)

    # --- R7: operator tokens have the keyword language of their operator ------------------------------
    from .. import rx
    if True:
        alpha = rx.Alphabet.for_patterns([r.pattern for r in g.rules] + [O.operator_regex(c) for c in op_tokens.values()],
                                         g.reflags, full=(ctx.tier == "thorough"))
        for tok, cls in op_tokens.items():
            rule = g.rule(tok)
            want = O.operator_regex(cls)
            a = rx.compile_dfa(rule.pattern, g.reflags, alpha)
            b = rx.compile_dfa(want, ("re.I",), alpha)
            w1 = rx.difference_witness(a, b, alpha)
            w2 = rx.difference_witness(b, a, alpha)
            ctx.check(w1 is None and w2 is None, "R7.operator-token-language", f"{tok}|{cls}",
                      f"token {tok} builds ast.{cls} but its language differs from /{want}/i: "
                      f"{'accepts ' + repr(w1) if w1 is not None else 'rejects ' + repr(w2)}", gm.loc(rule.func) if rule.func else "")
        # unary minus must not pre-empt negative numeric literals: ordered after the numeric rules
        for tok, cls in op_tokens.items():
            if cls == "USub":
                order = {r.name: r.order for r in g.rules}
                for num in [r.name for r in g.rules if token_class(env, r.name) in ("Integer", "Float")]:
                    ctx.check(order[num] < order[tok], "R7.uminus-after-numbers", f"{tok}|{num}",
                              f"{tok} is ordered before {num}: '-1' would lex as minus, 1")

    # --- thorough: canonical LR(1) cross-check and model re-derivation -----------------------------------
    if ctx.tier == "thorough":
        ctx.check(not T.lalr_introduced, "T1.lalr-equals-lr1", "grammar",
                  f"LALR merging introduced conflicts absent from canonical LR(1): {T.lalr_introduced[:5]}")
        ctx.analysed["lr1_states"] = T.n_lr1_states
        _rederive(ctx, env, op_tokens, op_prods)
    ctx.analysed.update({"lalr_states": T.n_states, "productions": len(g.productions), "decisions": len(T.decisions)})
    ctx.trust("SLY 0.4 conflict resolution as implemented in sly/yacc.py lr_parse_table (replicated)")
    ctx.trust("OData 4.01 Part 2 section 5.1.1.14 operator precedence table (oracle)")
    ctx.assume("SLY's driver applies the tables as an LR parser (trusted)")


def _sym_index(v) -> Optional[int]:
    if isinstance(v, NodeV) and v.path.startswith("p[") and v.path.endswith("]") and v.path.count("[") == 1:
        try:
            return int(v.path[2:-1])
        except ValueError:
            return None
    return None


def _expr_chain(g, start) -> set:
    """Non-terminals reachable from the start symbol through unit productions."""
    out = {start}
    changed = True
    while changed:
        changed = False
        for p in g.productions:
            if p.name in out and len(p.syms) == 1 and p.syms[0] not in out and any(q.name == p.syms[0] for q in g.productions):
                out.add(p.syms[0])
                changed = True
    return out


# ------------------------------------------------------------------------------------------------
# thorough: every operator pair and triple, rendered with minimal parentheses by a printer that only
# knows the specification table, is run through the *model* automaton; the derivation must rebuild
# the same tree.
# ------------------------------------------------------------------------------------------------
def _rederive(ctx: Ctx, env, op_tokens, op_prods):
    T = env.tables
    g = env.grammar
    tok_of = {c: t for t, c in op_tokens.items()}
    prod_cls = {idx: v[3] for idx, v in op_prods.items()}
    classes = list(O.ODATA_OPERATORS)
    none_syms = {nt for nt, sh in env.kindflow.image.items() if sh and all(x[0] == "none" for x in sh)}

    def leaf(n):
        return ("id", n)

    def trees2():
        for a, b in itertools.product(classes, repeat=2):
            yield from shapes([a, b])

    def shapes(ops):
        # all tree shapes placing ops[0] at the root and the others nested left/right
        if len(ops) == 1:
            yield mk(ops[0], [leaf("a"), leaf("b")])
            return
        root, rest = ops[0], ops[1:]
        for sub in shapes(rest):
            if O.ODATA_OPERATORS[root][1] == "prefix":
                yield ("op", root, [sub])
            elif root == "In":
                yield ("op", root, [sub, ("list",)])
            else:
                yield ("op", root, [sub, leaf("z")])
                yield ("op", root, [leaf("z"), sub])

    def mk(op, kids):
        if O.ODATA_OPERATORS[op][1] == "prefix":
            return ("op", op, [kids[0]])
        if op == "In":
            return ("op", op, [kids[0], ("list",)])
        return ("op", op, kids)

    def render(t, parent=None, side=None) -> List[Tuple[str, object]]:
        if t[0] == "id":
            return [("ODATA_IDENTIFIER", t[1])]
        if t[0] == "list":
            return [("(", None), ("ODATA_IDENTIFIER", "l1"), (",", None), ("ODATA_IDENTIFIER", "l2"), (")", None)]
        _, op, kids = t
        lvl, fix = O.ODATA_OPERATORS[op]
        if fix == "prefix":
            inner = [(tok_of[op], op)] + render(kids[0], op, "operand")
        else:
            inner = render(kids[0], op, "left") + [(tok_of[op], op)] + render(kids[1], op, "right")
        if parent is not None:
            plvl, pfix = O.ODATA_OPERATORS[parent]
            need = False
            if pfix == "prefix":
                need = lvl < plvl and fix == "binary"
            elif side == "left":
                # a prefix operator on the left of a tighter binary operator would swallow it
                need = lvl < plvl
            elif side == "right":
                need = (lvl <= plvl) if fix == "binary" else False
            if need:
                return [("(", None)] + inner + [(")", None)]
        return inner

    def rebuild(n: PNode):
        if n.prod is None:
            return None
        if n.prod.index in prod_cls:
            cls = prod_cls[n.prod.index]
            kids = [rebuild(c) for c in n.children if (c.prod is not None and c.sym not in none_syms) or c.sym == "ODATA_IDENTIFIER"]
            kids = [k for k in kids if k is not None]
            if cls == "In":
                return ("op", cls, [kids[0], ("list",)])
            return ("op", cls, kids)
        syms = [c for c in n.children if c.sym not in none_syms and c.sym not in ("(", ")", ",")]
        if n.prod.name == "list_expr" or any(c.sym == "," for c in n.children):
            return ("list",)
        if len(syms) == 1:
            c = syms[0]
            if c.prod is None:
                return ("id", c.tag) if c.sym == "ODATA_IDENTIFIER" else None
            return rebuild(c)
        return ("?", n.prod.index)

    def leaves_norm(t):
        return t

    count = 0
    bad = 0
    gen = list(trees2())
    for a, b, c in itertools.product(classes, repeat=3):
        gen.extend(shapes([a, b, c]))
    for t in gen:
        toks = render(t)
        count += 1
        try:
            d = parse_model(T, toks)
            got = rebuild(d)
        except ParseFail as e:
            got = ("fail", str(e))
        if got != t:
            bad += 1
            if bad <= 10:
                ctx.fail("T2.model-rederivation", O.tree_text(t), f"model automaton rebuilds {O.tree_text(got) if got and got[0] != 'fail' else got}",
                         "odata_query/grammar.py", O.tree_text(t))
    if not bad:
        ctx.ok("T2.model-rederivation", "all-pairs-and-triples", f"{count} trees re-derived identically")
    ctx.analysed["rederived_trees"] = count
