"""C11 - function calls are accepted iff name and argument count match the OData table."""
from __future__ import annotations

import ast
from typing import Any, Dict, List, Optional, Tuple

from ..interp import Interp
from ..model import NotConst
from ..report import AnalysisError, Ctx
from ..values import NONE, Const, ListV, NewNode, NodeV, ObjV, PSlice, PyList, RefV, Sym, AbsList
from . import oracles as O
from .common import exception_fields, grammar_module, list_source_order

EXPLANATION = (
    "Static analysis of the call path of the parser. R1: the ODATA_FUNCTIONS table folded from source, normalised "
    "to {name: (min, max)}, equals the OData 4.01 built-in table. R2: ODataParser._function_call is evaluated by "
    "the abstract interpreter on every (name, namespace, count) point of a grid that covers every table row, "
    "near-miss names and counts 0..max+2; because the function branches only on the table entry and the count, the "
    "grid is exhaustive for its control flow; outcomes must be Call(func, args) / UnknownFunctionException(full "
    "name) / ArgumentCountException whose stored fields are (name, min, max, given) - the exception constructors "
    "are evaluated too. R3: the call productions pass identifier and arguments in source order; list-building "
    "productions keep order; every symbol access is valid for its production."
)
RULE_TEXT = ("one obligation per table row, per (name, namespace, count) grid point, per call/list production; "
             "non-trivial = outcome computed from the repository's code")


def normalise(table: Dict[Any, Any]) -> Dict[str, Tuple[int, int]]:
    out: Dict[str, Tuple[int, int]] = {}
    for k, v in table.items():
        if not isinstance(k, str):
            raise AnalysisError(f"ODATA_FUNCTIONS key {k!r} is not a string")
        if isinstance(v, bool) or not isinstance(v, (int, tuple)):
            raise AnalysisError(f"ODATA_FUNCTIONS[{k!r}] = {v!r}: unsupported encoding")
        if isinstance(v, int):
            out[k] = (v, v)
        else:
            if len(v) != 2 or not all(isinstance(x, int) for x in v):
                raise AnalysisError(f"ODATA_FUNCTIONS[{k!r}] = {v!r}: unsupported encoding")
            out[k] = (v[0], v[1])
    return out


def run(ctx: Ctx, env):
    repo = env.repo
    gm = grammar_module(env)
    g = env.grammar
    fa = repo.assign(gm.name, "ODATA_FUNCTIONS")  # the table may live in another module and be re-exported from the grammar
    if fa is None:
        raise AnalysisError("ODATA_FUNCTIONS table not found", gm.rel)
    tmod, tnode = fa
    try:
        raw = repo.fold(tmod, tnode)
    except NotConst as e:
        raise AnalysisError(f"ODATA_FUNCTIONS is not a constant table: {e}", tmod.loc(tnode))
    table = normalise(raw)
    where = tmod.loc(tnode)

    # ---- R1 table equals oracle -------------------------------------------------------------------
    for name, (lo, hi) in O.ODATA_FUNCTION_ARITY.items():
        if name not in table:
            ctx.fail("R1.table-row", name, f"built-in {name} missing from ODATA_FUNCTIONS", where, f"{name}({', '.join(['x'] * lo)})")
        else:
            ctx.check(table[name] == (lo, hi), "R1.table-row", name,
                      f"ODATA_FUNCTIONS[{name!r}] allows {table[name]} arguments, OData 4.01 says {(lo, hi)}", where,
                      f"{name}({', '.join(['x'] * (table[name][1] if table[name][1] != hi else table[name][0]))})")
    for name in table:
        if name in O.ODATA_FUNCTION_ARITY:
            continue
        opt = O.ODATA_FUNCTION_OPTIONAL.get(name)
        ctx.check(opt is not None and table[name] == opt, "R1.table-extra", name,
                  f"{name} {table[name]} is listed but is not an OData 4.01 built-in with that arity", where, f"{name}()")
    ctx.floor("function table rows", len(table), 30)
    ctx.sample({"table": {k: list(v) for k, v in sorted(table.items())[:6]}})

    # ---- R2 _function_call on the grid ----------------------------------------------------------------------------
    pci = repo.classes[g.parser_class]
    r = repo.lookup_method(pci.qual, "_function_call")
    call_fn = None
    if r is not None:
        call_fn = r
    else:
        # the validating helper may have been renamed: find the method the call productions delegate to
        call_fn = _find_call_helper(env)
    if call_fn is None:
        raise AnalysisError("cannot locate the function-call validation helper of the parser", gm.rel)
    ci, fn = call_fn
    grid: List[Tuple[Tuple[str, ...], str]] = []
    for full in table:
        parts = full.split(".")
        grid.append((tuple(parts[:-1]), parts[-1]))
        ns, nm = tuple(parts[:-1]), parts[-1]
        grid.append((ns, nm.upper()))
        grid.append((ns, nm.capitalize()))
        grid.append((ns, nm[:-1]))
        grid.append((ns, nm + "x"))
        if ns == ():
            grid.append((("geo",), nm))
            grid.append((("odata",), nm))
            grid.append((("GEO",), nm))
        else:
            grid.append(((), nm))
            grid.append((("foo",), nm))
            grid.append((("geo", "x"), nm))
            grid.append((("x", "geo"), nm))
    grid += [((), "nosuchfunction"), (("geo",), "nosuch"), (("custom",), "anything"), (("a", "b"), "f"), ((), "geo")]
    seen = set()
    maxcount = max(hi for _, hi in table.values()) + 2
    n_points = 0
    interp = Interp(repo, env.schema, env.kindflow.kinds)
    for ns, nm in grid:
        if (ns, nm) in seen or not nm:
            continue
        seen.add((ns, nm))
        full = ".".join(ns + (nm,))
        validated = ns in ((), ("geo",))
        for n in range(0, maxcount + 1):
            n_points += 1

            prod = _call_production(g, n)
            if prod is None:
                raise AnalysisError(f"no positional function-call production for {n} argument(s)", gm.rel)

            def setup(it, ns=ns, nm=nm, n=n, prod=prod):
                # the call is evaluated through the grammar action of the production that parses it (not through a helper
                # whose signature the action is free to choose)
                from ..values import PSlice
                selfv = ObjV(pci.qual, {}, "parser")
                func = NewNode("Identifier", {"name": Const(nm), "namespace": Const(tuple(ns))}, "grid")
                args = PyList([NodeV(f"arg{i}", env.kindflow.expr_kinds) for i in range(n)])
                args.created_in = "grid"
                it._grid = (func, args)
                vals = []
                for sym in prod.syms:
                    if sym == "ODATA_IDENTIFIER":
                        vals.append(func)
                    elif sym == "common_expr":
                        vals.append(args.items[0])
                    elif sym == "list_expr":
                        vals.append(NewNode("List", {"val": args}, "grid"))
                    elif sym == "BWS":
                        vals.append(NONE)
                    else:
                        vals.append(Const(sym.strip("'\"")))
                return pci.module, prod.func, [selfv, PSlice(prod, vals)], {}, pci.qual

            res = interp.explore(setup)
            key = f"{full}|{n}"
            loc = gm.loc(fn)
            wit = f"{full}({', '.join('x' for _ in range(n))})"
            if len(res) != 1:
                ctx.fail("R2.call-outcome", key, f"{len(res)} outcomes for a concrete (name, count): "
                         f"{[(x.outcome, repr(x.value)[:60]) for x in res]}", loc, wit)
                continue
            out = res[0]
            if validated and full in table:
                lo, hi = table[full]
                expect = "call" if lo <= n <= hi else "count"
            elif validated:
                expect = "unknown"
            else:
                expect = "call"
            got, detail = _classify(env, interp, out, full, n)
            ok = got == expect
            if ok and expect == "count":
                lo, hi = table[full]
                f = detail
                ok = f.get("function_name") == full and f.get("exp_min_args") == lo and f.get("exp_max_args") == hi and \
                    f.get("n_args_given") == n
                if not ok:
                    ctx.fail("R2.count-exception-fields", key, f"ArgumentCountException fields {f}, expected "
                             f"name={full!r} min={lo} max={hi} given={n}", loc, wit)
                    continue
            if ok and expect == "unknown":
                ok = detail.get("function_name") == full
                if not ok:
                    ctx.fail("R2.unknown-exception-fields", key, f"UnknownFunctionException fields {detail}, expected {full!r}", loc, wit)
                    continue
            ctx.check(ok, "R2.call-outcome", key, f"{wit}: expected {expect}, code does {got} ({detail})", loc, wit)
            if n_points % 97 == 0:
                ctx.sample({"call": wit, "outcome": got})
    ctx.floor("grid points", n_points, 600)
    ctx.analysed["grid_names"] = len(seen)

    # ---- R3 call productions --------------------------------------------------------------------------
    kf = env.kindflow
    n_call = 0
    for p in g.productions:
        paths = kf.prod_paths.get(p.index, [])
        builds_call = any(_returns_call(x) for x in paths)
        calls_helper = any(isinstance(n, ast.Attribute) and n.attr == fn.name for n in ast.walk(p.func))
        if not (builds_call or calls_helper):
            continue
        n_call += 1
        key = str(p)
        # every outcome: Call(func=p[0] identifier, args in source order) or a library exception
        ident_idx = [i for i, s in enumerate(p.syms) if s == "ODATA_IDENTIFIER"]
        ok_all = True
        for x in paths:
            if x.outcome == "raise":
                q = interp.exc_class(x.value)
                if q and (q.endswith("UnknownFunctionException") or q.endswith("ArgumentCountException")):
                    continue
                continue  # foreign raises are C10's business
            v = x.value
            if not (isinstance(v, NewNode) and v.cls == "Call"):
                ok_all = False
                ctx.fail("R3.call-production", key, f"returns {repr(v)[:80]} instead of ast.Call", gm.loc(p.func))
                break
            f = v.fields.get("func")
            if not (isinstance(f, NodeV) and ident_idx and f.path == f"p[{ident_idx[0]}]"):
                ok_all = False
                ctx.fail("R3.call-production", key, f"Call.func is {f!r}, expected the identifier p[{ident_idx[0] if ident_idx else '?'}]", gm.loc(p.func))
                break
            argv = v.fields.get("args")
            # the argument list is what was written: a list-valued symbol (or the items of a syntactic list_expr),
            # never the *contents* of an argument expression that merely happens to be a list
            if isinstance(argv, ListV) and argv.owner is not None:
                from .common import sym_index
                si = sym_index(argv.owner)
                sym = p.syms[si] if si is not None and si < len(p.syms) else None
                img = kf.image.get(sym, set()) if sym else set()
                if not (img and all(s[0] == "node" and s[1] == "List" for s in img)):
                    ok_all = False
                    ctx.fail("R3.call-args-as-written", key, f"the argument list is taken from `{argv.path}`: a single argument that is a list is unpacked into "
                             f"several arguments, so the count that is validated and stored is not the count that was written", gm.loc(p.func),
                             "length((1, 2)) eq 2  /  concat(('a', 'b'))")
                    break
            order = list_source_order(argv)
            if order is None:
                ok_all = False
                ctx.fail("R3.call-args-order", key, f"cannot show arguments are kept in source order: {v.fields.get('args')!r}", gm.loc(p.func))
                break
            if order != sorted(order):
                ok_all = False
                ctx.fail("R3.call-args-order", key, f"arguments are taken from symbols {order}: not source order", gm.loc(p.func),
                         "custom.f(a, b)")
                break
        if ok_all:
            ctx.ok("R3.call-production", key, "Call(identifier, arguments in source order)")
    ctx.floor("call productions", n_call, 5)

    # list-building productions keep right-hand-side order
    n_list = 0
    for p in g.productions:
        sh = kf.image.get(p.name, set())
        if not sh or not all(s[0] == "list" for s in sh):
            continue
        n_list += 1
        for x in kf.prod_paths.get(p.index, []):
            if x.outcome != "return":
                continue
            order = list_source_order(x.value)
            ctx.check(order is not None and order == sorted(order) and len(order) >= 2, "R3.list-order", str(p),
                      f"list production does not keep its items in source order (symbols {order}; value {x.value!r})",
                      gm.loc(p.func), "x in (1, 2, 3)")
    # symbol access validity (shared with C10): every p.<name>/p[i] exists in its production
    n_bad = 0
    for p in g.productions:
        for x in kf.prod_paths.get(p.index, []):
            for ev in x.events:
                if ev.kind in ("p_no_symbol", "p_index_out_of_range"):
                    n_bad += 1
                    what = ev.data.get("name", ev.data.get("index"))
                    wit = "x.y(a=1, b=2, c=3)" if p.name == "list_named_param" else None
                    ctx.fail("R3.symbol-access", f"{p.name}|{' '.join(p.syms)}|{what}",
                             f"action reads p.{what} which is not a symbol of `{p}` (valid: {ev.data.get('valid', ev.data.get('length'))})",
                             ev.where, wit)
    if not n_bad:
        ctx.ok("R3.symbol-access", "all", "every symbol access is valid for its production")
    # no production mixes positional and named arguments
    mixed = [str(p) for p in g.productions if "named_param" in " ".join(p.syms) and "common_expr" in p.syms and p.name == g.start]
    ctx.check(not mixed, "R3.no-mixed-arguments", "grammar", f"productions mixing positional and named arguments: {mixed}")
    ctx.trust("OData 4.01 Part 2 5.1.1.5-5.1.1.13 function table (oracle, sa/props/oracles.py)")


def _returns_call(x) -> bool:
    return x.outcome == "return" and isinstance(x.value, NewNode) and x.value.cls == "Call"


def _classify(env, interp, out, full: str, n: int):
    if out.outcome == "return":
        v = out.value
        if isinstance(v, NewNode) and v.cls == "Call":
            func, args = interp._grid
            a = v.fields.get("args")
            same_args = a is args or (isinstance(a, PyList) and not getattr(a, "loop_parts", None) and
                                      [id(i) for i in a.items] == [id(i) for i in args.items])
            if v.fields.get("func") is func and same_args:
                return "call", {}
            return "call-altered", {"func": repr(v.fields.get("func")), "args": repr(a)[:80]}
        return "returns", {"value": repr(v)[:80]}
    q = interp.exc_class(out.value)
    if q is None:
        return "raise?", {"exc": repr(out.value)}
    short = q.rsplit(".", 1)[-1]
    if short == "UnknownFunctionException":
        return "unknown", exception_fields(env, out.value)
    if short == "ArgumentCountException":
        return "count", exception_fields(env, out.value)
    return f"raises {short}", {}


def _find_call_helper(env):
    g = env.grammar
    pci = env.repo.classes[g.parser_class]
    counts: Dict[str, int] = {}
    for p in g.productions:
        for n in ast.walk(p.func):
            if isinstance(n, ast.Call) and isinstance(n.func, ast.Attribute) and isinstance(n.func.value, ast.Name) \
                    and n.func.value.id == "self" and n.func.attr in pci.methods:
                counts[n.func.attr] = counts.get(n.func.attr, 0) + 1
    for name, c in sorted(counts.items(), key=lambda kv: -kv[1]):
        fn = pci.methods[name]
        if any(isinstance(x, ast.Attribute) and x.attr in ("Call",) for x in ast.walk(fn)):
            return pci, fn
    return None


def _call_production(g, n: int):
    """The production that parses a positional call with n arguments: NAME ( ), NAME ( expr ) or NAME list_expr."""
    for p in g.productions:
        syms = [x for x in p.syms if x != "BWS"]
        if not syms or syms[0] != "ODATA_IDENTIFIER":
            continue
        rest = syms[1:]
        if n == 0 and [x.strip("'\"") for x in rest] == ["(", ")"]:
            return p
        if n == 1 and [x.strip("'\"") for x in rest] == ["(", "common_expr", ")"]:
            return p
        if n >= 2 and rest == ["list_expr"]:
            return p
    return None
