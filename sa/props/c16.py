"""C16 - visitor and transformer base classes traverse completely and never mutate."""
from __future__ import annotations

import ast
from typing import Any, Dict, List, Optional, Set, Tuple

from ..interp import Interp, KindEnv
from ..report import AnalysisError, Ctx
from ..values import Const, ListV, MapV, NewNode, NodeV, ObjV, PyList, RefV, Sym
from .common import grammar_module

EXPLANATION = (
    "Static analysis of odata_query/visitor.py and ast.py over the whole schema (every node class, not a sample of "
    "trees). R1: every node-bearing field has one of the container shapes the generic traversals understand. "
    "R2/R3: NodeVisitor.generic_visit and NodeTransformer.generic_visit are evaluated by the abstract interpreter for "
    "each node class; the sequence of self.visit calls must be exactly: each contained node once, field order then "
    "list order; the transformer must return type(node)(**fields) with fresh lists and untouched scalars. R4: visit "
    "dispatches on 'visit_' + class name with generic_visit as default, for every shipped visitor x node class. R5: "
    "every node class is a frozen dataclass with generated __eq__. R6: no function in the package stores to, deletes "
    "from or calls a mutating method on a value aliasing an AST node parameter or one of its list fields. By "
    "structural induction over tree depth these local facts give the property for every tree."
)
RULE_TEXT = "one obligation per (node class, field), per node class x generic_visit, per visitor x node class dispatch, per function scanned for mutation"

VISITOR = "odata_query.visitor.NodeVisitor"
TRANSFORMER = "odata_query.visitor.NodeTransformer"
MUTATORS = {"append", "extend", "insert", "pop", "remove", "clear", "sort", "reverse", "update", "setdefault",
            "popitem", "add", "discard", "__setitem__", "__delitem__", "__setattr__", "__delattr__"}


def _visit_seq(path) -> List[str]:
    out: List[str] = []
    for ev in path.events:
        if ev.kind == "visit":
            a = ev.data.get("arg")
            p = getattr(a, "path", repr(a))
            if not out or out[-1] != p or not p.endswith("[*]"):
                out.append(p)
    # an abstract loop body is evaluated twice (join): collapse the repeated element visit
    dedup: List[str] = []
    for p in out:
        if dedup and dedup[-1] == p and p.endswith("[*]"):
            continue
        dedup.append(p)
    return dedup


def _cond_map(path) -> Dict[str, Any]:
    return {k: v for k, v in path.conds}


def check_generic_traversal(ctx: Ctx, env, cls_q: str, transformer: bool, rule: str):
    """R2/R3: generic_visit of the base visitor / transformer, evaluated for every concrete node class."""
    repo, schema = env.repo, env.schema
    vm = repo.modules["odata_query.visitor"]
    kenv = KindEnv(schema)  # the full schema, not only the parser's image
    r = repo.lookup_method(cls_q, "generic_visit")
    if r is None:
        raise AnalysisError(f"{cls_q}.generic_visit not found")
    ci, fn = r
    for kind in schema.concrete():
        nc = schema.classes[kind]
        interp = Interp(repo, schema, kenv)

        def setup(it, kind=kind):
            return ci.module, fn, [ObjV(cls_q, {}, "self"), NodeV("node", {kind})], {}, ci.qual

        paths = interp.explore(setup)
        key = f"{cls_q.rsplit('.', 1)[-1]}|{kind}"
        if not paths:
            ctx.fail(rule, key, "no feasible path through generic_visit", vm.loc(fn))
            continue
        ok = True
        for x in paths:
            cm = _cond_map(x)
            expected: List[str] = []
            for f in nc.fields:
                if f.shape == "node":
                    expected.append(f"node.{f.name}")
                elif f.shape == "optional_node":
                    fnode = x.entry["args"][1].fields.get(f.name) if len(x.entry.get("args", [])) > 1 else None
                    if not (isinstance(fnode, NodeV) and fnode.kinds == {"NoneType"}):
                        expected.append(f"node.{f.name}")
                elif f.shape == "list_node":
                    if cm.get(f"empty(node.{f.name})") is not True:
                        expected.append(f"node.{f.name}[*]")
            got = _visit_seq(x)
            if x.outcome != "return":
                ok = False
                ctx.fail(rule, key, f"generic_visit raises {x.value!r} under {x.cond_str()[:100]}", x.where)
                break
            if got != expected:
                ok = False
                ctx.fail(rule, key, f"visits {got}, expected {expected} (each contained node once, field order then list order)"
                         + (f" under {x.cond_str()[:100]}" if x.conds else ""), vm.loc(fn))
                break
            for ev in x.events:
                if ev.kind == "mutate":
                    ok = False
                    ctx.fail("R6.no-mutation", f"{key}|{ev.data.get('target')}", f"generic_visit mutates its input: {ev.data}", ev.where)
            if transformer and ok:
                v = x.value
                if not expected and isinstance(v, NodeV) and v.path == "node":
                    continue  # nothing below this node on this path: handing the (immutable) node back is an equal tree
                if not (isinstance(v, NewNode) and v.cls == kind):
                    ok = False
                    ctx.fail(rule, key, f"returns {v!r}, expected a new ast.{kind}", vm.loc(fn))
                    break
                for f in nc.fields:
                    fv = v.fields.get(f.name)
                    good = False
                    if f.shape == "node":
                        good = _is_visit_of(fv, f"node.{f.name}")
                    elif f.shape == "optional_node":
                        good = _is_visit_of(fv, f"node.{f.name}") or (
                            f"node.{f.name}" not in expected and isinstance(fv, NodeV) and fv.path == f"node.{f.name}" and fv.kinds == {"NoneType"})
                    elif f.shape == "list_node":
                        if isinstance(fv, PyList) and fv.created_in is not None:
                            if f"node.{f.name}[*]" in expected:
                                good = (not fv.items and len(fv.loop_parts) == 1 and
                                        getattr(fv.loop_parts[0][0], "path", None) == f"node.{f.name}" and
                                        len(fv.loop_parts[0][1]) == 1 and _is_visit_of(fv.loop_parts[0][1][0], f"node.{f.name}[*]"))
                            else:
                                good = not fv.items and not fv.loop_parts
                        elif isinstance(fv, MapV):
                            good = getattr(fv.over, "path", None) == f"node.{f.name}" and _is_visit_of(fv.elem, f"node.{f.name}[*]") \
                                and not getattr(fv, "filtered", False)
                        elif getattr(fv, "map_of", None) is not None and getattr(fv, "created_in", None) is not None:
                            # a copy of the list whose every element was replaced in place by its visit
                            good = getattr(fv.map_of, "path", None) == f"node.{f.name}" and _is_visit_of(fv.elem, f"node.{f.name}[*]")
                        elif getattr(fv, "copy_of", None) is not None and f"node.{f.name}[*]" not in expected:
                            good = getattr(fv.copy_of, "path", None) == f"node.{f.name}"  # an empty list, copied
                    else:
                        good = isinstance(fv, Sym) and fv.op == "field" and fv.args[1] == f.name and getattr(fv.args[0], "path", "") == "node"
                    if not good:
                        ok = False
                        ctx.fail(rule, f"{key}|{f.name}", f"rebuilt field {f.name} is {fv!r}: not the visited/unchanged original", vm.loc(fn))
        if ok:
            ctx.ok(rule, key, f"{len(paths)} path(s)")
            if kind in ("Call", "CollectionLambda", "Identifier"):
                ctx.sample({"class": key, "visit_sequence": _visit_seq(paths[0]), "paths": len(paths)})


def check_node_schema(ctx: Ctx, env):
    """R1/R5: the AST classes are frozen dataclasses with generated, structural equality over all their fields, built as declared.
    Shared with the rewriters (C14, C17), which look nodes up by equality."""
    repo, schema = env.repo, env.schema
    am = schema.module
    # ---- R1 / R5 schema ---------------------------------------------------------------------------------
    n_cls = 0
    for name, nc in schema.classes.items():
        n_cls += 1
        where = f"{am.rel}:{nc.lineno}"
        ctx.check(nc.is_dataclass and nc.frozen, "R5.frozen-dataclass", name,
                  f"ast.{name} is not declared @dataclass(frozen=True)", where)
        ctx.check(nc.eq, "R5.generated-eq", name, f"ast.{name} disables the generated __eq__ (eq=False)", where)
        bad = [d for d in nc.custom_dunder if d in ("__eq__", "__hash__", "__ne__", "__setattr__")]
        ctx.check(not bad, "R5.no-custom-eq", name, f"ast.{name} defines {bad}: equality is no longer structural", where)
        if "__post_init__" in nc.custom_dunder:
            # a __post_init__ may validate; it may not rewrite the fields it was given (object.__setattr__ on a frozen instance)
            r = repo.lookup_method("odata_query.ast." + name, "__post_init__")
            rewrites = []
            if r is not None:
                for n in ast.walk(r[1]):
                    if isinstance(n, ast.Call) and ast.unparse(n.func) in ("object.__setattr__", "setattr", "super().__setattr__") and len(n.args) >= 2:
                        rewrites.append(ast.unparse(n.args[1]) if ast.unparse(n.func) != "super().__setattr__" else ast.unparse(n.args[0]))
                    if isinstance(n, ast.Attribute) and n.attr == "__dict__":
                        rewrites.append("__dict__")
            ctx.check(not rewrites, "R5.fields-as-given", name, f"ast.{name}.__post_init__ rewrites {rewrites}: the node no longer holds what it was built from "
                      "(traversals that look at the field's type, equality with parsed trees)", where)
        for f in nc.own_fields:
            ctx.check(f.compare, "R5.field-compares", f"{name}.{f.name}", "field excluded from comparison (compare=False)",
                      f"{am.rel}:{f.lineno}")
            ctx.check(f.shape != "other", "R1.field-shape", f"{name}.{f.name}",
                      f"field annotation `{f.annotation}` holds nodes in a container the generic traversals do not look into "
                      "(only node, Optional[node], List[node] are traversed)", f"{am.rel}:{f.lineno}")
    ctx.floor("node classes", n_cls, 40)
    from .common import check_node_construction
    check_node_construction(ctx, env, "R5.constructed-as-declared", "trees that differ in the collapsed position compare equal, and "
                            "a transformer that rebuilds the node gets a different node back")



def run(ctx: Ctx, env):
    repo, schema = env.repo, env.schema
    if VISITOR not in repo.classes or TRANSFORMER not in repo.classes:
        raise AnalysisError("NodeVisitor / NodeTransformer not found in odata_query/visitor.py")
    vm = repo.modules["odata_query.visitor"]
    am = schema.module

    check_node_schema(ctx, env)

    # ---- R2 / R3 generic traversals ----------------------------------------------------------------------------
    check_generic_traversal(ctx, env, VISITOR, False, "R2.visitor-traverses")
    check_generic_traversal(ctx, env, TRANSFORMER, True, "R3.transformer-rebuilds")

    # ---- R4 dispatch ----------------------------------------------------------------------------------------
    visitors = [VISITOR] + repo.subclasses(VISITOR)
    n_disp = 0
    kenv = KindEnv(schema)
    for vq in visitors:
        r = repo.lookup_method(vq, "visit")
        if r is None:
            ctx.fail("R4.dispatch", vq, "no visit method")
            continue
        ci, fn = r
        for kind in schema.concrete():
            n_disp += 1
            interp = Interp(repo, schema, kenv)
            interp.inline_visit = True  # type: ignore[attr-defined]
            interp.stub_methods = lambda name: name.startswith("visit_") or name == "generic_visit" or name.startswith("_ensure")

            def setup(it, kind=kind, vq=vq):
                return ci.module, fn, [ObjV(vq, {}, "self"), NodeV("node", {kind})], {}, ci.qual

            paths = interp.explore(setup)
            # visit() re-enters itself through the handlers: whatever it keeps on the instance (a depth counter, a flag) has any value
            # at a nested entry, so the same obligations hold with those attributes unknown
            stored = sorted({ev.data["attr"] for x in paths for ev in x.events if ev.kind == "store_attr" and ev.data.get("obj") == "self"})
            if stored:
                interp2 = Interp(repo, schema, kenv)
                interp2.inline_visit = True  # type: ignore[attr-defined]
                interp2.stub_methods = interp.stub_methods

                def setup2(it, kind=kind, vq=vq, stored=stored):
                    return ci.module, fn, [ObjV(vq, {a: Sym("state", a, hint="int") for a in stored}, "self"), NodeV("node", {kind})], {}, ci.qual

                paths = paths + interp2.explore(setup2)
            want = repo.lookup_method(vq, "visit_" + kind)
            want_name = ("visit_" + kind) if want else "generic_visit"
            key = f"{vq.rsplit('.', 1)[-1]}|{kind}"
            ok = bool(paths)
            for x in paths:
                calls = [ev for ev in x.events if ev.kind == "stub_call" and (ev.data["name"].startswith("visit_") or ev.data["name"] == "generic_visit")]
                thrown = [ev for ev in x.events if ev.kind == "external_raise" and str(ev.data.get("what", "")).startswith("handler ")]
                if thrown and x.outcome == "raise" and len(calls) == 1 and calls[0].data["name"] == want_name and \
                        interp.exc_class(x.value) == thrown[0].data["exc"]:
                    continue  # the handler's own exception leaves visit() unchanged
                if x.outcome != "return" or len(calls) != 1 or calls[0].data["name"] != want_name or \
                        not (calls[0].data["args"] and getattr(calls[0].data["args"][0], "path", None) == "node"):
                    ok = False
                    ctx.fail("R4.dispatch", key, f"visit() calls {[c.data['name'] for c in calls]} (outcome {x.outcome}), expected exactly "
                             f"{want_name}(node)", ci.module.loc(fn))
                    break
                # the handler's result must be what visit returns (possibly post-processed only at depth 0)
                if not _mentions_stub(x.value, want_name):
                    ok = False
                    ctx.fail("R4.dispatch-result", key, f"visit() returns {x.value!r}, not the handler's result", ci.module.loc(fn))
                    break
            if ok:
                ctx.ok("R4.dispatch", key, want_name, nontrivial=(kind in ("Identifier", "Call", "Add")))
    ctx.floor("dispatch pairs", n_disp, 7 * 40)

    # ---- R6 no mutation anywhere in the package ---------------------------------------------------------------------
    n_fn = 0
    for m in repo.modules.values():
        for fn, owner in _functions(m):
            n_fn += 1
            for issue, node in _mutations(fn, m, owner, env):
                ctx.fail("R6.no-mutation", f"{m.name}.{owner + '.' if owner else ''}{fn.name}|{issue}",
                         f"{issue}: a tree handed to the library would be modified", m.loc(node))
    ctx.floor("functions scanned for mutation", n_fn, 250)
    # the parser's own list building: appends only to lists still owned by the parse
    kf = env.kindflow
    for pidx, paths in kf.prod_paths.items():
        for x in paths:
            for ev in x.events:
                if ev.kind == "mutate":
                    ctx.fail("R6.no-mutation", f"grammar|{env.grammar.productions[pidx - 1]}|{str(ev.data.get('target'))[:40]}",
                             f"grammar action mutates a value already owned by a node: {ev.data}", ev.where)
    if not any(not o.ok and o.rule == "R6.no-mutation" for o in ctx.obligations):
        ctx.ok("R6.no-mutation", "package", f"{n_fn} functions, no store/delete/mutating call on node parameters or their lists")
    ctx.trust("dataclasses: frozen=True forbids attribute assignment, eq=True compares fields structurally")


def _is_visit_of(v, path: str) -> bool:
    return isinstance(v, Sym) and v.op == "visit" and getattr(v.args[1], "path", None) == path


def _mentions_stub(v, name: str) -> bool:
    if isinstance(v, Sym):
        if v.op == "stubcall" and str(v.args[0]).endswith("." + name):
            return True
        return any(_mentions_stub(a, name) for a in v.args if isinstance(a, (Sym, tuple, list)))
    if isinstance(v, (tuple, list)):
        return any(_mentions_stub(a, name) for a in v)
    return False


def _functions(m):
    for st in m.tree.body:
        if isinstance(st, (ast.FunctionDef, ast.AsyncFunctionDef)):
            yield st, ""
        elif isinstance(st, ast.ClassDef):
            for b in st.body:
                if isinstance(b, (ast.FunctionDef, ast.AsyncFunctionDef)):
                    yield b, st.name


def _root_name(e: ast.expr) -> Optional[str]:
    while isinstance(e, (ast.Attribute, ast.Subscript)):
        e = e.value
    return e.id if isinstance(e, ast.Name) else None


def _mutations(fn: ast.FunctionDef, m, owner: str, env):
    """Syntactic scan with simple alias tracking: names bound to a parameter (other than self/cls/p/t)
    or to an attribute chain of one are 'node-derived'; stores/deletes/mutating calls on them are reported.
    Lexer actions may assign to their token (t.value), which SLY hands them for that purpose."""
    params = [a.arg for a in fn.args.posonlyargs + fn.args.args + fn.args.kwonlyargs]
    if fn.args.vararg:
        params.append(fn.args.vararg.arg)
    is_method = bool(owner)
    skip = set()
    if is_method and params:
        skip.add(params[0])
    # lexer / parser classes, wherever they are defined (they may be re-exported from grammar.py)
    g = env.grammar
    in_grammar = m.name == "odata_query.grammar" or (bool(owner) and f"{m.name}.{owner}" in (g.lexer_class, g.parser_class))
    derived: Set[str] = set()
    ann = {a.arg: ast.unparse(a.annotation) if a.annotation is not None else "" for a in fn.args.args + fn.args.kwonlyargs}
    for p in params:
        if p in skip:
            continue
        a = ann.get(p, "")
        if in_grammar and p in ("t", "p"):
            continue
        # only parameters that can hold AST nodes: annotated with an ast type, or unannotated / Any
        if a and not ("ast." in a or "_Node" in a or "Node" in a):
            continue
        derived.add(p)
    fresh: Set[str] = set()
    for n in ast.walk(fn):
        if isinstance(n, ast.Assign) and len(n.targets) == 1 and isinstance(n.targets[0], ast.Name):
            tgt = n.targets[0].id
            v = n.value
            if isinstance(v, (ast.List, ast.Dict, ast.ListComp, ast.DictComp, ast.Call, ast.Constant, ast.JoinedStr, ast.BinOp)):
                fresh.add(tgt)
            elif isinstance(v, (ast.Attribute, ast.Subscript, ast.Name)) and _root_name(v) in derived and tgt not in fresh:
                derived.add(tgt)
        elif isinstance(n, (ast.For, ast.comprehension)):
            it = n.iter
            tgt = n.target
            if _root_name(it) in derived and isinstance(tgt, ast.Name):
                derived.add(tgt.id)
    derived -= {x for x in fresh if x not in params}
    for n in ast.walk(fn):
        if isinstance(n, (ast.Assign, ast.AugAssign, ast.AnnAssign)):
            targets = n.targets if isinstance(n, ast.Assign) else [n.target]
            for t in targets:
                for tt in (t.elts if isinstance(t, (ast.Tuple, ast.List)) else [t]):
                    if isinstance(tt, (ast.Attribute, ast.Subscript)) and _root_name(tt) in derived:
                        yield f"stores to {ast.unparse(tt)}", n
        elif isinstance(n, ast.Delete):
            for t in n.targets:
                if isinstance(t, (ast.Attribute, ast.Subscript)) and _root_name(t) in derived:
                    yield f"deletes {ast.unparse(t)}", n
        elif isinstance(n, ast.Call):
            f = n.func
            if isinstance(f, ast.Attribute) and f.attr in MUTATORS and _root_name(f.value) in derived:
                # .pop()/.update() on a *fresh* copy is fine; here the receiver is node-derived
                yield f"calls {ast.unparse(f)}()", n
            if isinstance(f, ast.Name) and f.id in ("setattr", "delattr") and n.args and _root_name(n.args[0]) in derived:
                yield f"{f.id}({ast.unparse(n.args[0])}, ...)", n
            if isinstance(f, ast.Attribute) and f.attr in ("__setattr__", "__delattr__") and n.args and \
                    isinstance(n.args[0], (ast.Name, ast.Attribute)) and _root_name(n.args[0]) in derived:
                yield f"{ast.unparse(f)}({ast.unparse(n.args[0])}, ...)", n
