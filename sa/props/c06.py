"""C06 - every literal and identifier is recognised as its own kind with its exact value."""
from __future__ import annotations

import ast
import re
from typing import Any, Dict, List, Optional, Set, Tuple

from .. import rx
from ..report import AnalysisError, Ctx
from ..values import AbsList, NewNode, RefV, Str, Sym, TokV
from .common import grammar_module

EXPLANATION = (
    "Language-inclusion questions on finite automata built from the source-extracted, ordered token rules (SLY's master "
    "regex: first alternative that matches wins). Character semantics are taken from the compiled atoms themselves, so "
    "the alphabet partition is exact (quick: ASCII plus curated Unicode representatives; thorough: all code points). For "
    "each kind K with its ABNF language Spec_K and each follow context the grammar allows after K (computed from the "
    "LALR tables): R1 Spec_K is included in the language of the rule that builds K; R2 no rule ordered before it matches "
    "a prefix of w.c for any w in Spec_K (shadowing); R3 the rule matches exactly w on w.c (no absorption of context, "
    "greedy quantifiers, prefix-safe order of tail alternatives); R4 the token action builds K from the matched text with "
    "exactly the documented normalisation; R5 DURATION_PATTERN accepts the normalised duration language, its groups are "
    "consumed in order, the year/month constants are 365.25 and 30.44. Numeric/calendar correctness of int/float/"
    "fromisoformat/isoparse/UUID/timedelta is not decided (library code, runtime values)."
)
RULE_TEXT = "one obligation per (kind, rule) inclusion, per (earlier rule, kind) pair, per token action, per DURATION_PATTERN fact"

YEAR = r"(?:[1-9][0-9]{3}|0[1-9][0-9]{2}|00[1-9][0-9]|000[1-9])"
DATE = YEAR + r"-(?:0[1-9]|1[0-2])-(?:0[1-9]|[12][0-9]|3[01])"
HM = r"(?:[01][0-9]|2[0-3]):[0-5][0-9]"
SEC = r":[0-5][0-9](?:\.[0-9]{1,12})?"
T_PART = r"T(?:[0-9]+H(?:[0-9]+M)?(?:[0-9]+(?:\.[0-9]+)?S)?|[0-9]+M(?:[0-9]+(?:\.[0-9]+)?S)?|[0-9]+(?:\.[0-9]+)?S)"
DUR_BODY = (r"(?:[0-9]+Y(?:[0-9]+M)?(?:[0-9]+D)?(?:" + T_PART + r")?|[0-9]+M(?:[0-9]+D)?(?:" + T_PART + r")?|[0-9]+D(?:" + T_PART + r")?|" + T_PART + r")")
SEGMENT = r"[^\W\d]\w*"
SPEC: Dict[str, str] = {
    "Integer": r"[+-]?[0-9]{1,19}",
    "Float": r"[+-]?[0-9]+(?:\.[0-9]+(?:e[+-]?[0-9]+)?|e[+-]?[0-9]+)",
    "Boolean": r"true|false",
    "Null": r"null",
    "String": r"'(?:[^']|'')*'",
    "GUID": r"[0-9a-f]{8}-[0-9a-f]{4}-[0-9a-f]{4}-[0-9a-f]{4}-[0-9a-f]{12}",
    "Date": DATE,
    "Time": HM + SEC,
    "DateTime": DATE + "T" + HM + r"(?:" + SEC + r")?(?:Z|[+-]" + HM + r")?",
    "Duration": r"duration'[+-]?P" + DUR_BODY + r"'",
    "Geography": r"geography'(?:[^']|'')*'",
    "Identifier": SEGMENT + r"(?:\." + SEGMENT + r")*",
}
RESERVED = r"true|false|null|any|all|not"
MAX_IDENTIFIER = 128
EXPECTED_TRANSFORMS = {
    "String": [("slice", 1, -1), ("replace", "''", "'")],
    "Duration": [("upper",), ("slice", 9, -1)],
    "Geography": [("slice", 10, -1)],
}
WITNESS_CTX = {"Identifier": "{} eq 1", "String": "x eq {}", "Duration": "x eq {}"}


def follow_terminals(env) -> Dict[str, Set[str]]:
    T = env.tables
    out: Dict[str, Set[str]] = {}
    for st, act in enumerate(T.action):
        for term, (kind, arg) in act.items():
            if kind == "s":
                out.setdefault(term, set()).update(T.action[arg].keys())
    return out


def check_token_left_context(ctx: Ctx, env, rule: str = "R3.token-not-excluded-by-left-context"):
    """A token rule that starts with a look-behind cannot match directly after a character the look-behind excludes. Wherever the
    grammar lets that token follow another token (or literal) whose last character is excluded - with nothing in between - the filter
    is no longer tokenised the way the grammar expects."""
    g = env.grammar
    alpha = rx.Alphabet.for_patterns([r.pattern for r in g.rules], g.reflags, full=False, extra_chars="".join(g.literals))
    rules = {r.name: rx.compile_rule(r.pattern, g.reflags, alpha) for r in g.rules}
    fol = follow_terminals(env)
    n = 0
    gm = grammar_module(env)
    for r in g.rules:
        cr = rules[r.name]
        if cr.behind is None:
            continue
        n += 1
        for prev, nxt in fol.items():
            if r.name not in nxt:
                continue
            if prev in rules:
                last = rx.last_symbols(rules[prev].dfa)
            elif prev in g.literals and alpha.class_of.get(prev) is not None:
                last = {alpha.class_of[prev]}
            else:
                continue
            bad = sorted(c for c in last if c not in cr.behind)
            ctx.check(not bad, rule, f"{r.name}|after {prev}",
                      f"the {r.name} rule starts with a look-behind that forbids {[alpha.rep[c] for c in bad][:4]} before it, but the grammar allows {r.name} directly "
                      f"after {prev}, which can end in such a character: there the text is not recognised as {r.name}", gm.loc(r.func) if r.func else gm.rel,
                      f"( {'not a' if r.name == 'NOT' else r.name.lower()} ... written without a blank after `{prev}`")
    return n


def _case_map_keeps_length(env, r) -> bool:
    """Slicing at fixed positions and upper-casing commute on the words of a rule iff no character the rule can match changes
    length under str.upper() (as 'ß' -> 'SS' would): decided on the characters of the rule's live DFA transitions."""
    g = env.grammar
    alpha = rx.Alphabet.for_patterns([r.pattern], g.reflags, full=True)
    d = rx.compile_rule(r.pattern, g.reflags, alpha).dfa
    live = rx.live_states(d)
    used = set()
    for s_, row in enumerate(d.trans):
        if s_ not in live:
            continue
        for c, t in enumerate(row):
            if t in live:
                used.add(c)
    for ch, c in alpha.class_of.items():
        if c in used and len(ch.upper()) != 1:
            return False
    return True


def check_token_actions(ctx: Ctx, env, rule: str = "R4.action-normalisation"):
    """Every token action that builds a literal / identifier node stores the matched text under the documented
    normalisation (quotes stripped then '' -> ', duration prefix, identifier split on '.'), nothing else."""
    g = env.grammar
    gm = grammar_module(env)
    kf = env.kindflow
    n_act = 0
    for r in g.rules:
        if r.func is None:
            continue
        for p in kf.token_paths.get(r.name, []):
            if p.outcome != "return" or not isinstance(p.value, TokV):
                continue
            v = p.value.attrs.get("value")
            if not isinstance(v, NewNode) or v.cls not in SPEC:
                continue
            n_act += 1
            key = f"{r.name}|{v.cls}"
            if v.cls == "Identifier":
                name, ns = v.fields.get("name"), v.fields.get("namespace")
                ok = isinstance(name, Sym) and name.op == "splitpart" and name.args[1] == "." and "toktext" in repr(name.args[0]) and \
                    isinstance(ns, Sym) and ns.op == "tupleof" and isinstance(ns.args[0], AbsList) and repr(ns.args[0].elem) == repr(name)
                if not ok and isinstance(name, Sym) and name.op == "rpartition" and name.args[1] == "." and name.args[2] == 2 and \
                        isinstance(name.args[0], Sym) and name.args[0].op == "toktext":
                    # head, dot, tail = text.rpartition('.'): tail is the last segment; head.split('.') the namespace, () without a dot
                    text = name.args[0]
                    has_dot = dict(p.conds).get(f"truth({Sym('rpartition', text, '.', 1, hint='str')!r})")
                    head_split = Sym("splitpart", Sym("rpartition", text, ".", 0, hint="str"), ".", hint="str")
                    if has_dot is True:
                        ok = isinstance(ns, Sym) and ns.op == "tupleof" and isinstance(ns.args[0], AbsList) and repr(ns.args[0].elem) == repr(head_split) \
                            and ns.args[0].order == ["?"]
                    elif has_dot is False:
                        from ..values import Const as _C, PyTuple as _PT
                        ok = (isinstance(ns, _C) and ns.v == ()) or (isinstance(ns, _PT) and not ns.items)
                ctx.check(ok, rule, key, f"identifier action builds Identifier(name={name!r}, namespace={ns!r}); required: text split on '.', "
                          "last segment is the name, the segments before it the namespace", gm.loc(r.func), "geo.length(x) eq 1")
                continue
            val = v.fields.get("val")
            if val is None:
                ctx.ok(rule, key, "no text stored")
                continue
            got = _transforms(val)
            want = EXPECTED_TRANSFORMS.get(v.cls, [])
            if got is None:
                ctx.fail(rule, key, f"token action stores {val!r}, which is not the matched text", gm.loc(r.func))
                continue
            norm_got = [t[:3] if t[0] == "slice" else t for t in got]
            ok = norm_got == want or (v.cls == "Duration" and sorted(map(repr, norm_got)) == sorted(map(repr, want)) and
                                      (norm_got[-1][0] == "slice" or _case_map_keeps_length(env, r)))
            ctx.check(ok, rule, key, f"token action of {r.name} applies {norm_got} to the matched text; the documented normalisation of "
                      f"{v.cls} is {want or 'none (text unchanged)'}", gm.loc(r.func), "name eq 'it''s'" if v.cls == "String" else None)
    ctx.floor("token actions building literals", n_act, 11)


def run(ctx: Ctx, env):
    g = env.grammar
    gm = grammar_module(env)
    kf = env.kindflow
    full = ctx.tier == "thorough"
    alpha = rx.Alphabet.for_patterns([r.pattern for r in g.rules] + [RESERVED, r"[\s\S]", r"\w"], g.reflags, full=full,
                                     alt=[(sp, ("re.I",)) for sp in SPEC.values()],  # the specification is read under its own flags, not the lexer's
                                     extra_chars="(),/:= \t\n")
    ctx.analysed["alphabet_classes"] = alpha.n
    ctx.analysed["universe"] = alpha.universe_size
    rules = {r.name: rx.compile_rule(r.pattern, g.reflags, alpha) for r in g.rules}
    order = {r.name: r.order for r in g.rules}
    ctx.floor("token rules", len(rules), 28)
    rule_of_kind: Dict[str, List[str]] = {}
    for name, shapes in kf.token_shapes.items():
        for s in shapes:
            if s[0] == "node":
                rule_of_kind.setdefault(s[1], []).append(name)
    spec_dfa: Dict[str, rx.DFA] = {}
    for k, pat in SPEC.items():
        d = rx.compile_dfa(pat, ("re.I",), alpha)
        if k == "Identifier":
            res = rx.compile_dfa(RESERVED, ("re.I",), alpha)
            d = rx.product_dfa(d, res, lambda a, b: a and not b)
            # length limit
            lim = rx.compile_dfa(r"[\s\S]{1," + str(MAX_IDENTIFIER) + "}", 0, alpha)
            d = rx.product_dfa(d, lim, lambda a, b: a and b)
        spec_dfa[k] = d
    ctx.floor("literal kinds with an ABNF language", len(spec_dfa), 11)

    # follow contexts per token, as alphabet classes (+ END)
    fol = follow_terminals(env)
    lit_class = {l: alpha.class_of.get(l) for l in g.literals}

    def ctx_classes(tok: str) -> Set[int]:
        out: Set[int] = set()
        for t in fol.get(tok, ()):
            if t == "$end":
                out.add(rx.END)
            elif t in rules:
                out |= rx.first_symbols(rules[t].dfa)
            elif t in lit_class and lit_class[t] is not None:
                out.add(lit_class[t])
        return out

    for kind, sd in spec_dfa.items():
        rns = rule_of_kind.get(kind, [])
        if not rns:
            ctx.fail("R1.kind-has-a-rule", kind, f"no token rule's action builds ast.{kind}: well-formed {kind.lower()} literals are recognised as something else",
                     gm.rel, _example(sd, alpha, kind))
            continue
        # R1 inclusion in the union of its rules
        union = rules[rns[0]].dfa
        for rn in rns[1:]:
            union = rx.product_dfa(union, rules[rn].dfa, lambda a, b: a or b)
        w = rx.difference_witness(sd, union, alpha)
        ctx.check(w is None, "R1.spec-included", f"{kind}|{'+'.join(rns)}",
                  f"the well-formed {kind} spelling {w!r} is not matched by {'/'.join(rns)}", gm.loc(g.rule(rns[0]).func) if g.rule(rns[0]).func else gm.rel,
                  WITNESS_CTX.get(kind, "x eq {}").format(w) if w is not None else None)
        for rn in rns:
            cx = ctx_classes(rn)
            if not cx:
                raise AnalysisError(f"no follow context computed for token {rn}")
            # R2 shadowing by earlier rules
            for other in g.rules:
                if order[other.name] >= order[rn] or other.name in rns:
                    continue
                wit = None
                for vd, vlook in rules[other.name].variants:
                    wit = _shadow(sd, cx, rx.Rule(vd, vlook, False, other.pattern), alpha)
                    if wit is not None:
                        break
                key = f"{other.name}<{rn}|{kind}"
                example = None
                if wit is not None:
                    example = WITNESS_CTX.get(kind, "x eq {}").format(wit.rstrip())
                ctx.check(wit is None, "R2.not-shadowed", key,
                          f"{other.name} is ordered before {rn} and matches a prefix of the well-formed {kind} text {wit!r}: the {kind.lower()} is cut in two",
                          gm.loc(other.func) if other.func else gm.rel, example)
            # R1b the rule's own look-ahead must admit every character that can follow the token
            for vd, vlook in rules[rn].variants:
                if vlook.allowed is None:
                    continue
                bad = sorted(c for c in cx if c not in vlook.allowed)
                if not bad:
                    continue
                w = rx.product_witness(sd, vd, lambda a, b: a and b)
                if w is None:
                    continue
                ch = "<end of input>" if bad[0] == rx.END else alpha.rep[bad[0]]
                for c in bad:
                    if c != rx.END and any(m in "\t\n\r" for m in alpha.members[c]):
                        ch = next(m for m in alpha.members[c] if m in "\t\n\r")
                        break
                txt = alpha.text(w)
                ctx.fail("R1.follow-context-admitted", f"{rn}|{kind}", f"{rn} requires a look-ahead that rejects {ch!r}, which the grammar allows right after a "
                         f"{kind.lower()}: {txt + (ch if ch != '<end of input>' else '')!r} is no longer recognised as {kind}", gm.loc(g.rule(rn).func) if g.rule(rn).func else gm.rel,
                         f"x eq {txt}{ch if ch != '<end of input>' else ''}or y eq 1")
                break
            # R3a no absorption of the context character
            wit = _absorbs(sd, cx, rules[rn], alpha)
            ctx.check(wit is None, "R3.maximal-munch", f"{rn}|{kind}|context", f"{rn} also matches {wit!r}: it swallows the character that follows the {kind.lower()}",
                      gm.rel)
    # R3b structure: greedy quantifiers, prefix-safe tail alternatives
    for r in g.rules:
        rule = rules[r.name]
        ctx.check(not rule.lazy, "R3.greedy-quantifiers", r.name, "lazy quantifier: the first match is no longer the longest", gm.loc(r.func) if r.func else gm.rel)
        issue = _tail_branch_issue(r.pattern, g.reflags, alpha)
        ctx.check(issue is None, "R3.alternatives-prefix-safe", r.name, f"an earlier alternative at the end of the rule matches a proper prefix of a later one "
                  f"({issue}): Python takes the first alternative that matches, i.e. the shorter text", gm.loc(r.func) if r.func else gm.rel,
                  f"x eq {issue[1]}" if issue else None)

    check_token_left_context(ctx, env)

    # ---- R4 actions ------------------------------------------------------------------------------------------------------
    check_token_actions(ctx, env)

    # ---- R5 DURATION_PATTERN ----------------------------------------------------------------------------------------------
    _duration_pattern(ctx, env, alpha, rules, rule_of_kind)
    ctx.assume("SLY tries the rules in class-body order and Python's re picks the first alternative that matches (replicated)")
    ctx.trust("OData ABNF (odata-abnf-construction-rules) for primitive literals and identifiers; ISO 8601 / datetime.date year range 0001-9999")

    # ---- R6 the Python value of the other single-token literals (last: a hand-written conversion ends the run without a verdict) ----
    # every spelling the lexer accepts (upper / lower case t, z, e, true, ...) must have a value: the case rule of C19
    from .c19 import check_py_val_case
    check_py_val_case(ctx, env, "R6.value-for-every-accepted-spelling")
    _standard_conversions(ctx, env)


def _example(d: rx.DFA, alpha, kind: str) -> Optional[str]:
    w = rx.shortest_accepted(d)
    return WITNESS_CTX.get(kind, "x eq {}").format(alpha.text(w)) if w is not None else None


def _shadow(spec: rx.DFA, ctx_classes: Set[int], other: rx.Rule, alpha) -> Optional[str]:
    """Shortest w.c (w in spec, c a follow class) such that `other` matches a non-empty prefix of it."""
    from collections import deque
    live = rx.live_states(spec)
    od = other.dfa
    start = (spec.start, 0, od.start)
    prev: Dict[Tuple[int, int, int], Optional[Tuple[Tuple[int, int, int], int]]] = {start: None}
    q = deque([start])
    real_ctx = sorted(c for c in ctx_classes if c != rx.END)

    def word(node):
        w = []
        cur = node
        while prev[cur] is not None:
            p, c = prev[cur]  # type: ignore
            w.append(c)
            cur = p
        return w[::-1]

    word_cls = alpha.classes_matching((rx.sre_c.IN, ((rx.sre_c.CATEGORY, rx.sre_c.CATEGORY_WORD),))) if \
        (rx.sre_c.IN, ((rx.sre_c.CATEGORY, rx.sre_c.CATEGORY_WORD),)) in alpha.atom_index else frozenset()

    def look_ok(next_syms: Set[int], last_sym: Optional[int]) -> Optional[int]:
        """A next symbol compatible with other's look-ahead, or None."""
        for nx in sorted(next_syms, key=lambda x: (x == rx.END, x)):
            if other.look.allowed is not None and nx not in other.look.allowed:
                continue
            if other.look.boundary and last_sym is not None:
                last_word = last_sym in word_cls
                next_word = nx != rx.END and nx in word_cls
                if last_word == next_word:
                    continue
            return nx
        return None

    while q:
        node = q.popleft()
        s, phase, o = node
        if prev[node] is not None and o in od.accept:
            last = prev[node][1]
            if phase == 1:
                nxts: Set[int] = set(range(alpha.n)) | {rx.END}
            else:
                nxts = {c for c in range(alpha.n) if spec.trans[s][c] in live}
                if s in spec.accept:
                    nxts |= set(ctx_classes)
            nx = look_ok(nxts, last)
            if nx is not None:
                w = word(node)
                # complete the word to a full w.c for the report
                return _complete(spec, live, s, phase, w, real_ctx, alpha)
        if phase == 1:
            continue
        for c in range(alpha.n):
            t = spec.trans[s][c]
            if t in live:
                n2 = (t, 0, od.trans[o][c])
                if n2 not in prev:
                    prev[n2] = (node, c)
                    q.append(n2)
        if s in spec.accept:
            for c in real_ctx:
                n2 = (s, 1, od.trans[o][c])
                if n2 not in prev:
                    prev[n2] = (node, c)
                    q.append(n2)
    return None


def _complete(spec: rx.DFA, live, s: int, phase: int, w: List[int], real_ctx: List[int], alpha) -> str:
    if phase == 1:
        return alpha.text(w)
    # extend w to an accepted word of spec
    from collections import deque
    prev = {s: None}
    q = deque([s])
    end = None
    while q:
        x = q.popleft()
        if x in spec.accept:
            end = x
            break
        for c in range(alpha.n):
            t = spec.trans[x][c]
            if t in live and t not in prev:
                prev[t] = (x, c)
                q.append(t)
    tail = []
    cur = end
    while cur is not None and prev[cur] is not None:
        p, c = prev[cur]
        tail.append(c)
        cur = p
    return alpha.text(w + tail[::-1])


def _absorbs(spec: rx.DFA, ctx_classes: Set[int], rule: rx.Rule, alpha) -> Optional[str]:
    """w in spec, c in ctx with w.c in L(rule)."""
    d = rule.dfa
    seen = {(spec.start, d.start)}
    todo = [((spec.start, d.start), [])]
    live = rx.live_states(spec)
    while todo:
        (s, o), w = todo.pop(0)
        if s in spec.accept:
            for c in ctx_classes:
                if c != rx.END and d.trans[o][c] in d.accept:
                    return alpha.text(w + [c])
        for c in range(alpha.n):
            t = spec.trans[s][c]
            if t in live:
                n2 = (t, d.trans[o][c])
                if n2 not in seen:
                    seen.add(n2)
                    todo.append((n2, w + [c]))
    return None


def _tail_branch_issue(pattern: str, flags, alpha) -> Optional[Tuple[str, str]]:
    """For a BRANCH at the tail of the rule: an earlier alternative that is a proper prefix of a later one."""
    fv = rx.flags_value(flags)
    sub = rx.parse(pattern, fv)
    c = rx.sre_c

    def tail_branches(items, pre: list):
        """Yield (prefix items, branch alternatives) for branches after which the rule can end."""
        items = list(items)
        while len(items) == 1 and items[0][0] is c.SUBPATTERN:
            items = list(items[0][1][3])
        # strip trailing assertions
        while items and items[-1][0] in (c.ASSERT, c.ASSERT_NOT, c.AT):
            items.pop()
        if not items:
            return
        last = items[-1]
        head = pre + items[:-1]
        if last[0] is c.BRANCH:
            yield head, last[1][1]
            for alt in last[1][1]:
                yield from tail_branches(alt, head)
        elif last[0] is c.SUBPATTERN:
            yield from tail_branches(last[1][3], head)
        elif last[0] in (c.MAX_REPEAT, c.MIN_REPEAT) and last[1][0] == 0 and last[1][1] == 1:
            yield from tail_branches(last[1][2], head)

    def dfa_of(items) -> rx.DFA:
        items = list(items)
        while items and items[-1][0] in (c.ASSERT, c.ASSERT_NOT, c.AT):
            items.pop()
        b = rx.Builder(alpha)
        s, e = b.build(items)
        return rx.nfa_to_dfa(b.nfa, s, {e})

    for head, alts in tail_branches(sub, []):
        dfas = [dfa_of(list(head) + list(a)) for a in alts]
        for i in range(len(dfas)):
            for j in range(i + 1, len(dfas)):
                # x in L_i, y in L_j, x proper prefix of y  <=>  L_i intersects ProperPrefixes(L_j)
                pj = rx.prefix_dfa(dfas[j])
                proper = rx.product_dfa(pj, dfas[j], lambda a, b: a and not b)
                w = rx.product_witness(dfas[i], proper, lambda a, b: a and b)
                if w is not None:
                    # extend to a word of L_j for the report
                    st = dfas[j].step_word(w)
                    live = rx.live_states(dfas[j])
                    ext = _complete(dfas[j], live, st, 0, list(w), [], alpha)
                    return (alpha.text(w), ext)
    return None


def _transforms(val) -> Optional[List[Tuple]]:
    if isinstance(val, Sym) and val.op == "toktext":
        return []
    if isinstance(val, Str) and len(val.parts) == 1 and val.parts[0][0] == "dyn" and isinstance(val.parts[0][1], Sym) and val.parts[0][1].op == "toktext":
        return [tuple(t) for t in val.parts[0][2]]
    return None


def _duration_pattern(ctx: Ctx, env, alpha, rules, rule_of_kind):
    repo = env.repo
    am = env.schema.module
    da = repo.assign(am.name, "DURATION_PATTERN")
    if da is None:
        ctx.fail("R5.duration-pattern", "DURATION_PATTERN", "ast.DURATION_PATTERN not found", am.rel)
        return
    from ..model import Regex
    am_def, dp_expr = da
    try:
        dp = repo.fold(am_def, dp_expr)
    except Exception as e:
        raise AnalysisError(f"DURATION_PATTERN is not a constant: {e}", am.rel)
    if not isinstance(dp, Regex):
        raise AnalysisError("DURATION_PATTERN is not a compiled regex", am.rel)
    where = am_def.loc(dp_expr)
    ctx.check(not re.search(r"(?<!\\)[a-z]", re.sub(r"\\[a-zA-Z]|\(\?[a-zA-Z:]", "", dp.pattern)), "R5.duration-pattern-uppercase", "DURATION_PATTERN",
              "the lexer upper-cases the duration text; a lower-case letter in DURATION_PATTERN can never match", where)
    for rn in rule_of_kind.get("Duration", []):
        wrapped = "duration'" + dp.pattern + "'"
        a2 = rx.Alphabet.for_patterns([env.grammar.rule(rn).pattern, wrapped], env.grammar.reflags, full=False)
        lex = rx.compile_rule(env.grammar.rule(rn).pattern, env.grammar.reflags, a2).dfa
        pat = rx.compile_dfa(wrapped, ("re.I",), a2)
        w = rx.difference_witness(lex, pat, a2)
        ctx.check(w is None, "R5.duration-pattern-accepts-lexer-language", rn,
                  f"the lexer accepts {w!r} but DURATION_PATTERN does not match its normalised text: unpack()/py_val raise ValueError", where,
                  f"x eq {w}" if w else None)
    # groups in the order unpack() returns and py_val consumes
    sub = rx.parse(dp.pattern, 0)
    letters: List[str] = []

    def groups(items):
        for op, av in items:
            if op is rx.sre_c.SUBPATTERN:
                g, _, _, p = av
                if g is not None:
                    lits = [chr(a) for o, a in p if o is rx.sre_c.LITERAL]
                    ins = [x for o, x in p if o is rx.sre_c.IN]
                    letters.append(lits[-1] if lits else ("sign" if ins else "?"))
                groups(p)
            elif op in (rx.sre_c.MAX_REPEAT, rx.sre_c.MIN_REPEAT):
                groups(av[2])
            elif op is rx.sre_c.BRANCH:
                for alt in av[1]:
                    groups(alt)

    groups(sub)
    ctx.check(letters == ["sign", "Y", "M", "D", "H", "M", "S"], "R5.duration-groups-in-order", "DURATION_PATTERN",
              f"capture groups are {letters}; unpack() returns them as (sign, years, months, days, hours, minutes, seconds)", where)
    dur = repo.classes.get("odata_query.ast.Duration")
    if dur and "unpack" in dur.methods and "py_val" in dur.methods:
        _duration_methods(ctx, env, dur, dp)


# ------------------------------------------------------------------------------------------------------------------
# py_val of the single-token literals: the standard conversion of the literal's own text
# ------------------------------------------------------------------------------------------------------------------
STANDARD_CONVERSIONS = {
    "Integer": ("call(<builtins.int>,[field(node,'val')],[])", "call(<builtins.int>,[field(node,'val'),Const(10)],[])"),
    "Float": ("call(<builtins.float>,[field(node,'val')],[])",),
    "String": ("field(node,'val')",),
    "Null": ("Const(None)",),
    "Date": ("call(<datetime.date.fromisoformat>,[field(node,'val')],[])",),
    "Time": ("call(<datetime.time.fromisoformat>,[field(node,'val')],[])",),
    "DateTime": ("call(<dateutil.parser.isoparse>,[field(node,'val')],[])", "call(<dateutil.parser.isoparser.isoparse>,[field(node,'val')],[])"),
    "GUID": ("call(<uuid.UUID>,[field(node,'val')],[])", "call(<uuid.UUID>,[],[['hex',field(node,'val')]])"),
}


# functions that are not the identity on the results of the standard conversion, each with a literal that shows it
LOSSY_WRAPPERS = {
    "Float": {"builtins.int": "1.5", "builtins.round": "1.5", "math.floor": "1.5", "math.ceil": "1.5", "math.trunc": "1.5", "builtins.str": "1.5",
              "builtins.bool": "1.5"},
    "Integer": {"builtins.str": "2", "builtins.bool": "2", "builtins.float": "9007199254740993"},
}


def _standard_conversions(ctx: Ctx, env):
    """R6: the Python value of a number, string, date, time, date-time or GUID literal is the standard-library / dateutil
    conversion of the literal's text (trusted to implement the calendar and numeric meaning). Anything else is hand-written
    arithmetic on run-time values: its agreement with the meaning cannot be decided here, so the check stops without a verdict
    rather than call it right or wrong."""
    from ..values import NodeV
    repo = env.repo
    n = 0
    for kind, accepted in STANDARD_CONVERSIONS.items():
        r = repo.lookup_method("odata_query.ast." + kind, "py_val")
        if r is None:
            raise AnalysisError(f"ast.{kind}.py_val not found", env.schema.module.rel)
        ci, fn = r
        interp = env.interp()
        paths = interp.explore(lambda it, ci=ci, fn=fn, kind=kind: (ci.module, fn, [NodeV("node", {kind})], {}, ci.qual))
        for p in paths:
            if p.outcome != "return":
                continue
            n += 1
            got = repr(p.value)
            if got not in accepted:
                # the standard conversion wrapped in a function that is not the identity on its results: decided, with a witness
                lossy = next(((f, w) for f, w in LOSSY_WRAPPERS.get(kind, {}).items() for a in accepted if got == f"call(<{f}>,[{a}],[])"), None)
                if lossy is not None:
                    ctx.fail("R6.value-is-the-standard-conversion", kind, f"ast.{kind}.py_val applies {lossy[0].split('.')[-1]}() to the standard "
                             f"conversion of the literal's text: the value of `{lossy[1]}` is no longer the number written", ci.module.loc(fn), f"x eq {lossy[1]}")
                    continue
                raise AnalysisError(f"ast.{kind}.py_val computes `{got[:160]}` instead of the standard conversion of the literal's text "
                                    f"({accepted[0]}): whether hand-written conversion agrees with the numeric/calendar meaning is a property of "
                                    "run-time values that this analysis cannot decide", ci.module.loc(fn))
            ctx.ok("R6.value-is-the-standard-conversion", kind, got)
    ctx.floor("py_val conversions checked", n, 8)
    ctx.trust("int/float, datetime.date/time.fromisoformat, dateutil.parser.isoparse and uuid.UUID convert well-formed text to its numeric/calendar meaning")


# ------------------------------------------------------------------------------------------------------------------
# Duration.unpack / Duration.py_val, evaluated (not read): what the capture groups become, what py_val computes
# ------------------------------------------------------------------------------------------------------------------
TIMEDELTA_POSITIONAL = ["days", "seconds", "microseconds", "milliseconds", "minutes", "hours", "weeks"]
PARTS = ["sign", "years", "months", "days", "hours", "minutes", "seconds"]
DAYS_PER = {1: 365.25, 2: 30.44, 3: 1.0}


def _duration_methods(ctx: Ctx, env, dur, dp):
    from ..interp import Interp, KindEnv
    from ..values import Const, NodeV, PyTuple, PyList
    repo = env.repo
    am = dur.module
    un, pv = dur.methods["unpack"], dur.methods["py_val"]

    # ---- unpack(): (group 1, group k+1 without its designator letter or None) --------------------------------------
    it = Interp(repo, env.schema, KindEnv(env.schema))
    paths = it.explore(lambda _it: (am, un, [NodeV("node", {"Duration"})], {}, dur.qual))
    ctx.floor("paths through Duration.unpack", len(paths), 2)

    def group_index(v) -> Optional[int]:
        """elem(<anchored match of DURATION_PATTERN on node.val>.groups(), k) -> k"""
        if not (isinstance(v, Sym) and v.op == "elem" and isinstance(v.args[1], int)):
            return None
        g = v.args[0]
        if not (isinstance(g, Sym) and g.op == "call" and isinstance(g.args[0], Sym) and g.args[0].op == "attr" and g.args[0].args[1] == "groups"):
            return None
        m = g.args[0].args[0]
        if not (isinstance(m, Sym) and m.op == "call" and isinstance(m.args[0], Sym) and m.args[0].op == "attr"):
            return None
        rxv, meth = m.args[0].args[0], m.args[0].args[1]
        if not (isinstance(rxv, Sym) and rxv.op == "regex" and rxv.args[0] == dp.pattern):
            return None
        anchored = meth == "fullmatch" or (meth == "match" and dp.pattern.endswith(("$", "\\Z")))
        if not anchored or len(m.args[1]) != 1 or "field(node,'val')" not in repr(m.args[1][0]):
            return None
        return v.args[1]

    def stripped_group(v) -> Optional[int]:
        """group text without its last character (the designator letter)"""
        if isinstance(v, Sym) and v.op == "getslice":
            sl = v.args[1]
            if isinstance(sl, Sym) and sl.op == "slice":
                lo, hi = sl.args[0], sl.args[1]
                st = sl.args[2] if len(sl.args) > 2 else Const(None)
                if isinstance(lo, Const) and lo.v in (None, 0) and isinstance(hi, Const) and hi.v == -1 and isinstance(st, Const) and st.v in (None, 1):
                    return group_index(v.args[0])
        if isinstance(v, Str) and len(v.parts) == 1 and v.parts[0][0] == "dyn":
            tr = [tuple(t) for t in v.parts[0][2]]
            if len(tr) == 1 and tr[0][0] == "slice" and tr[0][1] in (None, 0) and tr[0][2] == -1:
                return group_index(v.parts[0][1])
        return None

    ok_all = True
    n_ret = 0
    for x in paths:
        if x.outcome != "return":
            q = it.exc_class(x.value)
            ctx.check(q == "builtins.ValueError", "R5.duration-unpack", "unpack|raise", f"unpack() raises {q}; only ValueError (no match) is expected", x.where)
            continue
        n_ret += 1
        v = x.value
        items = list(v.items) if isinstance(v, (PyTuple, PyList)) else None
        if items is None or len(items) != 7:
            ctx.fail("R5.duration-unpack", "unpack|shape", f"unpack() returns {v!r}, not the 7-tuple (sign, years, months, days, hours, minutes, seconds)", am.loc(un))
            ok_all = False
            break
        conds = dict(x.conds)
        for k, item in enumerate(items):
            if k == 0:
                good = group_index(item) == 0 or (isinstance(item, Const) and item.v is None and any(
                    c.startswith("truth(") and ",0))" in c and val is False for c, val in x.conds))
                what = "the sign group as matched"
            elif isinstance(item, Const) and item.v is None:
                # None exactly when that group did not take part in the match
                falsy = [c for c, val in x.conds if val is False and c.startswith("truth(elem(") and c.endswith(f",{k}))")]
                good = bool(falsy)
                what = "None only when the group is absent"
            else:
                good = stripped_group(item) == k
                what = f"capture group {k + 1} without its designator letter"
            if not good:
                ok_all = False
                ctx.fail("R5.duration-unpack", f"unpack|{PARTS[k]}", f"unpack() returns {item!r} for `{PARTS[k]}` under {x.cond_str()[:100]}; required: {what}",
                         am.loc(un), "x eq duration'P1Y2M3DT4H5M6S'")
                break
        if not ok_all:
            break
    if ok_all and n_ret:
        ctx.ok("R5.duration-unpack", "unpack", f"{n_ret} returning paths: sign as matched, each part its group minus the designator, None when absent")

    # ---- py_val: timedelta(days = d + 365.25 y + 30.44 mo, hours, minutes, seconds), negated exactly for '-' ------------
    it = Interp(repo, env.schema, KindEnv(env.schema))
    paths = it.explore(lambda _it: (am, pv, [NodeV("node", {"Duration"})], {}, dur.qual))
    ctx.floor("paths through Duration.py_val", len(paths), 4)

    def part_index(v) -> Optional[int]:
        if isinstance(v, Sym) and v.op == "elem" and isinstance(v.args[1], int) and isinstance(v.args[0], Sym) and v.args[0].op == "meth" \
                and v.args[0].args[1] == "unpack" and isinstance(v.args[0].args[0], NodeV):
            return v.args[1]
        return None

    class NotLinear(Exception):
        pass

    def lin(t) -> Dict[Any, float]:
        """linear form {part index | 'const': coefficient} of an arithmetic term over float(part)"""
        if isinstance(t, Const) and isinstance(t.v, (int, float)) and not isinstance(t.v, bool):
            return {"const": float(t.v)} if t.v else {}
        if isinstance(t, Sym) and t.op == "call" and isinstance(t.args[0], RefV) and t.args[0].qual == "builtins.float" and len(t.args[1]) == 1:
            a = t.args[1][0]
            i = part_index(a)
            if i is not None:
                return {i: 1.0}
            if isinstance(a, Const) and isinstance(a.v, (int, float, str)):
                try:
                    return {"const": float(a.v)} if float(a.v) else {}
                except ValueError:
                    raise NotLinear(repr(t))
            raise NotLinear(repr(t))
        if isinstance(t, Sym) and t.op == "unop" and t.args[0] == "USub":
            return {k: -c for k, c in lin(t.args[-1]).items()}
        if isinstance(t, Sym) and t.op == "binop":
            op, l, r = t.args
            if op in ("+", "-"):
                a, b = lin(l), lin(r)
                out = dict(a)
                for k, c in b.items():
                    out[k] = out.get(k, 0.0) + (c if op == "+" else -c)
                return {k: c for k, c in out.items() if c}
            if op == "*":
                a, b = lin(l), lin(r)
                for x, y in ((a, b), (b, a)):
                    if set(x) <= {"const"}:
                        c = x.get("const", 0.0)
                        return {k: v * c for k, v in y.items() if v * c}
                raise NotLinear(repr(t))
        raise NotLinear(repr(t)[:120])

    ok_all = True
    n_ret = 0
    for x in paths:
        if x.outcome != "return":
            q = it.exc_class(x.value)
            ctx.check(q == "builtins.ValueError", "R5.duration-value", "py_val|raise", f"py_val raises {q}", x.where)
            continue
        n_ret += 1
        v = x.value
        neg = False
        if isinstance(v, Sym) and v.op == "binop" and v.args[0] == "*":
            for a, b in ((v.args[1], v.args[2]), (v.args[2], v.args[1])):
                if isinstance(a, Const) and a.v == -1:
                    neg, v = True, b
                    break
        elif isinstance(v, Sym) and v.op == "unop" and v.args and v.args[0] == "USub":
            neg, v = True, v.args[-1]
        if not (isinstance(v, Sym) and v.op == "call" and isinstance(v.args[0], RefV) and v.args[0].qual == "datetime.timedelta"):
            ctx.fail("R5.duration-value", "py_val|shape", f"py_val returns {x.value!r}: not a (possibly negated) datetime.timedelta(...)", am.loc(pv))
            ok_all = False
            break
        fields: Dict[str, Any] = {}
        for name, a in zip(TIMEDELTA_POSITIONAL, v.args[1]):
            fields[name] = a
        for name, a in (v.args[2] or ()):
            fields[name] = a
        truthy = {k for k in range(0, 7) if any(val is True and c == f"truth(elem(meth(node,'unpack',[]),{k}))" for c, val in x.conds)}
        want = {"days": {k: DAYS_PER[k] for k in (1, 2, 3) if k in truthy}, "hours": {4: 1.0} if 4 in truthy else {},
                "minutes": {5: 1.0} if 5 in truthy else {}, "seconds": {6: 1.0} if 6 in truthy else {}}
        try:
            got = {name: lin(t) for name, t in fields.items()}
        except NotLinear as e:
            ctx.fail("R5.duration-value", "py_val|arithmetic", f"py_val computes {e}: not a linear combination of float(<part>) values", am.loc(pv))
            ok_all = False
            break
        for name in sorted(set(got) | set(want)):
            g, w = got.get(name, {}), want.get(name, {})
            same = set(g) == set(w) and all(abs(g[k] - w[k]) < 1e-9 for k in g)
            if not same:
                ok_all = False
                def show(d):
                    return " + ".join(f"{c:g}*{PARTS[k] if isinstance(k, int) else k}" for k, c in sorted(d.items(), key=lambda kv: str(kv[0]))) or "0"
                ctx.fail("R5.duration-value", f"py_val|{name}", f"timedelta({name}=...) is {show(g)}; documented: {show(w)} (a year counts 365.25 days, a month 30.44) "
                         f"when the parts present are {[PARTS[k] for k in sorted(truthy - {0})]}", am.loc(pv), "x eq duration'P1Y1M1DT1H1M1S'")
                break
        if not ok_all:
            break
        is_minus = any(val is True and c.replace(" ", "") in ("elem(meth(node,'unpack',[]),0)=='-'", "'-'==elem(meth(node,'unpack',[]),0)") for c, val in x.conds)
        if neg != is_minus:
            ok_all = False
            ctx.fail("R5.duration-sign", "Duration.py_val", f"the duration is {'negated' if neg else 'not negated'} on a path where the sign "
                     f"{'is' if is_minus else 'is not known to be'} '-' ({x.cond_str()[-160:]}): only a leading '-' negates", am.loc(pv),
                     "x eq duration'+P1D'" if neg else "x eq duration'-P1D'")
            break
    if ok_all and n_ret:
        ctx.ok("R5.duration-value", "py_val", f"{n_ret} paths: days = days + 365.25*years + 30.44*months; hours, minutes, seconds; negated exactly for '-'")
        ctx.ok("R5.duration-sign", "Duration.py_val", "negated exactly when the sign is '-'")
