"""C19 - whitespace layout and keyword case do not change the meaning of a filter."""
from __future__ import annotations

import ast
from typing import Any, Dict, List, Optional, Set, Tuple

from .. import heval, rx, sqlrules, sqltok, termrules as T
from ..report import AnalysisError, Ctx
from ..sqlrules import SqlAnalysis, raw_origin
from ..values import NodeV, Sym
from .common import grammar_module

EXPLANATION = (
    "R1: every whitespace-bearing token language is closed under replacing a whitespace run by any other non-empty run - "
    "decided on each rule's DFA (all whitespace classes act alike in every state and a second whitespace character leads "
    "to an equivalent state). R2: the lexer's flags contain re.I and no rule changes it, so every keyword letter is "
    "case-free. R3: the productions carry the optional-whitespace non-terminal at every position the grammar advertises "
    "(inside parentheses, around commas and the lambda colon) and BWS derives WS or nothing. R4: for every token kind whose "
    "text keeps the case the user typed (Boolean, the T/Z of DateTime, the exponent of Float) either the lexer action "
    "normalises it, or every consumer of the raw text - the py_val properties in ast.py and every back end, found by "
    "evaluating all handlers abstractly - is case-insensitive: case-normalised before a comparison, delegated to py_val, "
    "re-emitted raw for the OData lexer, or emitted as a SQL token class that is itself case-insensitive; a case-sensitive "
    "comparison, a replace() of a cased letter, or emission inside a quoted SQL string are violations."
)
RULE_TEXT = "one obligation per whitespace-bearing rule, per production with optional-whitespace positions, per consumer of case-variant text"

CASE_VARIANT_KINDS = {"Boolean": "true/false", "DateTime": "the T separator and the Z suffix", "Float": "the exponent letter e"}
CASE_TRANSFORMS = {"lower", "upper", "casefold"}


def check_py_val_case(ctx: Ctx, env, rule: str = "R4.consumer-case-insensitive") -> int:
    """The py_val conversions of the literal kinds whose spelling can vary in case (true/TRUE, 1e3/1E3, ...t...z) must not
    depend on the case of the raw text: comparisons on a case-normalised copy, conversions through case-insensitive parsers."""
    g, kf = env.grammar, env.kindflow
    n_cons = 0
    lexer_normalises: Set[str] = set()
    for r in g.rules:
        for p in kf.token_paths.get(r.name, []):
            v = getattr(p.value, "attrs", {}).get("value") if p.outcome == "return" else None
            if v is not None and getattr(v, "cls", None) in CASE_VARIANT_KINDS:
                val = v.fields.get("val")
                if any(t and t[0] in CASE_TRANSFORMS for t in _transforms_of(val)):
                    lexer_normalises.add(v.cls)
    kinds = [k for k in CASE_VARIANT_KINDS if k not in lexer_normalises]
    # (a) ast.py properties
    for kind in kinds:
        ci = env.repo.classes.get("odata_query.ast." + kind)
        if ci is None:
            continue
        r = env.repo.lookup_method(ci.qual, "py_val")
        if r is None:
            continue
        interp = env.interp()
        pci, fn = r

        def setup(it, kind=kind, pci=pci, fn=fn):
            return pci.module, fn, [NodeV("node", {kind})], {}, pci.qual

        for p in interp.explore(setup):
            for k, v in p.conds:
                if "field(node,'val')" in k and ("==" in k or "in(" in k):
                    n_cons += 1
                    ctx.check(any(f"|{t}" in k for t in CASE_TRANSFORMS), rule, f"ast.{kind}.py_val",
                              f"{kind}.py_val compares the raw text case-sensitively (`{k}`): {CASE_VARIANT_KINDS[kind]} can be written in either case",
                              pci.module.loc(fn), {"Boolean": "flag eq TRUE", "DateTime": "d eq 2020-01-01t10:00:00z", "Float": "x eq 1E3"}[kind])
    # (a2) the conversion the raw text is handed to must itself be case-insensitive for this kind (read off the evaluated term)
    INSENSITIVE = {"dateutil.parser.isoparse", "dateutil.parser.parse", "dateutil.parser.isoparser.isoparse", "builtins.float", "builtins.int",
                   "uuid.UUID", "decimal.Decimal"}
    SENSITIVE = {"datetime.datetime.fromisoformat": "datetime.fromisoformat accepts only an upper-case Z (and, before 3.11, only upper-case T)",
                 "datetime.datetime.strptime": "strptime formats match letters case-sensitively"}
    from ..values import RefV, Str
    for kind in kinds:
        ci = env.repo.classes.get("odata_query.ast." + kind)
        r = env.repo.lookup_method(ci.qual, "py_val") if ci else None
        if r is None:
            continue
        pci, fn = r
        interp = env.interp()
        seen_calls = set()

        def raw_text(v) -> Optional[bool]:
            """True: the untransformed text of the literal; False: a case-normalised copy; None: something else"""
            if isinstance(v, Sym) and v.op == "field" and v.args[1] == "val":
                return True
            if isinstance(v, Str) and len(v.parts) == 1 and v.parts[0][0] == "dyn" and isinstance(v.parts[0][1], Sym) and v.parts[0][1].op == "field" \
                    and v.parts[0][1].args[1] == "val":
                return not any(t and t[0] in CASE_TRANSFORMS for t in v.parts[0][2])
            return None

        def walk(v):
            if isinstance(v, Sym):
                if v.op == "call" and len(v.args) >= 2 and v.args[1] and raw_text(v.args[1][0]) is True:
                    yield v
                for a in v.args:
                    if isinstance(a, (tuple, list)):
                        for x in a:
                            if isinstance(x, (tuple, list)):
                                for y in x:
                                    yield from walk(y)
                            else:
                                yield from walk(x)
                    else:
                        yield from walk(a)

        for p in interp.explore(lambda it, kind=kind, pci=pci, fn=fn: (pci.module, fn, [NodeV("node", {kind})], {}, pci.qual)):
            if p.outcome != "return":
                continue
            for c in walk(p.value):
                f = c.args[0]
                why = None
                if isinstance(f, RefV):
                    name = f.qual
                    if name in SENSITIVE:
                        why = SENSITIVE[name]
                    elif name not in INSENSITIVE:
                        raise AnalysisError(f"{kind}.py_val converts the raw text with {name}(), whose case behaviour is unknown to the oracle", pci.module.loc(fn))
                elif isinstance(f, Sym) and f.op == "attr" and f.args[1] == "isoparse" and isinstance(f.args[0], Sym) and f.args[0].op == "call" \
                        and isinstance(f.args[0].args[0], RefV) and f.args[0].args[0].qual in ("dateutil.parser.isoparser", "dateutil.parser.isoparser.isoparser"):
                    name = "isoparser(...).isoparse"
                    ctor = f.args[0]
                    sep = None
                    if ctor.args[1]:
                        sep = ctor.args[1][0]
                    for k, v in (ctor.args[2] or ()):
                        if k == "sep":
                            sep = v
                    from ..values import Const as _C
                    if sep is not None and not (isinstance(sep, _C) and sep.v is None):
                        if isinstance(sep, _C) and isinstance(sep.v, str) and sep.v.lower() == sep.v.upper():
                            pass  # a separator without case
                        else:
                            why = f"an isoparser built with sep={sep!r} accepts exactly that character between date and time"
                else:
                    raise AnalysisError(f"{kind}.py_val converts the raw text with `{f!r:.80}`, whose case behaviour is unknown to the oracle", pci.module.loc(fn))
                key = f"ast.{kind}.py_val|{name.rsplit('.', 1)[-1]}"
                if key in seen_calls:
                    continue
                seen_calls.add(key)
                n_cons += 1
                if why:
                    ctx.fail(rule, key, f"{kind}.py_val hands the raw text to {name}(): {why}, but the lexer also accepts the lower-case spelling",
                             pci.module.loc(fn), "d eq 2020-06-01t00:00:00z")
                else:
                    ctx.ok(rule, key, "case-insensitive conversion (trusted)")
    return n_cons


def check_backend_case(ctx: Ctx, env, kinds, rule: str = "R4.consumer-case-insensitive", only=None) -> int:
    """Back ends that read the raw text of a literal whose spelling can vary in case must normalise it (or hand it to a
    case-insensitive consumer) before deciding on it or quoting it."""
    H = heval.get(env)
    n_cons = 0
    for vcls in H.visitors():
        if only is not None and not only(vcls):
            continue
        vs = H.short(vcls)
        is_sql = vcls in H.sql_visitors()
        is_roundtrip = "roundtrip" in vcls
        A = SqlAnalysis(env, vcls) if is_sql else None
        for kind in kinds:
            paths = H.eval_visit(vcls, kind) or []
            for p in paths:
                handler_q = p.entry.get("handler", "?")
                owner_short = ".".join(handler_q.rsplit(".", 2)[-2:])
                where = p.entry.get("where", "")
                wit = {"Boolean": "flag eq TRUE", "DateTime": "d eq 2020-01-01t10:00:00z", "Float": "x eq 1E3"}[kind]
                for k, v in p.conds:
                    if "field(node,'val')" in k and ("==" in k or k.startswith("in(")):
                        n_cons += 1
                        ctx.check(any(f"|{t}" in k for t in CASE_TRANSFORMS), rule, f"{owner_short}|compare",
                                  f"[{vs}] decides on `{k}`: a case-sensitive test on text that keeps the user's case ({CASE_VARIANT_KINDS[kind]})", where, wit)
                if p.outcome != "return":
                    continue
                if is_roundtrip:
                    n_cons += 1
                    continue  # raw re-emission, re-lexed under re.I
                if is_sql and A is not None:
                    items = A._items(p.value)
                    if items is None:
                        continue
                    st = sqltok.analyse(sqltok.tokenize(items))
                    for tok in st.toks:
                        pieces = []
                        if tok.kind == "raw":
                            pieces = [(tok.value, False)]
                        elif tok.kind == "string":
                            pieces = [(c, True) for c in (tok.value or []) if not isinstance(c, str)]
                        for piece, quoted in pieces:
                            o = raw_origin(piece[1])
                            if o is None or kind not in o.kinds or o.attr != "val":
                                continue
                            n_cons += 1
                            tr = tuple(o.extra_transforms) + tuple(piece[2])
                            normalised_at = next((i for i, t in enumerate(tr) if t and t[0] in CASE_TRANSFORMS), None)
                            cased_replace = [t for i, t in enumerate(tr) if t and t[0] == "replace" and isinstance(t[1], str) and t[1].lower() != t[1].upper()
                                             and (normalised_at is None or i < normalised_at)]
                            if cased_replace:
                                ctx.fail(rule, f"{owner_short}|replace",
                                         f"[{vs}] applies {cased_replace[0][0]}({cased_replace[0][1]!r}, {cased_replace[0][2]!r}) to text whose case the user chose: "
                                         f"the lower-case spelling is not replaced", where, wit)
                            elif quoted and normalised_at is None:
                                ctx.fail(rule, f"{owner_short}|quoted",
                                         f"[{vs}] hands the text to the SQL engine inside a quoted string without normalising its case "
                                         f"({CASE_VARIANT_KINDS[kind]}): engines parse the quoted form case-sensitively", where, wit)
                            else:
                                ctx.ok(rule, f"{owner_short}|{kind}", "case-insensitive SQL token class or normalised")
                else:
                    t = repr(p.value)
                    n_cons += 1
                    if "field(node,'val')" in t and "py_val" not in t:
                        ctx.fail(rule, f"{owner_short}|raw", f"[{vs}] passes the raw text on ({T.show(T.norm(p.value), 80)})", where, wit)
    return n_cons


def run(ctx: Ctx, env):
    g = env.grammar
    gm = grammar_module(env)
    kf = env.kindflow
    # a look-behind makes a token depend on whether a blank stands before it: `(not a)` and `( not a)` must lex alike
    from .c06 import check_token_left_context
    check_token_left_context(ctx, env, "R1.token-independent-of-blank-before")
    alpha = rx.Alphabet.for_patterns([r.pattern for r in g.rules] + [r"\s"], g.reflags, full=(ctx.tier == "thorough"))
    ws_atom = (rx.sre_c.IN, ((rx.sre_c.CATEGORY, rx.sre_c.CATEGORY_SPACE),))
    ws = alpha.classes_matching(ws_atom)
    if not ws:
        raise AnalysisError("no whitespace class in the alphabet")

    # ---- R1 whitespace closure ---------------------------------------------------------------------------------------
    n_ws = 0
    for r in g.rules:
        rule = rx.compile_rule(r.pattern, g.reflags, alpha)
        d = rule.dfa
        used = rx.symbols_used(d)
        if not (used & ws):
            continue
        n_ws += 1
        cls = rx.state_classes(d)
        live = rx.live_states(d)
        problem = None
        reach = {d.start}
        todo = [d.start]
        while todo:
            s = todo.pop()
            for c, t in enumerate(d.trans[s]):
                if t not in reach:
                    reach.add(t)
                    todo.append(t)
        for s in sorted(reach):
            if s not in live:
                continue
            targets = {cls[d.trans[s][c]] for c in ws}
            if len(targets) > 1:
                a = [alpha.rep[c] for c in sorted(ws) if d.trans[s][c] in live][:1]
                b = [alpha.rep[c] for c in sorted(ws) if d.trans[s][c] not in live][:1]
                problem = f"whitespace characters are not interchangeable (e.g. {a[0] if a else '?'!r} accepted where {b[0] if b else '?'!r} is not)"
                break
            for c in ws:
                t = d.trans[s][c]
                if t in live:
                    t2 = d.trans[t][c]
                    if cls[t2] != cls[t]:
                        problem = "the length of a whitespace run matters (one whitespace character is accepted where two are not, or vice versa)"
                        break
            if problem:
                break
        tok_cls = None
        sh = kf.token_shapes.get(r.name, set())
        ks = [s_[1] for s_ in sh if s_[0] == "node"]
        kw = ks[0].lower() if ks else r.name.lower()
        ctx.check(problem is None, "R1.whitespace-runs-interchangeable", r.name, f"token {r.name}: {problem}", gm.loc(r.func) if r.func else gm.rel,
                  f"a\t{ {'Add': 'add', 'And': 'and', 'Eq': 'eq'}.get(ks[0], 'eq') if ks else 'eq'}\n 1  (tab/newline/double space as separators)")
    # a rule's trailing look-ahead must not tell whitespace characters apart either
    for r in g.rules:
        rule = rx.compile_rule(r.pattern, g.reflags, alpha)
        for vd, vlook in rule.variants:
            if vlook.allowed is None:
                continue
            inside = [c for c in ws if c in vlook.allowed]
            ctx.check(len(inside) in (0, len(ws)), "R1.lookahead-whitespace-uniform", r.name,
                      f"the look-ahead of {r.name} accepts some whitespace characters ({[alpha.rep[c] for c in inside]}) but not others: the token is "
                      "recognised before a space and not before a tab/newline", gm.loc(r.func) if r.func else gm.rel, "x eq null\tor y eq 1")
    ctx.floor("whitespace-bearing rules", n_ws, 15)

    # ---- R2 case flag ----------------------------------------------------------------------------------------------------
    ctx.check("re.I" in g.reflags or "re.IGNORECASE" in g.reflags, "R2.lexer-ignores-case", "reflags",
              f"the lexer's reflags are {g.reflags}: keywords are no longer matched case-insensitively", gm.rel, "a EQ 1 AND b eq TRUE")
    for r in g.rules:
        sub = rx.parse(r.pattern, rx.flags_value(g.reflags))
        bad = _inline_case_flags(sub)
        ctx.check(not bad, "R2.rule-keeps-case-flag", r.name, "the rule switches case-insensitivity off with an inline flag", gm.loc(r.func) if r.func else gm.rel)

    # ---- R3 optional whitespace in productions ---------------------------------------------------------------------------
    bws = "BWS"
    bprods = sorted(tuple(p.syms) for p in g.productions if p.name == bws)
    ws_tokens = [r.name for r in g.rules if r.func is None and rx.symbols_used(rx.compile_rule(r.pattern, g.reflags, alpha).dfa) <= ws]
    empties = {p.name for p in g.productions if not p.syms}
    ok = len(bprods) == 2 and any(len(s) == 1 and s[0] in ws_tokens for s in bprods) and any(len(s) == 1 and s[0] in empties or s == () for s in bprods)
    ctx.check(ok, "R3.bws-derives-ws-or-nothing", bws, f"BWS -> {bprods}: optional whitespace must derive the whitespace token or nothing", gm.rel, "( a eq 1 )")
    n_pos = 0
    for p in g.productions:
        syms = list(p.syms)
        for i, s in enumerate(syms):
            if s == "(" and ")" in syms[i + 1:]:
                j = len(syms) - 1 - syms[::-1].index(")")
                inner = syms[i + 1:j]
                if not inner:
                    continue
                n_pos += 1
                ok = inner[0] == bws and inner[-1] == bws
                if inner == [bws]:
                    ok = True
                ctx.check(ok, "R3.optional-whitespace-positions", f"{p.name}|{' '.join(p.syms)}|parens",
                          f"production `{p}` does not allow optional whitespace just inside its parentheses", gm.loc(p.func), "contains( a, 'x' )")
            if s in (",", ":"):
                n_pos += 1
                ok = i > 0 and syms[i - 1] == bws and i + 1 < len(syms) and syms[i + 1] == bws
                ctx.check(ok, "R3.optional-whitespace-positions", f"{p.name}|{' '.join(p.syms)}|{s}",
                          f"production `{p}` does not allow optional whitespace on both sides of `{s}`", gm.loc(p.func),
                          "a in (1 , 2)" if s == "," else "items/any(i : i eq 1)")
    ctx.floor("optional-whitespace positions", n_pos, 14)

    # ---- R4 case normalisation of consumers ------------------------------------------------------------------------------------
    H = heval.get(env)
    n_cons = check_py_val_case(ctx, env)
    lexer_normalises: Set[str] = set()
    for r in g.rules:
        for p in kf.token_paths.get(r.name, []):
            v = getattr(p.value, "attrs", {}).get("value") if p.outcome == "return" else None
            if v is not None and getattr(v, "cls", None) in CASE_VARIANT_KINDS:
                val = v.fields.get("val")
                if any(t and t[0] in CASE_TRANSFORMS for t in _transforms_of(val)):
                    lexer_normalises.add(v.cls)
    kinds = [k for k in CASE_VARIANT_KINDS if k not in lexer_normalises]
    # (b) back ends
    n_cons += check_backend_case(ctx, env, kinds)
    ctx.floor("consumers of case-variant text", n_cons, 12)
    ctx.assume("dateutil's isoparse treats t/z like T/Z (trusted); float() and the SQL numeric grammar accept e and E")


def _transforms_of(val) -> List[Tuple]:
    from ..values import Str
    if isinstance(val, Str):
        out = []
        for p in val.parts:
            if p[0] == "dyn":
                out.extend(p[2])
        return out
    return []


def _inline_case_flags(sub) -> bool:
    c = rx.sre_c
    import re as _re
    for op, av in sub:
        if op is c.SUBPATTERN:
            if (av[1] | av[2]) & _re.IGNORECASE:
                return True
            if _inline_case_flags(av[3]):
                return True
        elif op is c.BRANCH:
            if any(_inline_case_flags(a) for a in av[1]):
                return True
        elif op in (c.MAX_REPEAT, c.MIN_REPEAT):
            if _inline_case_flags(av[2]):
                return True
    return False
