"""C14 - alias rewriting is exact substitution on field references only."""
from __future__ import annotations

from typing import Any, Dict, List, Optional, Set

from ..report import AnalysisError, Ctx
from ..values import AbsList, Const, NewNode, NodeV, ObjV, PyDict, RefV, Sym
from .common import is_visit_of, make_instance

EXPLANATION = (
    "Static analysis of AliasRewriter (rewrite.py) on top of the generic transformer (C16). Every handler the class "
    "resolves for every node class of the parser's image is evaluated abstractly. R1: the handlers that can return "
    "an entry of the replacement table are exactly those of Identifier and Attribute. R2: following the traversal, "
    "no naming position (Call.func, NamedParam.name, Lambda.identifier - fields declared Identifier, not expression) "
    "is dispatched to a substituting handler, and a lambda's bound variable is shielded inside its body. R3: the "
    "Attribute handler returns the table entry on a hit without descending, and on a miss rebuilds "
    "Attribute(visit(owner), attr). R4: visit/generic_visit are inherited. R5: the table is built once in the "
    "constructor as parse(key) -> parse(value) with the supplied-or-fresh lexer and parser."
)
RULE_TEXT = "one obligation per (node class, handler path) of AliasRewriter, per naming position, per constructor path"

REWRITER = "odata_query.rewrite.AliasRewriter"
TRANSFORMER = "odata_query.visitor.NodeTransformer"


def _table_attr(obj: ObjV) -> Optional[str]:
    """Name of the attribute holding the replacement table: the PyDict built in __init__ whose keys/values
    are parse results."""
    for k, v in obj.attrs.items():
        if isinstance(v, PyDict) and (v.opaque_keys or v.items):
            if any(_is_parse_call(kk) for kk, _ in v.opaque_keys):
                return k
    return None


def _is_parse_call(v) -> bool:
    return isinstance(v, Sym) and v.op == "call" and "parse" in repr(v.args[0])


def _returns_table_entry(v, table_attr: str) -> bool:
    r = repr(v)
    return isinstance(v, Sym) and v.op in ("item", "dictget") and ("parse" in r)


def run(ctx: Ctx, env):
    repo, schema = env.repo, env.schema
    if REWRITER not in repo.classes:
        raise AnalysisError("odata_query.rewrite.AliasRewriter not found")
    ci = repo.classes[REWRITER]
    rm = ci.module
    # nodes are found by equality (dict lookup / `==`): structural equality over all fields is a precondition (C16's schema rules)
    from .c16 import check_node_schema
    from .c04 import _SubCtx
    check_node_schema(_SubCtx(ctx, only={"R5.frozen-dataclass", "R5.generated-eq", "R5.no-custom-eq", "R5.field-compares", "R5.constructed-as-declared"},
                              rename=lambda r: "R0.nodes-compare-structurally-" + r.split(".", 1)[1]), env)
    ctx.check(TRANSFORMER in repo.mro(REWRITER), "R4.is-transformer", "AliasRewriter", "does not derive from NodeTransformer",
              rm.loc(ci.node))
    for name in ("visit", "generic_visit"):
        r = repo.lookup_method(REWRITER, name)
        ctx.check(r is not None and r[0].qual in (TRANSFORMER, "odata_query.visitor.NodeVisitor"), "R4.generic-traversal-inherited",
                  f"AliasRewriter.{name}", f"{name} is overridden: non-matching nodes are no longer rebuilt by the generic transformer (C16)",
                  rm.loc(r[1]) if r else "")

    # the generic transformer the rewriter inherits must rebuild every node and reach every contained node, or aliases in
    # the skipped positions stay unreplaced (same rule as C16/R3)
    from .c16 import check_generic_traversal
    check_generic_traversal(ctx, env, TRANSFORMER, True, "R4.generic-transformer-complete")

    interp = env.interp()
    aliases = Sym("param", "field_aliases")

    # ---- R5 constructor -----------------------------------------------------------------------------------
    init = repo.lookup_method(REWRITER, "__init__")
    if init is None:
        raise AnalysisError("AliasRewriter.__init__ not found")
    ici, ifn = init
    params = [a.arg for a in ifn.args.args[1:]]
    holder: Dict[str, Any] = {}

    def setup_init(it):
        obj = ObjV(REWRITER, {}, "self")
        holder["obj"] = obj
        args = [aliases] + [Sym("param", p) for p in params[1:]]
        return ici.module, ifn, [obj] + args, {}, ici.qual

    ipaths = interp.explore(setup_init)
    ctx.floor("constructor paths", len(ipaths), 1)
    table_attr = None
    for x in ipaths:
        table_attr = table_attr or _table_attr(x.entry["args"][0])
    for x in ipaths:
        obj = x.entry["args"][0]
        ta = _table_attr(obj)
        key = f"__init__|{x.cond_str()[:100]}"
        if ta is None and table_attr and isinstance(obj.attrs.get(table_attr), PyDict) and \
                any(k.startswith("empty(") and v is True for k, v in x.conds):
            ctx.ok("R5.table-built-by-parsing", key, "empty alias map -> empty table")
            continue
        if ta is None:
            ctx.fail("R5.table-built-by-parsing", key, "constructor does not build a table of parse(key) -> parse(value)", rm.loc(ifn))
            continue
        table_attr = ta
        tbl: PyDict = obj.attrs[ta]
        ok = len(tbl.opaque_keys) == 1 and not tbl.items
        k, v = tbl.opaque_keys[0] if tbl.opaque_keys else (None, None)
        # which lexer/parser objects are used on this path
        lexer_used, parser_used = _parse_objects(k)
        lexer_used2, parser_used2 = _parse_objects(v)
        ok = ok and lexer_used is not None and lexer_used == lexer_used2 and parser_used == parser_used2
        # keys come from the alias map's keys, values from its values
        ok = ok and _inner_arg(k) is not None and _inner_arg(v) is not None and _inner_arg(k) != _inner_arg(v)
        if ok:
            role_k, role_v = _role(_inner_val(k)), _role(_inner_val(v))
            if role_k is None or role_v is None:
                raise AnalysisError(f"unrecognised alias-table construction: {k!r} -> {v!r}", rm.loc(ifn))
            ctx.check(role_k == "key" and role_v == "value", "R5.table-direction", key,
                      f"the table maps parse(<alias {role_k}>) to parse(<alias {role_v}>); it must map parsed alias keys to parsed alias values",
                      rm.loc(ifn), "alias {'a': 'author'}, filter `a eq 1`")
        ctx.check(ok, "R5.table-built-by-parsing", key, f"table entry is {k!r} -> {v!r}", rm.loc(ifn))
        # supplied objects are used iff given
        for pname, used in (("lexer", lexer_used), ("parser", parser_used)):
            if pname not in params:
                continue
            given = None
            for ck, cv in x.conds:
                if ck == f"truth(param('{pname}'))":
                    given = cv
                if ck.startswith("isnone(param('" + pname):
                    given = not cv
            if given is None:
                continue
            uses_param = used is not None and f"param('{pname}')" in used
            ctx.check(uses_param == given, "R5.supplied-instances-used", f"{pname}|given={given}",
                      f"{pname} {'supplied' if given else 'not supplied'} but the table is built with {used}", rm.loc(ifn))
        ctx.sample({"constructor_path": x.cond_str(), "entry": f"{k!r} -> {v!r}"[:200]})
    if table_attr is None:
        return

    # ---- evaluate every handler AliasRewriter resolves, per node class ------------------------------------------
    kinds = sorted(env.kindflow.all_kinds())
    ctx.floor("node classes in the parser's image", len(kinds), 35)
    substituting: Set[str] = set()
    handler_paths: Dict[str, list] = {}
    for kind in kinds:
        r = repo.lookup_method(REWRITER, "visit_" + kind)
        if r is None:
            r = repo.lookup_method(REWRITER, "generic_visit")
        hci, fn = r

        def setup(it, kind=kind, hci=hci, fn=fn):
            obj = ObjV(REWRITER, {table_attr: Sym("cfg", "self", table_attr)}, "self")
            return hci.module, fn, [obj, NodeV("node", {kind})], {}, hci.qual

        paths = interp.explore(setup)
        handler_paths[kind] = paths
        from .common import check_shared_caches
        check_shared_caches(ctx, paths, "R6.no-state-shared-between-rewriters", "a rewriter with another alias map reuses an earlier rewriter's result")
        for x in paths:
            if x.outcome == "return" and _is_table_entry(x.value, table_attr):
                substituting.add(kind)

    # ---- R1 substitution sites ---------------------------------------------------------------------------------
    for kind in kinds:
        r = repo.lookup_method(REWRITER, "visit_" + kind)
        where = r[0].module.loc(r[1]) if r else rm.rel
        if kind in ("Identifier", "Attribute"):
            ctx.check(kind in substituting, "R1.substitution-sites", kind, f"visit_{kind} never returns a table entry: aliases "
                      f"for {kind.lower()}s are ignored", where, "alias a -> b, filter `a eq 1`")
        else:
            ctx.check(kind not in substituting, "R1.substitution-sites", kind,
                      f"the handler for {kind} can return a table entry: something other than a field reference is substituted", where)

    # ---- R3 shapes of the two substituting handlers ----------------------------------------------------------
    for kind in ("Identifier", "Attribute"):
        for x in handler_paths.get(kind, []):
            key = f"{kind}|{x.cond_str()[:90]}"
            r = repo.lookup_method(REWRITER, "visit_" + kind) or repo.lookup_method(REWRITER, "generic_visit")
            where = r[0].module.loc(r[1])
            if x.outcome != "return":
                ctx.fail("R3.handler-shape", key, f"handler raises {x.value!r}", x.where)
                continue
            hit = _hit_cond(x, table_attr)
            v = x.value
            if hit is True:
                ok = _is_table_entry(v, table_attr) and _entry_key_is_node(v) and not any(ev.kind == "visit" for ev in x.events)
                ctx.check(ok, "R3.handler-shape", key, f"on a hit the handler must return replacements[node] without descending; got {v!r}", where)
            elif hit is False:
                if kind == "Identifier":
                    ok = (isinstance(v, NodeV) and v.path == "node") or (isinstance(v, NewNode) and v.cls == "Identifier")
                    want = "the identifier unchanged"
                else:
                    ok = isinstance(v, NewNode) and v.cls == "Attribute" and is_visit_of(v.fields.get("owner"), "node.owner") and \
                        isinstance(v.fields.get("attr"), Sym) and v.fields["attr"].op == "field" and v.fields["attr"].args[1] == "attr"
                    want = "Attribute(self.visit(node.owner), node.attr) (owner-prefix rule)"
                ctx.check(ok, "R3.handler-shape", key, f"on a miss the handler must return {want}; got {v!r}", where,
                          "alias a/b -> c, filter `a/b/d eq 1`" if kind == "Attribute" else None)
            else:
                ctx.fail("R3.handler-shape", key, "the decision to substitute is not `node in replacements`: "
                         f"{x.cond_str()[:120]}", where)

    # ---- R2 naming positions and lambda scope -----------------------------------------------------------------
    n_naming = 0
    for kind in kinds:
        nc = schema.classes[kind]
        for f in nc.fields:
            if not (f.shape == "node" and f.node_type == "Identifier"):
                continue
            n_naming += 1
            visited = False
            for x in handler_paths.get(kind, []):
                for ev in x.events:
                    if ev.kind == "visit" and getattr(ev.data.get("arg"), "path", None) == f"node.{f.name}" and ev.data.get("visitor") == "self":
                        visited = True
            wit = {"Call.func": "alias date -> created, filter `date(x) eq 2020-01-01`: the function name is rewritten",
                   "NamedParam.name": "alias a -> b, filter `ns.f(a=1)`: the parameter name is rewritten",
                   "Lambda.identifier": "alias x -> y, filter `items/any(x: x/p eq 1)`: the bound variable is rewritten"}.get(f"{kind}.{f.name}")
            r = repo.lookup_method(REWRITER, "visit_" + kind) or repo.lookup_method(REWRITER, "generic_visit")
            ctx.check(not (visited and "Identifier" in substituting), "R2.naming-position", f"{kind}.{f.name}",
                      f"{kind}.{f.name} names a function/parameter/variable, yet it is dispatched to the substituting Identifier handler",
                      r[0].module.loc(r[1]), wit)
    ctx.floor("naming positions", n_naming, 3)
    # lambda scope: the body is visited with the same table although it binds a name
    for kind in kinds:
        nc = schema.classes[kind]
        names = [f.name for f in nc.fields]
        binder = [f.name for f in nc.fields if f.shape == "node" and f.node_type == "Identifier"]
        body = [f.name for f in nc.fields if f.shape in ("node", "optional_node") and f.node_type == "_Node"]
        if kind != "Lambda" or not binder or not body:
            continue
        for x in handler_paths.get(kind, []):
            body_visited_by_self = any(ev.kind == "visit" and getattr(ev.data.get("arg"), "path", None) == f"node.{body[0]}" and
                                       ev.data.get("visitor") == "self" for ev in x.events)
            shielded = any(ev.kind in ("new_obj", "store_attr", "mutate") for ev in x.events)
            r = repo.lookup_method(REWRITER, "visit_" + kind) or repo.lookup_method(REWRITER, "generic_visit")
            ctx.check(not body_visited_by_self or shielded or "Identifier" not in substituting, "R2.lambda-scope", f"{kind}.{body[0]}",
                      "the lambda body is rewritten with the full table: occurrences of the bound variable that match an alias key are replaced",
                      r[0].module.loc(r[1]), "alias x -> y, filter `items/any(x: x/p eq 1)`")
    ctx.trust("C16: NodeTransformer.generic_visit rebuilds every node from visited children and never mutates")
    ctx.assume("dict lookup with frozen-dataclass keys is structural equality (dataclass eq/hash)")


def _is_table_entry(v, table_attr: str) -> bool:
    return isinstance(v, Sym) and v.op in ("item", "dictget") and isinstance(v.args[0], Sym) and v.args[0].op == "cfg" and \
        v.args[0].args[1] == table_attr


def _entry_key_is_node(v) -> bool:
    return isinstance(v, Sym) and len(v.args) > 1 and getattr(v.args[1], "path", None) == "node"


def _hit_cond(x, table_attr: str) -> Optional[bool]:
    for k, val in x.conds:
        if k.startswith("in(node,") and table_attr in k:
            return val
        if k.startswith("truth(dictget(") and table_attr in k:
            return val
    return None


def _parse_objects(v):
    """For P.parse(L.tokenize(x)) return (repr(L), repr(P))."""
    try:
        if not (isinstance(v, Sym) and v.op == "call"):
            return None, None
        pattr = v.args[0]
        if not (isinstance(pattr, Sym) and pattr.op in ("attr", "extattr") and pattr.args[-1] == "parse"):
            return None, None
        inner = v.args[1][0]
        lattr = inner.args[0]
        if not (isinstance(lattr, Sym) and lattr.args[-1] == "tokenize"):
            return None, None
        return repr(lattr.args[0]), repr(pattr.args[0])
    except Exception:
        return None, None


def _inner_val(v):
    try:
        return v.args[1][0].args[1][0]
    except Exception:
        return None


def _role(x) -> Optional[str]:
    """Is x the key or the value of an item of the alias mapping?"""
    if isinstance(x, Sym) and x.op == "elem" and len(x.args) == 2 and "items" in repr(x.args[0]):
        return {0: "key", 1: "value"}.get(x.args[1])
    if isinstance(x, Sym) and x.op == "elemof" and "field_aliases" in repr(x) and "items" not in repr(x) and "values" not in repr(x):
        return "key"
    if isinstance(x, Sym) and x.op == "elemof" and "field_aliases" in repr(x) and "'values'" in repr(x) and "items" not in repr(x):
        return "value"  # mapping.values(), paired position by position with mapping.keys()
    if isinstance(x, Sym) and x.op == "item" and "field_aliases" in repr(x.args[0]):
        return "value"
    return None


def _inner_arg(v) -> Optional[str]:
    try:
        return repr(v.args[1][0].args[1][0])
    except Exception:
        return None
