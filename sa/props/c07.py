"""C07 - no filter string can inject SQL through the raw SQL dialects."""
from __future__ import annotations

from typing import Any, Dict, List, Optional, Set, Tuple

from .. import heval, sqlrules, sqltok, witness
from ..report import AnalysisError, Ctx
from ..sqlrules import SqlAnalysis, Tmpl, raw_origin
from ..values import Const, NodeV, Str, Sym

EXPLANATION = (
    "Taint analysis over the string templates of the standard, SQLite and Athena visitors (every handler evaluated by "
    "the abstract interpreter per node kind and argument count; templates compose only through holes for visited "
    "children, so per-template facts lift to every nesting by induction). Sources: String.val (alphabet: any character, "
    "read from the STRING token rule), Identifier.name / Attribute.attr, every other raw node field. R1: every "
    "occurrence of a string-literal value lies inside exactly one '...' region of the template and its transform chain "
    "ends - as far as quotes are concerned - with replace(\"'\", \"''\"); R2: every identifier-derived value lies inside "
    "one \"...\" region and its alphabet (after sanitising, e.g. Athena's re.sub) excludes the double quote; R3: every "
    "other raw value has a token alphabet without quote, semicolon, whitespace or comment openers where it is emitted; "
    "R4: no template splices a child's SQL or an untraceable node-derived text inside a quoted region; R5: the table "
    "alias is configuration and appears only inside a quoted identifier."
)
RULE_TEXT = "one obligation per raw occurrence in a template (origin x handler), per dialect"

DANGEROUS_OUTSIDE = "'\";- /*\t\n"


def quote_chain_ok(transforms: Tuple, q: str) -> Tuple[bool, str]:
    """Does the chain end, quote-wise, with doubling of q?"""
    last_double = None
    for i, t in enumerate(transforms):
        if t and t[0] == "replace" and t[1] == q and t[2] == q + q:
            last_double = i
    if last_double is None:
        return False, f"no replace({q!r}, {q + q!r}) in the transform chain {_fmt(transforms)}"
    for t in transforms[last_double + 1:]:
        if not t:
            continue
        if t[0] == "replace" and (q in str(t[1]) or q in str(t[2])):
            return False, f"{_fmt((t,))} after the doubling can create or remove a quote"
        if t[0] in ("slice", "format", "strip", "lstrip", "rstrip", "repr") and t[0] != "str":
            if t[0] in ("strip", "lstrip", "rstrip") and len(t) > 1 and q not in str(t[1]):
                continue
            if t[0] in ("strip", "lstrip", "rstrip") and len(t) == 1:
                continue
            return False, f"{_fmt((t,))} after the doubling can split or drop a doubled quote"
    return True, ""


def _fmt(transforms) -> str:
    return "[" + ", ".join(".".join(str(x) for x in t) for t in transforms) + "]"


def run(ctx: Ctx, env):
    H = heval.get(env)
    langs = sqlrules.TokenLanguages(env, full=(ctx.tier == "thorough"))
    visitors = H.sql_visitors()
    ctx.floor("SQL visitors", len(visitors), 3)
    for vcls in visitors:
        A = SqlAnalysis(env, vcls)
        vs = A.short
        n_string_flows = 0
        n_ident_flows = 0
        seen: Set[Tuple[str, str]] = set()
        for t in A.all_tmpls():
            if t.path.outcome != "return":
                continue
            if not t.is_string:
                if t.kind == "Call" or (t.kind is not None and A.is_op_token_kind(t.kind)):
                    continue
                # the quoting analysis needs the emitted text itself; text handed to another function after the escaping
                # (normalisation, re-encoding, formatting helpers outside the package) can turn harmless characters into quotes
                ctx.fail("R4.text-is-final", f"{vs}.{t.owner}|{t.label}", f"[{vs}] {t.owner} returns {t.text()[:100]}: the SQL text is passed through "
                         "something the analysis cannot see through after it was quoted/escaped", t.where,
                         "name eq 'x\uff07 OR 1=1 --' (a compatibility character that normalises to a quote)")
                continue
            txt = t.text()
            # the same text with other kinds of node behind its raw pieces is another template (a String there is what matters)
            sig = []
            for tok0 in t.st.toks:
                for piece0 in (tok0.value or []) if tok0.kind in ("string", "qident") else ([tok0.value] if tok0.kind == "raw" else []):
                    if not isinstance(piece0, str) and piece0 and piece0[0] == "dyn":
                        o0 = raw_origin(piece0[1])
                        sig.append(tuple(sorted(o0.kinds)) if o0 else ())
            if (t.owner, txt, tuple(sig)) in seen:
                continue
            seen.add((t.owner, txt, tuple(sig)))
            handler_q = t.path.entry.get("handler", f"{A.vcls}.{t.owner}")
            owner_short = ".".join(handler_q.rsplit(".", 2)[-2:])
            for tok in t.st.toks:
                if tok.kind == "raw":
                    _raw_outside(ctx, env, langs, vs, owner_short, t, tok.value)
                elif tok.kind in ("string", "qident"):
                    q = "'" if tok.kind == "string" else '"'
                    for piece in tok.value or []:
                        if isinstance(piece, str):
                            continue
                        s, i = _raw_inside(ctx, env, langs, vs, owner_short, t, piece, q)
                        n_string_flows += s
                        n_ident_flows += i
                elif tok.kind == "cfg":
                    ctx.fail("R5.alias-quoted", f"{owner_short}|{tok.text}", f"[{vs}] configuration value self.{tok.text} is emitted outside a quoted identifier",
                             t.where)
                elif tok.kind == "bad":
                    ctx.fail("R4.quote-regions-closed", f"{owner_short}|{t.label}", f"[{vs}] template `{txt[:80]}` leaves a quoted region open: {tok.text}", t.where)
        ctx.floor(f"{vs}: quoted string-literal flows", n_string_flows, 2)
        ctx.floor(f"{vs}: quoted identifier flows", n_ident_flows, 1)
        ctx.analysed[f"{vs}.templates"] = len(seen)
    ctx.trust("SQL lexical facts: '' is the only escape inside '...'; \"...\" delimits identifiers; -- and /* open comments")
    ctx.assume("templates compose only through holes of visited children (checked: R4 rejects anything else inside quotes)")


def _kinds_with_quote(langs, kinds: Set[str], q: str, attr: str = "") -> Dict[str, str]:
    out = {}
    for k in kinds:
        r = langs.chars_possible({k}, q, attr)[q]
        if r:
            out[k] = r
    return out


def _mentions_visit_value(v) -> bool:
    if isinstance(v, Sym):
        if v.op == "visit":
            return True
        return any(_mentions_visit_value(a) for a in v.args if isinstance(a, (Sym, Str, tuple, list)))
    if isinstance(v, Str):
        return any(pp[0] in ("dyn", "join") and _mentions_visit_value(pp[1] if pp[0] == "dyn" else pp[2]) for pp in v.parts)
    if isinstance(v, (tuple, list)):
        return any(_mentions_visit_value(a) for a in v)
    return False


def _raw_inside(ctx, env, langs, vs, owner_short, t: Tmpl, piece, q: str) -> Tuple[int, int]:
    label = "string literal" if q == "'" else "quoted identifier"
    if piece[0] == "join" and not (isinstance(piece[2], Sym) and piece[2].op == "visit") and not _mentions_visit_value(piece[2]):
        # pieces of raw text glued together inside the quotes: every constant part must keep the quotes paired, every raw part is judged
        # like any other raw text
        sep, elem = piece[1], piece[2]
        consts = [sep.v] if isinstance(sep, Const) and isinstance(sep.v, str) else None
        parts = list(elem.parts) if isinstance(elem, Str) else [("dyn", elem, ())]
        if consts is None:
            ctx.fail("R4.traceable-origin", f"{owner_short}|join-separator", f"[{vs}] text glued with a separator of unknown origin inside a {label}", t.where)
            return 0, 0
        tot_s = tot_i = 0
        for pp in parts:
            if pp[0] == "lit":
                consts.append(pp[1])
            elif pp[0] == "dyn":
                s1, i1 = _raw_inside(ctx, env, langs, vs, owner_short, t, pp, q)
                tot_s, tot_i = tot_s + s1, tot_i + i1
            else:
                return _raw_inside(ctx, env, langs, vs, owner_short, t, ("join", None, Sym("visit", None, None), None), q)
        bad = [c for c in consts if q in c.replace(q + q, "")]
        ctx.check(not bad, "R1.string-quote-doubled" if q == "'" else "R2.identifier-quote-free", f"{owner_short}|{t.label}|glue",
                  f"[{vs}] the constant text {bad} glued between pieces inside a {label} contains an unpaired {q}", t.where)
        return tot_s, tot_i
    if piece[0] == "join" or (isinstance(piece[1], Sym) and piece[1].op == "visit"):
        ctx.fail("R4.no-sql-inside-quotes", f"{owner_short}|{t.label}", f"[{vs}] the SQL text of a visited child is spliced inside a {label}: `{t.text()[:80]}`",
                 t.where)
        return 0, 0
    val, transforms = piece[1], tuple(piece[2])
    if isinstance(val, Sym) and val.op == "cfg":
        ctx.check(q == '"', "R5.alias-quoted", f"{owner_short}|{val.args[1]}", f"[{vs}] configuration value inside a string literal", t.where)
        return 0, 0
    o = raw_origin(val)
    if o is None:
        ctx.fail("R4.traceable-origin", f"{owner_short}|{repr(val)[:50]}", f"[{vs}] text of untraceable origin {val!r} inside a {label}", t.where)
        return 0, 0
    chain = tuple(o.extra_transforms) + transforms
    s_flow = 1 if "String" in o.kinds and q == "'" else 0
    i_flow = 1 if (o.kinds & {"Identifier", "Attribute"}) and q == '"' else 0
    key = f"{owner_short}|{'/'.join(sorted(o.kinds))}.{o.attr}"
    risky = _kinds_with_quote(langs, o.kinds, q, o.attr)
    if o.sanitised_to:
        import re as _re
        if not _re.search(o.sanitised_to, q):
            ctx.ok("R2.identifier-quote-free" if q == '"' else "R1.string-quote-doubled", key, f"sanitised into {o.sanitised_to}")
            return s_flow, i_flow
    if not risky:
        ctx.ok("R3.alphabet-quote-free", key, f"token alphabet of {sorted(o.kinds)} has no {q}")
        return s_flow, i_flow
    ok, why = quote_chain_ok(chain, q)
    rule = "R1.string-quote-doubled" if q == "'" else "R2.identifier-quote-free"
    wit = None
    if "String" in risky:
        fn = t.funcs[0] if t.funcs else None
        wit = f"{fn}(name, 'a''b')" if fn else "name eq 'a''b'"
        if fn and fn not in ("contains", "startswith", "endswith"):
            wit = witness.call_example(fn, {0: "'a''b'"}) + " eq 1"
    ctx.check(ok, rule, key, f"[{vs}] {sorted(risky)} value ({o.attr}) can contain {q} (token rule {sorted(set(risky.values()))}) and is placed inside a "
              f"{label} of `{t.text()[:70]}` but {why}", t.where, wit)
    return s_flow, i_flow


def _raw_outside(ctx, env, langs, vs, owner_short, t: Tmpl, piece):
    val, transforms = piece[1], tuple(piece[2])
    o = raw_origin(val)
    if o is None:
        ctx.fail("R4.traceable-origin", f"{owner_short}|{repr(val)[:50]}", f"[{vs}] text of untraceable origin {val!r} emitted as SQL", t.where)
        return
    key = f"{owner_short}|{'/'.join(sorted(o.kinds))}.{o.attr}|unquoted"
    if "String" in o.kinds:
        ctx.fail("R1.string-inside-literal", key, f"[{vs}] a string value is emitted outside any string literal in `{t.text()[:70]}`", t.where,
                 "name eq 'x'' OR 1=1 --'")
        return
    if o.kinds & {"Identifier", "Attribute"} and o.attr in ("name", "attr", "full_name()"):
        ctx.fail("R2.identifier-inside-quotes", key, f"[{vs}] a field name is emitted outside a quoted identifier in `{t.text()[:70]}`", t.where)
        return
    bad = {}
    for k in o.kinds:
        poss = langs.chars_possible({k}, DANGEROUS_OUTSIDE, o.attr)
        hits = {c: r for c, r in poss.items() if r and not (c == "-" and k in ("Integer", "Float", "Duration", "Date", "DateTime", "GUID"))
                and not (c in "/*" and not (poss.get("/") and poss.get("*")))}
        if hits:
            bad[k] = hits
    ctx.check(not bad, "R3.unquoted-alphabet-safe", key, f"[{vs}] {sorted(o.kinds)}.{o.attr} is emitted unquoted but its token alphabet contains {bad}", t.where)
