"""C13 - AST -> OData text -> AST is the identity."""
from __future__ import annotations

import re
from typing import Any, Dict, List, Optional, Set, Tuple

from .. import heval, opmap, rx, sqlrules, sqltok, witness
from ..report import AnalysisError, Ctx
from ..sqlrules import SqlAnalysis, Tmpl, hole_node, raw_origin
from ..values import Const, NewNode, NodeV, PyList, Str, Sym
from . import oracles as O

EXPLANATION = (
    "Printer/parser agreement decided on the printer's templates and the parser's own tables. Every handler of "
    "AstToODataVisitor is evaluated by the abstract interpreter per node kind and operator kind (the parenthesisation "
    "helper is inlined and evaluated over concrete operator classes with the PRECEDENCE table folded from source). R1: "
    "for every (parent operator, slot, child operator) triple the printer must parenthesise whenever the LALR "
    "automaton's decision relation (the same 210 decisions C05 checks) would otherwise regroup - child completed "
    "with the parent operator as look-ahead must reduce (left slot), parent completed with the child operator as "
    "look-ahead must shift (right slot / prefix operand). R2: each literal template is the inverse of its lexer action "
    "(quotes re-doubled and re-wrapped for strings, prefixes restored, raw kinds emitted raw; the fixed prefix/suffix "
    "is checked against the token's language). R3: list syntax: singleton lists need the trailing comma the grammar "
    "demands. R4: the printer handles every kind it can reach. R5: separators the printer emits lex as the operator / "
    "delimiter tokens of the grammar. Structural induction over tree depth lifts the triples to all ASTs."
)
RULE_TEXT = "one obligation per (parent operator, slot, child operator) triple, per literal kind, per separator"

PRINTER = "odata_query.roundtrip.AstToODataVisitor"


def _wrapped(st: sqltok.Structure, hole: sqltok.Tok) -> bool:
    i = hole.pos
    return i > 0 and i + 1 < len(st.toks) and st.toks[i - 1].kind == "lp" and st.toks[i + 1].kind == "rp"


def _child_op(n: NodeV, kf) -> List[Tuple[str, Optional[str]]]:
    out = []
    for k in sorted(n.kinds):
        df = kf.kinds.discr_field(k)
        if df and k in ("BinOp", "Compare", "BoolOp", "UnaryOp"):
            fv = n.fields.get(df)
            allowed = set(fv.kinds) if isinstance(fv, NodeV) else None
            ds = sorted(d for (kk, d) in kf.kinds.table if kk == k and d is not None)
            for d in ds:
                if allowed is None or d in allowed:
                    out.append((k, d))
        else:
            out.append((k, None))
    return out


def run(ctx: Ctx, env):
    repo = env.repo
    if PRINTER not in repo.classes:
        raise AnalysisError("odata_query.roundtrip.AstToODataVisitor not found")
    H = heval.get(env)
    H.__dict__.setdefault("text_visitors", set()).add(PRINTER)  # justified by R4.printer-returns-text below
    kf = env.kindflow
    om = opmap.get(env)
    g = env.grammar
    A = SqlAnalysis(env, PRINTER)  # template extraction is generic: literal text + holes
    rm = repo.modules["odata_query.roundtrip"]

    # ---- R4 exhaustiveness ------------------------------------------------------------------------------------
    from .c12 import visit_targets
    seen: Dict[str, Tuple[str, str]] = {}
    todo = [(k, "<root>", "root") for k in sorted(kf.expr_kinds)]
    cases = H.kind_cases()
    while todo:
        kind, via, slot = todo.pop()
        if kind in seen or kind == "NoneType":
            continue
        seen[kind] = (via, slot)
        paths = []
        for (k, dd) in cases:
            if k == kind:
                paths.extend(H.eval_visit(PRINTER, k, dd) or [])
        for node, handler in visit_targets(paths):
            for k2 in node.kinds:
                if k2 not in seen:
                    todo.append((k2, handler.rsplit(".", 1)[-1], node.path))
    for kind, (via, slot) in sorted(seen.items()):
        if kind not in env.schema.classes:
            continue
        has = H.resolve_visit(PRINTER, kind) is not None or H.generic_refuses(PRINTER)
        w = {"Geography": "geo.intersects(a, geography'POINT(1 2)')", "NamedParam": "ns.f(x=1) eq 1"}.get(kind)
        ctx.check(has, "R4.printer-handles-kind", kind, f"the printer reaches {kind} (from {via} at {slot}) but has no visit_{kind}: None is "
                  "concatenated into the text (TypeError) or printed", rm.rel, w)
    # every handler the printer can reach returns text on every path: a None, a number or an exception there is not a
    # rendering (and the children of a handler may then be taken to be text when the handler combines them)
    n_text = 0
    for (pk, pd), tmpls in sorted(A.node_tmpls.items(), key=lambda kv: (kv[0][0], kv[0][1] or "")):
        if pk not in seen or tmpls is None:
            continue
        for t in tmpls:
            n_text += 1
            ok = t.path.outcome == "return" and t.is_string
            what = f"raises {getattr(t.path.value, 'cls', t.path.value)!s}" if t.path.outcome == "raise" else f"returns {t.path.value!r}"
            ctx.check(ok, "R4.printer-returns-text", f"{pk}[{pd}]" if pd else pk,
                      f"visit_{pk} {what} instead of text on a path the parser's trees take", t.where)
    ctx.floor("printer handler paths returning text", n_text, 40)
    # every child the parser gives a node is printed, once: a child left out (or printed twice, or a None child visited) is text
    # that parses to another tree. Holes that go deeper than the field itself (a handler printing its grandchildren) only count
    # as "mentioned"; the field that selects the operator is the business of R1/R5.
    n_child = 0
    for (pk, pd), tmpls in sorted(A.node_tmpls.items(), key=lambda kv: (kv[0][0], kv[0][1] or "")):
        row = kf.kinds.table.get((pk, None))
        if pk not in seen or tmpls is None or row is None:
            continue
        dfield = kf.kinds.discr_field(pk)
        for t in tmpls:
            if t.path.outcome != "return" or not t.is_string or t.st is None:
                continue
            paths = [getattr(hole_node(h), "path", None) or "" for h in t.st.holes]
            joins = [getattr(hole_node(h), "path", None) or "" for h in t.st.holes if h.kind == "join"]
            conds = dict(t.path.conds)
            for fname, fd in row.items():
                if fd.shape not in ("node", "list") or fname == dfield:
                    continue
                base = f"node.{fname}"
                exact = [x for x in paths if x == base]
                deeper = [x for x in paths if x.startswith(base + ".") or x.startswith(base + "[")]
                is_none = conds.get(f"{base} is None") is True
                key = f"{pk}[{pd}].{fname}" if pd else f"{pk}.{fname}"
                n_child += 1
                if fd.shape == "node":
                    if is_none:
                        ok, why = not exact and not deeper, f"visits {base} although it is None on this path"
                    else:
                        ok, why = len(exact) == 1 or (not exact and bool(deeper)), (f"prints {base} {len(exact)} times" if exact else f"never prints {base}")
                else:
                    n_fixed = next((int(m.group(1)) for k, v in conds.items() if v is True
                                    for m in [re.match(r"len\(" + re.escape(base) + r"\)==(\d+)$", k)] if m), None)
                    star = [x for x in joins if x == base + "[*]"]
                    known_empty = any(base in k and ((k.startswith("empty(") and v is True) or (k.startswith(("truth(", "nonempty(")) and v is False))
                                      for k, v in conds.items())
                    if known_empty and n_fixed is None:
                        ok, why = not star and not deeper, f"prints elements of {base} although it is empty on this path"
                    elif n_fixed is not None and not star:
                        want = sorted(f"{base}[{i}]" for i in range(n_fixed))
                        ok, why = sorted(deeper) == want, f"prints {sorted(deeper)} of a list of {n_fixed}"
                    else:
                        ok, why = len(star) == 1 or (not star and bool(deeper)), (f"joins {base} {len(star)} times" if star else f"never prints the elements of {base}")
                ctx.check(ok, "R7.every-child-printed-once", key, f"visit_{pk} {why} (template `{t.text()}`" +
                          (f" under {t.path.cond_str()[:120]}" if t.path.conds else "") + "): the text parses to a different tree", t.where)
    ctx.floor("children checked for being printed once", n_child, 30)
    from .common import check_fields_hold_declared_shapes
    check_fields_hold_declared_shapes(ctx, env, "R4.fields-hold-what-they-declare", "the printer has nothing to print for it (None is skipped by the "
                                      "reachability walk above), so the text parses to a different tree or not at all")
    ctx.floor("kinds reachable by the printer", len(seen), 35)

    from .common import check_shared_caches
    check_shared_caches(ctx, [t.path for t in A.all_tmpls()], "R6.no-state-shared-between-printers", "a later rendering reuses text computed for another tree")
    # ---- R1 parenthesisation triples ------------------------------------------------------------------------------
    n_triples = 0
    results: Dict[str, Optional[str]] = {}
    wit: Dict[str, str] = {}
    for (pk, pd) in cases:
        if pk not in ("BinOp", "Compare", "BoolOp", "UnaryOp") or pd is None:
            continue
        tmpls = A.node_tmpls.get((pk, pd)) or []
        pfix = O.ODATA_OPERATORS.get(pd, (0, "binary"))[1]
        for t in tmpls:
            if t.path.outcome != "return" or not t.is_string:
                ctx.fail("R1.printer-template", f"{pk}[{pd}]", f"the printer does not return text for {pk}[{pd}]: {t.path.outcome} {t.path.value!r}", t.where)
                continue
            holes = [h for h in t.st.holes if hole_node(h) is not None]
            for h in holes:
                node = hole_node(h)
                via = node.via
                df = kf.kinds.discr_field(pk)
                if via == df:
                    continue
                wrapped = _wrapped(t.st, h)
                for (ck, cd) in _child_op(node, kf):
                    if ck not in ("BinOp", "Compare", "BoolOp", "UnaryOp") or cd is None:
                        continue
                    cfix = O.ODATA_OPERATORS[cd][1]
                    if pfix == "prefix":
                        need = cfix == "binary" and om.decision.get((pd, cd)) != "shift"
                        side = "operand"
                    elif via == "left" or (via != "right" and node.path.endswith("left")):
                        side = "left"
                        # a child whose production does not end in an expression (in-list) is complete: no conflict
                        need = (cd, pd) in om.decision and om.decision[(cd, pd)] != "reduce"
                        if (cd, pd) not in om.decision and cd != "In":
                            need = True
                    else:
                        side = "right"
                        need = cfix == "binary" and om.decision.get((pd, cd)) != "shift"
                    if pd == "In" and side == "right":
                        continue
                    key = f"{pd}|{side}|{cd}"
                    n_triples += 1
                    if need and not wrapped:
                        results[key] = (f"printing {pk}[{pd}] with a {ck}[{cd}] {side} operand gives `{t.text()}` without parentheses, but the "
                                        f"parser's table regroups it ({'after the child with look-ahead ' + pd if side == 'left' else 'after ' + pd + ' .. with look-ahead ' + cd})")
                        wit[key] = witness.embed(pk, pd, "left" if side == "left" else "right", witness.example(ck, cd), ck,
                                                 child_is_boolean=ck in ("Compare", "BoolOp") or cd == "Not")
                    else:
                        results.setdefault(key, None)
    for key, bad in sorted(results.items()):
        ctx.check(bad is None, "R1.parenthesised-where-parser-regroups", key, bad or "", f"{rm.rel}", wit.get(key))
    ctx.floor("parenthesisation triples", len(results), 400)

    # ---- R2 literals: printer is the inverse of the lexer action -----------------------------------------------------------
    langs = sqlrules.TokenLanguages(env, full=(ctx.tier == "thorough"))
    n_lit = 0
    for kind in sorted(seen):
        if not env.schema.is_sub(kind, "_Literal") or kind == "List":
            continue
        rules = langs.rule_of_kind.get(kind, [])
        tmpls = A.node_tmpls.get((kind, None))
        if not tmpls:
            continue
        for rn in rules:
            n_lit += 1
            lex_tr, const_value = _lexer_transforms(kf, rn)
            for t in tmpls:
                key = f"{kind}|{rn}"
                if t.path.outcome != "return" or not t.is_string:
                    ctx.fail("R2.literal-inverse", key, f"printer does not return text for {kind}", t.where)
                    continue
                items = t.items
                raws = [i for i in items if not isinstance(i, str)]
                if const_value:
                    # the node carries no text (e.g. Null): the printer must emit a spelling of this token
                    txt = "".join(i for i in items if isinstance(i, str))
                    ok = not raws and rx.accepts_text(langs.rules[rn].dfa, langs.alpha, txt) is True
                    ctx.check(ok, "R2.literal-inverse", key, f"printer emits `{t.text()}` which is not a spelling of {rn}", t.where)
                    continue
                if len(raws) != 1 or raws[0][0] != "dyn":
                    ctx.fail("R2.literal-inverse", key, f"printer template `{t.text()}` does not emit the literal's text exactly once", t.where)
                    continue
                o = raw_origin(raws[0][1])
                if o is None or o.attr != "val":
                    ctx.fail("R2.literal-inverse", key, f"printer template `{t.text()}` does not print node.val", t.where)
                    continue
                idx = items.index(raws[0])
                prefix = "".join(items[:idx])
                suffix = "".join(items[idx + 1:])
                ptr = tuple(o.extra_transforms) + tuple(raws[0][2])
                # expected: inverse of the lexer's transforms, in reverse order
                want_replaces = []
                pre_n = suf_n = 0
                for tr in lex_tr:
                    if tr[0] == "slice":
                        lo, hi = tr[1], tr[2]
                        pre_n += lo if isinstance(lo, int) and lo else 0
                        suf_n += -hi if isinstance(hi, int) and hi and hi < 0 else 0
                    elif tr[0] == "replace":
                        want_replaces.append(("replace", tr[2], tr[1]))
                want_replaces.reverse()
                got_replaces = [x for x in ptr if x and x[0] == "replace"]
                wit_s = "name eq 'it''s'" if kind == "String" else None
                ok_tr = got_replaces == want_replaces
                ctx.check(ok_tr, "R2.literal-inverse", key,
                          f"lexer action of {rn} applies {list(lex_tr)}; the printer must undo it with {want_replaces} before wrapping, "
                          f"but applies {got_replaces} (template `{t.text()}`)", t.where, wit_s)
                ok_len = len(prefix) == pre_n and len(suffix) == suf_n
                ok_lang = True
                if ok_len and (prefix or suffix):
                    pat = re.escape(prefix) + r"[\s\S]*" + re.escape(suffix)
                    w = langs.included(kind, pat)
                    ok_lang = w is None
                ctx.check(ok_len and ok_lang, "R2.literal-wrapping", key,
                          f"lexer action of {rn} strips {pre_n} leading / {suf_n} trailing characters; the printer wraps the value in "
                          f"{prefix!r} .. {suffix!r}, which is not what every {rn} spelling starts/ends with", t.where)
    ctx.floor("literal kinds", n_lit, 9)

    # identifiers: namespace segments and name joined with dots
    for t in A.node_tmpls.get(("Identifier", None)) or []:
        if t.path.outcome != "return":
            continue
        txt = t.text()
        has_ns = any(k.startswith("truth(field(node,'namespace'") and v is True for k, v in t.path.conds)
        if has_ns:
            ok = "namespace" in txt and txt.rstrip().endswith("{RAW field(node,'name')}") and ".{RAW field(node,'name')}" in txt.replace("'.'", ".")
            ctx.check(ok, "R2.identifier-inverse", "Identifier|namespaced", f"namespaced identifier printed as `{txt}`: must be the namespace segments and the name joined by dots",
                      t.where, "geo.length(x) eq 1")
        else:
            ctx.check(txt == "{RAW field(node,'name')}", "R2.identifier-inverse", "Identifier|plain", f"identifier printed as `{txt}`", t.where)

    # ---- R3 singleton lists -------------------------------------------------------------------------------------------
    singleton_comma = False
    for p in g.productions:
        for x in kf.prod_paths.get(p.index, []):
            if x.outcome == "return" and isinstance(x.value, NewNode) and x.value.cls == "List":
                v = x.value.fields.get("val")
                if isinstance(v, PyList) and len(v.items) == 1 and not v.loop_parts and "," in p.syms:
                    singleton_comma = True
    lt = [t for t in (A.node_tmpls.get(("List", None)) or []) if t.path.outcome == "return" and t.is_string]
    if singleton_comma:
        ok = any(re.search(r",\s*\)$", t.text().strip()) for t in lt)
        ctx.check(ok, "R3.singleton-list-syntax", "List", "the grammar writes a one-element list as `(x,)` - `(x)` is a parenthesised expression - "
                  f"but the printer only produces {sorted({t.text() for t in lt})}: a singleton list re-parses as its element",
                  lt[0].where if lt else rm.rel, "a in ('x',)")
    for t in lt:
        ctx.check(t.text().startswith("(") and t.text().endswith(")"), "R3.list-delimiters", "List", f"list printed as `{t.text()}`", t.where)

    # ---- R5 separators lex as the grammar's tokens --------------------------------------------------------------------------
    alpha = langs.alpha
    n_sep = 0
    for (pk, pd) in cases:
        if pk not in ("BinOp", "Compare", "BoolOp", "UnaryOp") or pd is None:
            continue
        tok = om.token_of.get(pd)
        if tok is None:
            continue
        rule = langs.rules[tok]
        for t in A.node_tmpls.get((pk, pd)) or []:
            if t.path.outcome != "return" or not t.is_string:
                continue
            # literal text between/before the operand holes, parentheses removed
            chunks, cur = [], []
            for it in t.items:
                if isinstance(it, str):
                    cur.append(it)
                else:
                    chunks.append("".join(cur))
                    cur = []
            chunks.append("".join(cur))
            seps = [c.replace("(", "").replace(")", "") for c in chunks]
            fix = O.ODATA_OPERATORS[pd][1]
            sep = seps[0] if fix == "prefix" else (seps[1] if len(seps) > 2 else "")
            n_sep += 1
            if pd == "USub":
                ok = sep.strip() == "-" and sep.startswith("-")
            else:
                ok = rx.accepts_text(rule.dfa, alpha, sep) is True
            if ok and fix == "prefix":
                # token fusion: operator text followed by the first character of an operand must still lex as the operator
                for first in ("1", "a", "'", "("):
                    fused = _first_token(langs, g, sep + first)
                    if fused is not None and (fused[0] != tok or fused[1] > len(sep)):
                        ok = False
                        ctx.fail("R5.prefix-operator-fuses", f"{pd}|{first}", f"the printer writes {sep!r} directly before the operand; followed by "
                                 f"{first!r} the lexer reads `{(sep + first)[:fused[1]]}` as {fused[0]} instead of {tok} + operand", t.where,
                                 "- 1 eq x  (unary minus applied to a literal)" if pd == "USub" else "not a")
                        break
                if not ok:
                    continue
            ctx.check(ok, "R5.operator-separator", f"{pd}", f"the printer writes {sep!r} for {pd}; the lexer's {tok} rule does not accept that spelling "
                      f"(template `{t.text()}`)", t.where, witness.example(pk, pd))
    ctx.floor("operator separators", n_sep, 30)
    for kind, expect in (("Lambda", ":"), ("CollectionLambda", "/")):
        for t in A.node_tmpls.get((kind, None)) or []:
            if t.path.outcome == "return" and t.is_string:
                lit = "".join(i for i in t.items if isinstance(i, str))
                ctx.check(expect in lit, "R5.delimiters", kind, f"{kind} printed as `{t.text()}`: the `{expect}` delimiter is missing", t.where,
                          "items/any(i: i/v eq 1)")
    for t in A.node_tmpls.get(("Call", None)) or []:
        if t.path.outcome == "return" and t.is_string:
            txt = t.text()
            no_args = any(k.startswith("empty(") and "args" in k and v is True for k, v in t.path.conds)
            ctx.check(("(" in txt and txt.endswith(")") and "joined by ', '" in txt or "joined by ','" in txt) or (no_args and txt.endswith("()")),
                      "R5.delimiters", "Call",
                      f"call printed as `{txt}`", t.where)
    # the fixed text around the children is the concrete syntax of the construct (OData ABNF: navigation `/`, call and lambda
    # parentheses, `:` after the lambda variable, `=` in a named parameter); blanks are not compared
    SKELETONS = {
        "Attribute": {"H/R", "H/H"},
        "Call": {"H(J,)", "H()"},
        "CollectionLambda": {"H/H(H)", "H/H()"},
        "Lambda": {"H:H"},
        "NamedParam": {"H=H"},
    }
    n_sk = 0
    for kind, expect in SKELETONS.items():
        for t in A.node_tmpls.get((kind, None)) or []:
            if t.path.outcome != "return" or not t.is_string:
                continue
            sk = []
            for it in t.items:
                if isinstance(it, str):
                    sk.append(it)
                elif it[0] == "join":
                    sepv = it[1]
                    sep = sepv.v if isinstance(sepv, Const) else None
                    sk.append("\x00J" + (sep.strip() if isinstance(sep, str) else "?") + "\x00")
                else:
                    v = it[1]
                    sk.append("\x00H\x00" if isinstance(v, Sym) and v.op in ("visit", "dispatch", "stubcall") else "\x00R\x00")
            txt = re.sub(r"\s+", "", "".join(sk))
            txt = re.sub(r"[A-Za-z_]+", lambda m: m.group(0) if m.group(0) in ("H", "R") or m.group(0).startswith("J") else "\x00H\x00", txt.replace("\x00H\x00", "\x00H\x00"))
            # words written out by the printer (an operator name substituted for its hole) stand for a hole
            norm = re.sub(r"\x00(H|R|J[^\x00]*)\x00", lambda m: m.group(1), txt)
            n_sk += 1
            ctx.check(norm in expect, "R5.delimiters", f"{kind}|skeleton", f"{kind} printed as `{t.text()}`: the fixed text around the children must be "
                      f"{' or '.join(sorted(expect))} (H: a child, R: the node's own text, J,: children joined by commas), got {norm}", t.where)
    ctx.floor("structural templates compared with the concrete syntax", n_sk, 5)
    ctx.trust("the parser's decision relation is the LALR table of Core E (C05 checks it against the specification)")


def _first_token(langs, g, text: str):
    """(rule name, match length) of the first token the ordered rules produce at the start of `text`
    (first rule in order that matches a prefix; its longest match). None if nothing matches."""
    for r in g.rules:
        d = langs.rules[r.name].dfa
        s = d.start
        best = 0
        for i, ch in enumerate(text):
            c = langs.alpha.class_of.get(ch)
            if c is None:
                break
            s = d.trans[s][c]
            if s in d.accept:
                best = i + 1
        if best:
            return r.name, best
    return None


def _lexer_transforms(kf, rule_name: str) -> Tuple[Tuple, bool]:
    """Transforms the lexer action applies to the token text before storing it in node.val;
    second component: True when the node stores no text at all."""
    for p in kf.token_paths.get(rule_name, []):
        if p.outcome != "return":
            continue
        from ..values import TokV
        if isinstance(p.value, TokV):
            v = p.value.attrs.get("value")
            if isinstance(v, NewNode):
                val = v.fields.get("val")
                if val is None:
                    return (), True
                if isinstance(val, Str) and len(val.parts) == 1 and val.parts[0][0] == "dyn":
                    return tuple(val.parts[0][2]), False
                if isinstance(val, Sym) and val.op == "toktext":
                    return (), False
                return (("opaque", repr(val)),), False
    return (), False
