"""Oracles: specification facts carried as data (each cited), never derived from the repository."""
from __future__ import annotations

from typing import Dict, List, Optional, Tuple

# OData 4.01 Part 2 (URL conventions) section 5.1.1.14 "Operator Precedence", loosest (1) to tightest.
# value: (level, 'binary' | 'prefix'); binary operators are left-associative.
ODATA_OPERATORS: Dict[str, Tuple[int, str]] = {
    "Or": (1, "binary"),
    "And": (2, "binary"),
    "Eq": (3, "binary"), "NotEq": (3, "binary"),
    "Lt": (4, "binary"), "LtE": (4, "binary"), "Gt": (4, "binary"), "GtE": (4, "binary"),
    "Add": (5, "binary"), "Sub": (5, "binary"),
    "Mult": (6, "binary"), "Div": (6, "binary"), "Mod": (6, "binary"),
    "Not": (7, "prefix"), "USub": (7, "prefix"),
    "In": (8, "binary"),
}
# the AST class that carries each operator (ast.py naming: the operator token class -> its node class)
OPERATOR_NODE = {
    "Or": "BoolOp", "And": "BoolOp",
    "Eq": "Compare", "NotEq": "Compare", "Lt": "Compare", "LtE": "Compare", "Gt": "Compare", "GtE": "Compare",
    "In": "Compare",
    "Add": "BinOp", "Sub": "BinOp", "Mult": "BinOp", "Div": "BinOp", "Mod": "BinOp",
    "Not": "UnaryOp", "USub": "UnaryOp",
}
# OData ABNF keywords of the operators
OPERATOR_KEYWORD = {
    "Or": "or", "And": "and", "Eq": "eq", "NotEq": "ne", "Lt": "lt", "LtE": "le", "Gt": "gt", "GtE": "ge",
    "Add": "add", "Sub": "sub", "Mult": "mul", "Div": "div", "Mod": "mod", "Not": "not", "USub": "-", "In": "in",
}


def operator_regex(cls: str) -> str:
    """ABNF: binary operators are RWS kw RWS; `not` is kw RWS; unary minus is the bare sign."""
    kw = OPERATOR_KEYWORD[cls]
    if cls == "USub":
        return r"-"
    if cls == "Not":
        return kw + r"\s+"
    return r"\s+" + kw + r"\s+"


def _expr(cls: str, l: str, r: str) -> str:
    kw = OPERATOR_KEYWORD[cls]
    if cls == "USub":
        return f"-{r}"
    if cls == "Not":
        return f"not {r}"
    if cls == "In":
        return f"{l} in (1, 2)"
    return f"{l} {kw} {r}"


def witness_for_pair(prod_cls: str, la_cls: str) -> str:
    """A filter in which the automaton sees `prod_cls` complete with `la_cls` as look-ahead."""
    first = _expr(prod_cls, "a", "b")
    kw = OPERATOR_KEYWORD[la_cls]
    if la_cls == "In":
        return f"{first} in (1, 2)"
    return f"{first} {kw} c"


def tree_text(t) -> str:
    if t is None:
        return "?"
    if t[0] == "id":
        return str(t[1])
    if t[0] == "list":
        return "(l1, l2)"
    if t[0] == "op":
        _, op, kids = t
        if ODATA_OPERATORS[op][1] == "prefix":
            return f"[{OPERATOR_KEYWORD[op]} {tree_text(kids[0])}]"
        return f"[{tree_text(kids[0])} {OPERATOR_KEYWORD[op]} {tree_text(kids[1])}]"
    return repr(t)


# OData 4.01 built-in functions (Part 2 section 5.1.1.5 - 5.1.1.13): name -> (min, max)
ODATA_FUNCTION_ARITY: Dict[str, Tuple[int, int]] = {
    "concat": (2, 2), "contains": (2, 2), "endswith": (2, 2), "indexof": (2, 2), "length": (1, 1),
    "startswith": (2, 2), "substring": (2, 3), "matchesPattern": (2, 2), "tolower": (1, 1), "toupper": (1, 1),
    "trim": (1, 1),
    "year": (1, 1), "month": (1, 1), "day": (1, 1), "hour": (1, 1), "minute": (1, 1), "second": (1, 1),
    "fractionalseconds": (1, 1), "totalseconds": (1, 1), "date": (1, 1), "time": (1, 1),
    "totaloffsetminutes": (1, 1), "mindatetime": (0, 0), "maxdatetime": (0, 0), "now": (0, 0),
    "round": (1, 1), "floor": (1, 1), "ceiling": (1, 1),
    "geo.distance": (2, 2), "geo.length": (1, 1), "geo.intersects": (2, 2),
    "hassubset": (2, 2), "hassubsequence": (2, 2),
}
# built-ins of the specification the library may add without this being a violation
ODATA_FUNCTION_OPTIONAL: Dict[str, Tuple[int, int]] = {"cast": (1, 2), "isof": (1, 2), "case": (1, 99)}

# return types (ast class names); None = the specification type has no ast class / library leaves it unknown
ODATA_FUNCTION_RETURN: Dict[str, Optional[str]] = {
    "contains": "Boolean", "endswith": "Boolean", "startswith": "Boolean", "hassubset": "Boolean",
    "hassubsequence": "Boolean", "geo.intersects": "Boolean", "matchesPattern": "Boolean",
    "indexof": "Integer", "length": "Integer", "year": "Integer", "month": "Integer", "day": "Integer",
    "hour": "Integer", "minute": "Integer", "second": "Integer", "totaloffsetminutes": "Integer",
    "fractionalseconds": "Float", "totalseconds": "Float", "ceiling": "Float", "floor": "Float", "round": "Float",
    "geo.distance": "Float", "geo.length": "Float",
    "tolower": "String", "toupper": "String", "trim": "String",
    "date": "Date", "time": "Time",
    "maxdatetime": "DateTime", "mindatetime": "DateTime", "now": "DateTime",
    "concat": "ARG", "substring": "ARG",
}

# for argument-derived return types: which argument positions have the type of the result
ODATA_FUNCTION_RETURN_ARGS = {"concat": {0, 1}, "substring": {0}}

# parameter sorts: S string, N number, T temporal, D duration, B boolean, G geo, C collection, X any
ODATA_FUNCTION_PARAMS: Dict[str, List[str]] = {
    "concat": ["SC", "SC"], "contains": ["SC", "SC"], "endswith": ["SC", "SC"], "startswith": ["SC", "SC"],
    "indexof": ["SC", "SC"], "length": ["SC"], "substring": ["SC", "N", "N"], "matchesPattern": ["S", "S"],
    "tolower": ["S"], "toupper": ["S"], "trim": ["S"],
    "year": ["T"], "month": ["T"], "day": ["T"], "hour": ["T"], "minute": ["T"], "second": ["T"],
    "fractionalseconds": ["T"], "totalseconds": ["D"], "date": ["T"], "time": ["T"], "totaloffsetminutes": ["T"],
    "mindatetime": [], "maxdatetime": [], "now": [],
    "round": ["N"], "floor": ["N"], "ceiling": ["N"],
    "geo.distance": ["G", "G"], "geo.length": ["G"], "geo.intersects": ["G", "G"],
    "hassubset": ["C", "C"], "hassubsequence": ["C", "C"],
}
