"""Worklist loops.

The only `while` form the interpreter accepts is the explicit-stack traversal of a finite tree

    W = [<initial items>]
    while W:
        <target> = W.pop()            # exactly one item leaves the worklist per iteration
        ... the rest of the body: may append to W values derived from the popped item (its fields), append to
            other local lists, raise; it may not rebind or mutate anything else that outlives the iteration ...

It is summarised like a structural recursion: the body is evaluated once per *class* of item (node kinds / opaque /
constant tags; paths are forgotten so the set of classes is finite), closed under what the body pushes. Termination
is by descent (every pushed value is an attribute of the popped item, and trees built from frozen dataclasses are
finite). Lists appended to become abstract: their elements are the join of everything appended, and a lower bound of
their length follows from the greatest fixpoint of  lb(class) = min over returning paths (appends + sum lb(pushes)).
Anything else raises AnalysisError (exit 2): no verdict is ever built on an unrolled loop.
"""
from __future__ import annotations

import ast
from typing import Any, Dict, List, Optional, Tuple

from .icommon import PathAbort, _Raise, _describe
from .report import AnalysisError
from .values import Const, NodeV, PyList, PyTuple, RefV, Sym, V

INF = 10 ** 6
SIDE_EFFECT_EVENTS = ("store_attr", "mutate", "store_global", "store_foreign")


class WhileMixin:
    def exec_while(self, st: ast.While, env: Dict[str, V], module):
        where = module.loc(st)
        if self._drain_loop(st, env, module):
            return
        why = self._worklist_form(st, env)
        if isinstance(why, str):
            if self._descent_loop(st, env, module):
                return
            if self._scalar_loop(st, env, module):
                return
            raise AnalysisError(f"`while` loop outside the supported forms ({why})", where)
        wname, targets, rest = why
        W: PyList = env[wname]
        others = self._result_lists(rest, env, wname)
        tnames_ = [n.id for n in ast.walk(targets) if isinstance(n, ast.Name)]
        carried = sorted({n.id for n in ast.walk(ast.Module(body=list(rest), type_ignores=[])) if isinstance(n, ast.Name) and isinstance(n.ctx, ast.Store)
                          and n.id in env and n.id not in tnames_ and n.id != wname and n.id not in others})
        summary = self._worklist_summary(st, wname, targets, rest, env, module, W, others, carried)
        for name in carried:
            vals = summary["carried"].get(name, [])
            if vals:
                from .values import AltV
                env[name] = vals[0] if len(vals) == 1 else AltV(list(vals))
        # effects on the result lists
        over = Sym("while", where)
        total_lb = {name: 0 for name in others}
        for item in W.items:
            ck = _class_key(item)
            for name in others:
                total_lb[name] += min(INF, summary["lb"].get((ck, name), 0))
        for name in others:
            vals = summary["appended"].get(name, [])
            lst = env[name]
            if vals:
                lst.loop_parts.append((over, list(vals)))
            if total_lb[name]:
                lst._minextra = getattr(lst, "_minextra", 0) + min(total_lb[name], INF)  # type: ignore[attr-defined]
        W.items.clear()
        for ev in summary["events"]:
            self.events.append(ev)
        self.event("while", where=where, structural=True, classes=len(summary["classes"]), node_line=st.lineno)
        raises = summary["raises"]
        if raises:
            c = self.choose(1 + len(raises), f"while-raises@{where}")
            if c:
                exc, ewhere = raises[c - 1]
                self.cond(f"worklist item raises {_describe(exc)[:60]}", True)
                raise _Raise(exc, ewhere)

    # ------------------------------------------------------------------------------------------------------------
    def _drain_loop(self, st: ast.While, env, module) -> bool:
        """`while W: ... W.pop(0) ...` where the body takes exactly one item off W per iteration (in its first statement) and never
        touches W otherwise is `for item in W: ...` (W.pop() / W.pop(-1): in reverse), leaving W empty."""
        if not isinstance(st.test, ast.Name) or st.orelse or not st.body:
            return False
        w = st.test.id
        if w not in env:
            return False
        pops = []
        for i, b in enumerate(st.body):
            for n in ast.walk(b):
                if isinstance(n, ast.Name) and n.id == w:
                    pops.append((i, n))
        first = st.body[0]
        calls = [n for n in ast.walk(first) if isinstance(n, ast.Call) and isinstance(n.func, ast.Attribute) and n.func.attr == "pop"
                 and isinstance(n.func.value, ast.Name) and n.func.value.id == w and not n.keywords
                 and (not n.args or (len(n.args) == 1 and isinstance(n.args[0], ast.Constant) and n.args[0].value in (0, -1)))]
        if len(calls) != 1 or len(pops) != 1 or pops[0][0] != 0:
            return False
        call = calls[0]
        # the pop must run exactly once per iteration: not under a condition, a nested loop, a comprehension or a lambda
        for n in ast.walk(first):
            if isinstance(n, (ast.IfExp, ast.BoolOp, ast.ListComp, ast.SetComp, ast.DictComp, ast.GeneratorExp, ast.Lambda, ast.For, ast.While, ast.If,
                              ast.Try, ast.With)) and any(x is call for x in ast.walk(n)):
                return False
        if not isinstance(first, (ast.Assign, ast.AnnAssign, ast.AugAssign, ast.Expr)):
            return False
        for n in ast.walk(ast.Module(body=list(st.body), type_ignores=[])):
            if isinstance(n, (ast.Break, ast.Return, ast.Yield, ast.YieldFrom, ast.While)):
                return False
        val = env[w]
        if isinstance(val, PyList) and not val.loop_parts and getattr(val, "created_in", None) == self._frame_id() and isinstance(first, ast.Assign) \
                and first.value is call:
            return False  # the worklist form proper handles `x = W.pop()` over known items (and pushes)
        import copy
        forward = bool(call.args) and call.args[0].value == 0

        class _Repl(ast.NodeTransformer):
            def visit_Call(self, node):
                if node is call_copy:
                    return ast.copy_location(ast.Name(id="__drained__", ctx=ast.Load()), node)
                return self.generic_visit(node)

        body = copy.deepcopy(st.body)
        call_copy = [n for n in ast.walk(body[0]) if isinstance(n, ast.Call) and isinstance(n.func, ast.Attribute) and n.func.attr == "pop"
                     and isinstance(n.func.value, ast.Name) and n.func.value.id == w][0]
        body[0] = _Repl().visit(body[0])
        it: ast.expr = ast.Name(id=w, ctx=ast.Load())
        if not forward:
            it = ast.Call(func=ast.Name(id="reversed", ctx=ast.Load()), args=[it], keywords=[])
        loop = ast.For(target=ast.Name(id="__drained__", ctx=ast.Store()), iter=it, body=body, orelse=[], type_comment=None)
        ast.copy_location(loop, st)
        ast.fix_missing_locations(loop)
        self.exec_for(loop, env, module)
        env.pop("__drained__", None)
        if isinstance(val, PyList):
            val.items.clear()  # in place: aliases of the drained list see it empty as well
            val.loop_parts.clear()
        else:
            empty = PyList([])
            empty.created_in = self._frame_id()
            env[w] = empty
        return True

    def _descent_loop(self, st: ast.While, env, module) -> bool:
        """while <test on x>: ...; x = x.<attr>      (walk down one spine of a tree)
        is the worklist loop   W = [x]; while W: x = W.pop(); if <test>: ...; W.append(x.<attr>) else: F.append(x)
        followed by x = <the element of F>; it is rewritten to that form and summarised by the same machinery."""
        if st.orelse or not st.body:
            return False
        last = st.body[-1]
        pre: List[ast.stmt] = []
        if isinstance(last, ast.Assign) and len(last.targets) == 1 and isinstance(last.targets[0], ast.Tuple) and isinstance(last.value, ast.Tuple) \
                and len(last.targets[0].elts) == len(last.value.elts) and all(isinstance(t, ast.Name) for t in last.targets[0].elts):
            # a, x = f(a, x), x.attr : the right-hand sides see the old values; split it into temporaries, the descent last
            tested0 = {n.id for n in ast.walk(st.test) if isinstance(n, ast.Name)}
            cand = None
            for t, v in zip(last.targets[0].elts, last.value.elts):
                b0 = v
                d0 = 0
                while isinstance(b0, ast.Attribute):
                    b0 = b0.value
                    d0 += 1
                if isinstance(b0, ast.Name) and b0.id == t.id and d0 >= 1 and t.id in tested0:
                    cand = t.id
            if cand is None:
                return False
            temps = []
            for i, (t, v) in enumerate(zip(last.targets[0].elts, last.value.elts)):
                tn = f"__tmp_{st.lineno}_{i}"
                pre.append(ast.Assign(targets=[ast.Name(id=tn, ctx=ast.Store())], value=v))
                temps.append((t.id, tn, v))
            for tid, tn, v in temps:
                if tid != cand:
                    pre.append(ast.Assign(targets=[ast.Name(id=tid, ctx=ast.Store())], value=ast.Name(id=tn, ctx=ast.Load())))
            dv = next(v for tid, tn, v in temps if tid == cand)
            last = ast.Assign(targets=[ast.Name(id=cand, ctx=ast.Store())], value=dv)
            for n in pre + [last]:
                ast.copy_location(n, st.body[-1])
                ast.fix_missing_locations(n)
        if not (isinstance(last, ast.Assign) and len(last.targets) == 1 and isinstance(last.targets[0], ast.Name)):
            return False
        var = last.targets[0].id
        rhs = last.value
        base = rhs
        depth = 0
        while isinstance(base, ast.Attribute):
            base = base.value
            depth += 1
        if not (isinstance(base, ast.Name) and base.id == var and depth >= 1) or var not in env:
            return False
        tested = {n.id for n in ast.walk(st.test) if isinstance(n, ast.Name) and n.id in env}
        if var not in tested:
            return False
        for b in st.body[:-1]:
            for n in ast.walk(b):
                if isinstance(n, ast.Name) and isinstance(n.ctx, (ast.Store, ast.Del)) and n.id == var:
                    return False
                if isinstance(n, (ast.While, ast.Break, ast.Continue, ast.Return)):
                    return False
        wn, fn_ = f"__descent_{st.lineno}", f"__descent_exit_{st.lineno}"
        src = (f"{wn} = [{var}]\n{fn_} = []\nwhile {wn}:\n    {var} = {wn}.pop()\n    if __TEST__:\n        pass\n    else:\n        {fn_}.append({var})\n")
        tree = ast.parse(src)
        loop = tree.body[2]
        branch = loop.body[1]
        branch.test = st.test
        push = ast.Expr(value=ast.Call(func=ast.Attribute(value=ast.Name(id=wn, ctx=ast.Load()), attr="append", ctx=ast.Load()), args=[rhs], keywords=[]))
        if pre:
            # the descent value was computed into a temporary before the other names were rebound
            tmpname = next(a.targets[0].id for a in pre if isinstance(a.value, ast.AST) and a.value is rhs)
            push = ast.Expr(value=ast.Call(func=ast.Attribute(value=ast.Name(id=wn, ctx=ast.Load()), attr="append", ctx=ast.Load()),
                                           args=[ast.Name(id=tmpname, ctx=ast.Load())], keywords=[]))
        branch.body = list(st.body[:-1]) + pre + [push]
        for n in ast.walk(tree):
            if not hasattr(n, "lineno") or getattr(n, "lineno", None) is None:
                pass
        for top in tree.body:
            ast.copy_location(top, st)
        for n in ast.walk(tree):
            if isinstance(n, (ast.stmt, ast.expr)) and not hasattr(n, "end_lineno"):
                ast.copy_location(n, st)
        ast.fix_missing_locations(tree)
        loop.lineno = st.lineno
        saved = env[var]
        self.exec_block(tree.body, env, module)
        fl = env.pop(fn_, None)
        env.pop(wn, None)
        vals: List[V] = []
        if isinstance(fl, PyList):
            vals = list(fl.items) + [x for _, per in fl.loop_parts for x in per]
        if not vals:
            raise PathAbort()  # the loop never leaves through its condition on this path
        from .values import AltV
        env[var] = vals[0] if len(vals) == 1 else AltV(vals)
        return True

    # ------------------------------------------------------------------------------------------------------------
    def _scalar_loop(self, st: ast.While, env, module) -> bool:
        """while <test>: <local scalar> = <pure expression> ...  (e.g. repeat a string replacement until nothing changes).
        Nothing but local names is rebound and nothing is appended or mutated, so the loop can only change those names: after
        it they hold *some iterate* of the body - an opaque value that remembers what one iteration does. Whether the loop
        terminates is not decided here (event `while`, structural=False)."""
        if st.orelse:
            return False
        names: List[str] = []
        for b in st.body:
            if isinstance(b, ast.Pass):
                continue
            if isinstance(b, ast.Assign) and len(b.targets) == 1 and isinstance(b.targets[0], ast.Name):
                names.append(b.targets[0].id)
            elif isinstance(b, ast.AugAssign) and isinstance(b.target, ast.Name):
                names.append(b.target.id)
            else:
                return False
        if not names or any(n not in env for n in names):
            return False
        for n in ast.walk(ast.Module(body=list(st.body), type_ignores=[])):
            if isinstance(n, (ast.Yield, ast.YieldFrom, ast.Await, ast.Lambda, ast.NamedExpr)):
                return False
        where = module.loc(st)
        if not self.truthy(self.eval(st.test, env, module), st.test):
            self.event("while", where=where, structural=False, form="scalar", node_line=st.lineno)
            return True
        before = {n: env[n] for n in names}
        n_events = len(self.events)
        self.exec_block(st.body, env, module)
        for ev in self.events[n_events:]:
            if ev.kind in SIDE_EFFECT_EVENTS or ev.kind in ("list_mutation",):
                raise AnalysisError(f"`while` loop body has a side effect ({ev.kind})", ev.where)
        for n in names:
            one = env[n]
            strlike = isinstance(one, Sym) and one.hint == "str" or type(one).__name__ == "Str" or (isinstance(one, Const) and isinstance(one.v, str))
            env[n] = Sym("iterated", n, where, _describe(before[n])[:80], _describe(one)[:120], hint="str" if strlike else None)
        self.event("while", where=where, structural=False, form="scalar", node_line=st.lineno)
        return True

    # ------------------------------------------------------------------------------------------------------------
    def _worklist_form(self, st: ast.While, env):
        if not isinstance(st.test, ast.Name):
            return "the condition is not a plain worklist name"
        if st.orelse:
            return "while/else"
        w = st.test.id
        if not (isinstance(env.get(w), PyList) and not env[w].loop_parts and getattr(env[w], "created_in", None) == self._frame_id()):
            return f"`{w}` is not a list built in this function from known items"
        if not st.body or not isinstance(st.body[0], ast.Assign) or len(st.body[0].targets) != 1:
            return "the body does not start with `<target> = W.pop()`"
        call = st.body[0].value
        if not (isinstance(call, ast.Call) and isinstance(call.func, ast.Attribute) and call.func.attr == "pop" and
                isinstance(call.func.value, ast.Name) and call.func.value.id == w and not call.keywords and
                (not call.args or (len(call.args) == 1 and isinstance(call.args[0], ast.Constant) and call.args[0].value in (0, -1)))):
            return "the body does not start with `<target> = W.pop()`"
        target = st.body[0].targets[0]
        tnames = [n.id for n in ast.walk(target) if isinstance(n, ast.Name)]
        if not tnames or any(not isinstance(n, (ast.Name, ast.Tuple, ast.List, ast.Load, ast.Store)) for n in ast.walk(target)):
            return "unsupported pop target"
        rest = st.body[1:]
        if "__yield__" in env:
            # in a generator, `yield x` as a statement is `__yield__.append(x)`: the yielded sequence is one more result list
            rest = _YieldToAppend().rewrite(rest)
        for n in ast.walk(ast.Module(body=rest, type_ignores=[])):
            if isinstance(n, (ast.Break, ast.Continue)) and not _inside_inner_loop(rest, n):
                if isinstance(n, ast.Break):
                    return "break"
            if isinstance(n, ast.While):
                return "nested while"
            if isinstance(n, ast.Name) and isinstance(n.ctx, ast.Del) and n.id in env and n.id not in tnames:
                return f"the body deletes `{n.id}`"
            if isinstance(n, ast.Call) and isinstance(n.func, ast.Attribute) and isinstance(n.func.value, ast.Name) and n.func.value.id == w \
                    and n.func.attr not in ("append", "extend"):
                return f"the worklist is modified by .{n.func.attr}()"
            if isinstance(n, (ast.Return, ast.Yield, ast.YieldFrom)):
                return "return/yield inside the loop"
        return w, target, rest

    def _result_lists(self, rest, env, wname) -> List[str]:
        names = []
        for n in ast.walk(ast.Module(body=rest, type_ignores=[])):
            if isinstance(n, ast.Name) and n.id != wname and n.id in env and isinstance(env[n.id], PyList) and \
                    getattr(env[n.id], "created_in", None) == self._frame_id() and n.id not in names:
                names.append(n.id)
        return names

    def _worklist_summary(self, st, wname, target, rest, env, module, W: PyList, others: List[str], carried: Optional[List[str]] = None) -> Dict[str, Any]:
        carried = list(carried or [])
        init_keys = tuple(sorted({repr(_class_key(i)) for i in W.items})) + tuple(repr(_class_key(env[c])) for c in carried)
        cache = self.shared.setdefault("while_summaries", {})
        ck = (module.name, st.lineno, init_keys)
        if ck in cache:
            return cache[ck]
        tnames = [n.id for n in ast.walk(target) if isinstance(n, ast.Name)]
        free = sorted({n.id for n in ast.walk(ast.Module(body=rest, type_ignores=[])) if isinstance(n, ast.Name) and n.id in env
                       and n.id not in tnames and n.id != wname and n.id not in others})
        params = ["__item__", wname] + others + free
        ret = ast.Return(value=ast.Tuple(elts=[ast.Name(id=c, ctx=ast.Load()) for c in carried], ctx=ast.Load()))
        fn = ast.FunctionDef(name="__while_body__", args=ast.arguments(posonlyargs=[], args=[ast.arg(arg=p) for p in params], kwonlyargs=[],
                                                                        kw_defaults=[], defaults=[]),
                             body=[ast.Assign(targets=[target], value=ast.Name(id="__item__", ctx=ast.Load()))] + list(rest) + [ret],
                             decorator_list=[], returns=None, type_comment=None)
        try:
            fn.type_params = []  # type: ignore[attr-defined]
        except Exception:
            pass
        ast.copy_location(fn, st)
        ast.fix_missing_locations(fn)
        cls = env.get("__class__")
        cls_q = cls.qual if hasattr(cls, "qual") else None
        classes: Dict[str, Any] = {}
        info: Dict[str, List[Dict[str, Any]]] = {}
        pending = [_class_key(i) for i in W.items]
        events = []
        seen_ev = set()
        raises: List[Tuple[V, str]] = []
        appended: Dict[str, List[V]] = {n: [] for n in others}
        # loop-carried names: the set of (classes of) values they can hold at the head of an iteration, grown to a fixpoint
        carried_vals: Dict[str, List[V]] = {c: [env[c]] for c in carried}
        carried_seen: Dict[str, set] = {c: {repr(_class_key(env[c]))} for c in carried}
        rounds_left = 8
        while pending or (carried and rounds_left and classes and self.__dict__.pop("_carried_grew", False)):
            if not pending:
                # a carried name gained a new class of value: every item class is evaluated again with it
                rounds_left -= 1
                pending = list(classes.values())
                classes = {}
                info = {}
            key = pending.pop()
            rk = repr(key)
            if rk in classes:
                continue
            if len(classes) > 64:
                raise AnalysisError("worklist loop: too many item classes", module.loc(st))
            classes[rk] = key
            child = self.__class__(self.repo, self.schema, self.kinds, tuple(self.opaque_funcs), self.summaries, self.inline_depth)
            child.shared = self.shared
            child.summarise_funcs = getattr(self, "summarise_funcs", set())
            holder: Dict[str, Any] = {}

            def setup(it, key=key):
                item = _representative(key, wname)
                wl = PyList([])
                wl.created_in = "outer"
                outs = []
                for _ in others:
                    o = PyList([])
                    o.created_in = "outer"
                    outs.append(o)
                holder["item"], holder["wl"], holder["outs"] = item, wl, outs
                from .values import AltV as _AltV
                fvals = []
                for f in free:
                    if f in carried_vals:
                        opts = carried_vals[f]
                        fvals.append(opts[0] if len(opts) == 1 else _AltV(list(opts)))
                    else:
                        fvals.append(env[f])
                return module, fn, [item, wl] + outs + fvals, {}, cls_q

            rows = []
            for p in child.explore(setup, max_paths=4000):
                # the lists of the last run are in `holder` only for the final path; recover them from the entry args instead
                args = p.entry.get("args", [])
                wl, outs = args[1], args[2:2 + len(others)]
                for ev in p.events:
                    if ev.kind in SIDE_EFFECT_EVENTS:
                        raise AnalysisError(f"worklist loop body has a side effect the summary cannot carry ({ev.kind} {ev.data.get('target', ev.data.get('attr', ''))})",
                                            ev.where)
                    if ev.kind in ("may_raise", "attr_missing", "index_maybe_out_of_range", "unpack_opaque", "unpack_unknown_len", "unpack_mismatch",
                                   "pop_maybe_empty", "recursion", "extcall", "new_node", "node_ctor_arity", "call_arity"):
                        k2 = ev.kind + repr(sorted((a, repr(b)) for a, b in ev.data.items()))
                        if k2 not in seen_ev:
                            seen_ev.add(k2)
                            events.append(ev)
                if p.outcome == "raise":
                    if not any(repr(p.value) == repr(e) for e, _ in raises):
                        raises.append((p.value, p.where))
                    continue
                if getattr(wl, "loop_parts", None) or any(getattr(o, "loop_parts", None) for o in outs):
                    raise AnalysisError("worklist loop: appends inside an inner abstract loop are not supported", module.loc(st))
                item = args[0]
                pushes = []
                for v in wl.items:
                    if not _derived_from(v, item):
                        k2 = "nd" + repr(_class_key(v))
                        if k2 not in seen_ev:
                            seen_ev.add(k2)
                            from .interp import Event
                            events.append(Event("while_not_descending", {"pushed": _describe(v)[:80], "node_line": st.lineno}, module.loc(st)))
                    pushes.append(_class_key(v))
                for name, o in zip(others, outs):
                    for v in o.items:
                        if not any(repr(v) == repr(x) for x in appended[name]):
                            appended[name].append(v)
                rows.append({"pushes": pushes, "outs": {name: len(o.items) for name, o in zip(others, outs)}})
                pending.extend(pushes)
                if carried and isinstance(p.value, PyTuple) and len(p.value.items) == len(carried):
                    for cname, cv in zip(carried, p.value.items):
                        kk = repr(_class_key(cv))
                        if kk not in carried_seen[cname]:
                            carried_seen[cname].add(kk)
                            carried_vals[cname].append(cv)
                            self._carried_grew = True
            info[rk] = rows
        # greatest fixpoint of the length lower bounds
        lb: Dict[Tuple[Any, str], int] = {}
        for rk in classes:
            for name in others:
                lb[(rk, name)] = INF
        changed = True
        rounds = 0
        while changed and rounds < 100:
            changed = False
            rounds += 1
            for rk, rows in info.items():
                for name in others:
                    best = INF
                    for r in rows:
                        tot = r["outs"][name]
                        for pk in r["pushes"]:
                            tot = min(INF, tot + lb[(repr(pk), name)])
                        best = min(best, tot)
                    if best != lb[(rk, name)]:
                        lb[(rk, name)] = best
                        changed = True
        out = {"classes": classes, "lb": {(classes[rk], name): (0 if v >= INF else v) for (rk, name), v in lb.items()},
               "appended": appended, "events": events, "raises": raises, "carried": carried_vals}
        # keys of lb are looked up by class key objects: normalise through repr
        out["lb"] = _ReprDict({(repr(k), n): v for (k, n), v in out["lb"].items()})
        cache[ck] = out
        return out


class _YieldToAppend(ast.NodeTransformer):
    def rewrite(self, stmts):
        import copy
        return [ast.fix_missing_locations(self.visit(copy.deepcopy(s))) for s in stmts]

    def visit_Expr(self, node):
        v = node.value
        if isinstance(v, ast.Yield) and v.value is not None and not any(isinstance(x, (ast.Yield, ast.YieldFrom)) for x in ast.walk(v.value)):
            call = ast.Call(func=ast.Attribute(value=ast.Name(id="__yield__", ctx=ast.Load()), attr="append", ctx=ast.Load()), args=[v.value], keywords=[])
            return ast.copy_location(ast.Expr(value=ast.copy_location(call, v)), node)
        return node

    def visit_FunctionDef(self, node):
        return node

    visit_Lambda = visit_AsyncFunctionDef = visit_FunctionDef


class _ReprDict(dict):
    def get(self, key, default=None):  # key = (class key, list name)
        return dict.get(self, (repr(key[0]), key[1]), default)


def _inside_inner_loop(body, node) -> bool:
    for st in body:
        for n in ast.walk(st):
            if isinstance(n, ast.For) and any(x is node for x in ast.walk(n)):
                return True
    return False


def _class_key(v: V):
    if isinstance(v, NodeV):
        return ("node", tuple(sorted(v.kinds)))
    if type(v).__name__ == "NewNode":
        return ("new", v.cls)
    if type(v).__name__ == "AltV":
        return ("alt", tuple(sorted(repr(_class_key(o)) for o in v.options)))
    if isinstance(v, Const):
        return ("const", repr(v.v))
    if isinstance(v, (PyTuple,)):
        return ("tuple", tuple(_class_key(x) for x in v.items))
    if isinstance(v, Sym) and v.hint == "str":
        return ("str",)
    if isinstance(v, RefV):
        return ("ref", v.qual)
    return ("opaque",)


def _representative(key, wname: str) -> V:
    tag = key[0]
    if tag == "node":
        return NodeV(f"{wname}[*]", set(key[1]))
    if tag == "new":
        return NodeV(f"{wname}[*]", {key[1]})
    if tag == "const":
        return Const(ast.literal_eval(key[1]))
    if tag == "tuple":
        return PyTuple([_representative(k, wname) for k in key[1]])
    if tag == "str":
        return Sym("wlitem", wname, hint="str")
    if tag == "ref":
        return RefV(key[1])
    return Sym("wlitem", wname)


def _derived_from(v: V, item: V) -> bool:
    """Is v (or, for tuples, one of its components, the others being constants) obtained from the popped item by attribute access?"""
    if isinstance(v, PyTuple):
        parts = [x for x in v.items if not isinstance(x, (Const, RefV))]
        return bool(parts) and all(_derived_from(x, item) for x in parts)
    roots: List[V] = []

    def collect(x):
        if isinstance(x, PyTuple):
            for y in x.items:
                collect(y)
        else:
            roots.append(x)

    collect(item)
    for r in roots:
        if isinstance(r, NodeV) and isinstance(v, NodeV):
            p = v.parent
            while p is not None:
                if p is r:
                    return True
                p = p.parent
        if isinstance(v, Sym) and v.op in ("field", "attr", "prop") and v.args:
            base = v.args[0]
            if base is r or repr(base) == repr(r) or _derived_from(base, item):
                return True
    return False
