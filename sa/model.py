"""Core A/B: source model of /repo/odata_query read from source text only.

Modules, import/alias resolution, class table with C3 MRO, method resolution through class-level
aliases, folding of module-level constants, and the AST schema (node classes, ordered fields,
properties, methods) read from odata_query/ast.py.
"""
from __future__ import annotations

import ast
import os
from dataclasses import dataclass, field
from typing import Any, Dict, Iterable, List, Optional, Tuple

from .report import AnalysisError, REPO, file_digest

PKG = "odata_query"


# --------------------------------------------------------------------------------------------
# folded values
# --------------------------------------------------------------------------------------------
@dataclass(frozen=True)
class Ref:
    """A reference to a named object: in-repo ('odata_query.ast.Attribute') or external
    ('operator.add', 'django.db.models.lookups.Exact', 're.I')."""

    qual: str

    def __repr__(self):
        return f"<{self.qual}>"

    @property
    def short(self) -> str:
        return self.qual.rsplit(".", 1)[-1]


@dataclass(frozen=True)
class Regex:
    pattern: str
    flags: Tuple[str, ...] = ()


class NotConst(Exception):
    pass


@dataclass(repr=False)
class Module:
    name: str
    path: str
    src: str
    tree: ast.Module
    imports: Dict[str, str] = field(default_factory=dict)  # local name -> qualified target
    assigns: Dict[str, List[ast.expr]] = field(default_factory=dict)  # module-level NAME = expr
    functions: Dict[str, ast.FunctionDef] = field(default_factory=dict)
    classes: Dict[str, "ClassInfo"] = field(default_factory=dict)

    @property
    def rel(self) -> str:
        r = self.__dict__.get("_rel")
        if r is None:
            r = self.__dict__["_rel"] = os.path.relpath(self.path, REPO)
        return r

    def loc(self, node: ast.AST) -> str:
        return f"{self.rel}:{getattr(node, 'lineno', 0)}"

    def __repr__(self):
        return f"Module({self.name})"


@dataclass(repr=False)
class ClassInfo:
    qual: str
    module: Module
    node: ast.ClassDef
    bases: List[str]
    methods: Dict[str, ast.FunctionDef] = field(default_factory=dict)  # last definition wins
    all_defs: List[Tuple[str, ast.AST]] = field(default_factory=list)  # body order, every def/assign
    assigns: Dict[str, ast.expr] = field(default_factory=dict)  # class-level NAME = expr

    @property
    def name(self) -> str:
        return self.qual.rsplit(".", 1)[-1]

    def __repr__(self):
        return f"ClassInfo({self.qual})"


class _ClassTable(dict):
    """qualified name -> ClassInfo. A name under which a class is merely re-exported (`from ._impl import X` in the module that
    used to define X) finds the class where it now lives."""

    def __init__(self, repo):
        super().__init__()
        self._repo = repo

    def _moved(self, key):
        if isinstance(key, str) and self._repo.modules:
            c = self._repo.canonical(key)
            if c != key and dict.__contains__(self, c):
                return c
        return None

    def __missing__(self, key):
        c = self._moved(key)
        if c is None:
            raise KeyError(key)
        return dict.__getitem__(self, c)

    def get(self, key, default=None):
        if dict.__contains__(self, key):
            return dict.__getitem__(self, key)
        c = self._moved(key)
        return dict.__getitem__(self, c) if c is not None else default

    def __contains__(self, key):
        return dict.__contains__(self, key) or self._moved(key) is not None


class Repo:
    def __init__(self, root: str = REPO):
        self.root = root
        self.modules: Dict[str, Module] = {}
        self.classes: Dict[str, ClassInfo] = _ClassTable(self)
        self._mro_cache: Dict[str, List[str]] = {}
        self._load()

    # ------------------------------------------------------------------------------------
    def _load(self):
        pkg_dir = os.path.join(self.root, PKG)
        if not os.path.isdir(pkg_dir):
            raise AnalysisError(f"package directory {pkg_dir} not found")
        for dirpath, dirnames, filenames in os.walk(pkg_dir):
            dirnames[:] = sorted(d for d in dirnames if d != "__pycache__")
            for fn in sorted(filenames):
                if not fn.endswith(".py"):
                    continue
                path = os.path.join(dirpath, fn)
                rel = os.path.relpath(path, self.root)[:-3].replace(os.sep, ".")
                if rel.endswith(".__init__"):
                    rel = rel[: -len(".__init__")]
                with open(path, encoding="utf-8") as f:
                    src = f.read()
                try:
                    tree = ast.parse(src, filename=path)
                except SyntaxError as e:
                    raise AnalysisError(f"cannot parse {path}: {e}")
                self.modules[rel] = Module(rel, path, src, tree)
        for m in self.modules.values():
            self._index_module(m)
        for m in self.modules.values():
            for c in m.classes.values():
                c.bases = [self._resolve_base(m, b) for b in c.node.bases]
        for m in self.modules.values():
            for c in m.classes.values():
                self._expand_applied_rule_decorators(m, c)
                self._expand_partialmethods(m, c)
                self._expand_method_factories(m, c)

    def _expand_applied_rule_decorators(self, m: Module, c: "ClassInfo"):
        """NAME = _(<patterns>)(<function-valued expression>) in a SLY Lexer/Parser body is the explicit application of the rule
        decorator; it is modelled by the decorated definition it abbreviates
            @_(<patterns>)
            def NAME(self, *args, **kwargs): return (<expression>)(self, *args, **kwargs)"""
        for name, value in list(c.assigns.items()):
            if not (isinstance(value, ast.Call) and len(value.args) == 1 and not value.keywords and isinstance(value.func, ast.Call)
                    and isinstance(value.func.func, ast.Name) and value.func.func.id == "_" and not isinstance(value.args[0], ast.Starred)):
                continue
            call = ast.Call(func=value.args[0], args=[ast.Name(id="self", ctx=ast.Load()), ast.Starred(value=ast.Name(id="args", ctx=ast.Load()), ctx=ast.Load())],
                            keywords=[ast.keyword(arg=None, value=ast.Name(id="kwargs", ctx=ast.Load()))])
            fn = ast.FunctionDef(name=name, args=ast.arguments(posonlyargs=[], args=[ast.arg(arg="self")], vararg=ast.arg(arg="args"),
                                                                kwonlyargs=[], kw_defaults=[], kwarg=ast.arg(arg="kwargs"), defaults=[]),
                                 body=[ast.Return(value=call)], decorator_list=[value.func], returns=None, type_comment=None)
            try:
                fn.type_params = []  # type: ignore[attr-defined]
            except Exception:
                pass
            ast.copy_location(fn, value)
            for n in ast.walk(fn):
                if not hasattr(n, "lineno"):
                    ast.copy_location(n, value)
            ast.fix_missing_locations(fn)
            c.methods[name] = fn
            del c.assigns[name]
            c.all_defs = [(n, (fn if n == name else d)) for n, d in c.all_defs]
            c.node.body = [fn if (isinstance(b, ast.Assign) and b.value is value) else b for b in c.node.body]

    def _expand_method_factories(self, m: Module, c: "ClassInfo"):
        """NAME = factory(...) in a class body, where `factory` is an in-repo function that returns a function it defines
        (a closure factory for methods), is a method; it is modelled by
            def NAME(self, *args, **kwargs): return factory(...)(self, *args, **kwargs)"""
        for name, value in list(c.assigns.items()):
            if not isinstance(value, ast.Call):
                continue
            q = self.resolve_expr(m, value.func)
            if not q or "." not in q:
                continue
            fm, fname = q.rsplit(".", 1)
            fmod = self.modules.get(fm)
            if fmod is None or fname not in fmod.functions:
                continue
            fdef = fmod.functions[fname]
            inner = {n.name for n in fdef.body if isinstance(n, ast.FunctionDef)}
            returns_inner = any(isinstance(n, ast.Return) and ((isinstance(n.value, ast.Name) and n.value.id in inner) or isinstance(n.value, ast.Lambda))
                                for n in ast.walk(fdef))
            if not returns_inner:
                continue
            call = ast.Call(func=value, args=[ast.Name(id="self", ctx=ast.Load()), ast.Starred(value=ast.Name(id="args", ctx=ast.Load()), ctx=ast.Load())],
                            keywords=[ast.keyword(arg=None, value=ast.Name(id="kwargs", ctx=ast.Load()))])
            fn = ast.FunctionDef(name=name, args=ast.arguments(posonlyargs=[], args=[ast.arg(arg="self")], vararg=ast.arg(arg="args"),
                                                                kwonlyargs=[], kw_defaults=[], kwarg=ast.arg(arg="kwargs"), defaults=[]),
                                 body=[ast.Return(value=call)], decorator_list=[], returns=None, type_comment=None)
            try:
                fn.type_params = []  # type: ignore[attr-defined]
            except Exception:
                pass
            ast.copy_location(fn, value)
            for n in ast.walk(fn):
                if not hasattr(n, "lineno"):
                    ast.copy_location(n, value)
            ast.fix_missing_locations(fn)
            c.methods[name] = fn
            del c.assigns[name]
            c.all_defs = [(n, (fn if n == name else d)) for n, d in c.all_defs]

    def _expand_partialmethods(self, m: Module, c: "ClassInfo"):
        """NAME = functools.partialmethod(TARGET, *a, **kw) in a class body is a method; it is modelled by the
        equivalent   def NAME(self, *args, **kwargs): return self.TARGET(*a, *args, **kw, **kwargs)."""
        for name, value in list(c.assigns.items()):
            if not (isinstance(value, ast.Call) and self.resolve_expr(m, value.func) == "functools.partialmethod" and value.args
                    and isinstance(value.args[0], ast.Name)):
                continue
            target = value.args[0].id
            call = ast.Call(func=ast.Attribute(value=ast.Name(id="self", ctx=ast.Load()), attr=target, ctx=ast.Load()),
                            args=list(value.args[1:]) + [ast.Starred(value=ast.Name(id="args", ctx=ast.Load()), ctx=ast.Load())],
                            keywords=[k for k in value.keywords] + [ast.keyword(arg=None, value=ast.Name(id="kwargs", ctx=ast.Load()))])
            fn = ast.FunctionDef(name=name, args=ast.arguments(posonlyargs=[], args=[ast.arg(arg="self")], vararg=ast.arg(arg="args"),
                                                                kwonlyargs=[], kw_defaults=[], kwarg=ast.arg(arg="kwargs"), defaults=[]),
                                 body=[ast.Return(value=call)], decorator_list=[], returns=None, type_comment=None)
            try:
                fn.type_params = []  # type: ignore[attr-defined]
            except Exception:
                pass
            ast.copy_location(fn, value)
            for n in ast.walk(fn):
                if not hasattr(n, "lineno"):
                    ast.copy_location(n, value)
            ast.fix_missing_locations(fn)
            c.methods[name] = fn
            del c.assigns[name]
            c.all_defs = [(n, (fn if n == name else d)) for n, d in c.all_defs]

    def _is_pkg(self, modname: str) -> bool:
        m = self.modules.get(modname)
        return bool(m and os.path.basename(m.path) == "__init__.py")

    def _index_module(self, m: Module):
        for st in self._flat_toplevel(m.tree.body):
            if isinstance(st, ast.Import):
                for a in st.names:
                    if a.asname:
                        m.imports[a.asname] = a.name
                    else:
                        m.imports[a.name.split(".")[0]] = a.name.split(".")[0]
            elif isinstance(st, ast.ImportFrom):
                base = self._abs_module(m, st.module, st.level)
                for a in st.names:
                    if a.name == "*":
                        continue
                    m.imports[a.asname or a.name] = f"{base}.{a.name}" if base else a.name
            elif isinstance(st, ast.Assign):
                for t in st.targets:
                    if isinstance(t, ast.Name):
                        m.assigns.setdefault(t.id, []).append(st.value)
                    elif isinstance(t, (ast.Tuple, ast.List)) and all(isinstance(x, ast.Name) for x in t.elts):
                        # a, b = x, y   /   a, b = value
                        for i, x in enumerate(t.elts):
                            if isinstance(st.value, (ast.Tuple, ast.List)) and len(st.value.elts) == len(t.elts) and \
                                    not any(isinstance(v, ast.Starred) for v in st.value.elts):
                                m.assigns.setdefault(x.id, []).append(st.value.elts[i])
                            else:
                                sub = ast.Subscript(value=st.value, slice=ast.Constant(value=i), ctx=ast.Load())
                                ast.copy_location(sub, st.value)
                                ast.fix_missing_locations(sub)
                                m.assigns.setdefault(x.id, []).append(sub)
            elif isinstance(st, ast.AnnAssign) and isinstance(st.target, ast.Name) and st.value is not None:
                m.assigns.setdefault(st.target.id, []).append(st.value)
            elif isinstance(st, (ast.FunctionDef, ast.AsyncFunctionDef)):
                m.functions[st.name] = st
            elif isinstance(st, ast.ClassDef):
                ci = ClassInfo(f"{m.name}.{st.name}", m, st, [])
                for b in st.body:
                    if isinstance(b, (ast.FunctionDef, ast.AsyncFunctionDef)):
                        ci.methods[b.name] = b
                        ci.all_defs.append((b.name, b))
                    elif isinstance(b, ast.Assign):
                        for t in b.targets:
                            if isinstance(t, ast.Name):
                                ci.assigns[t.id] = b.value
                                ci.all_defs.append((t.id, b))
                    elif isinstance(b, ast.AnnAssign) and isinstance(b.target, ast.Name):
                        if b.value is not None:
                            ci.assigns[b.target.id] = b.value
                        ci.all_defs.append((b.target.id, b))
                m.classes[st.name] = ci
                self.classes[ci.qual] = ci

    @staticmethod
    def _flat_toplevel(body: List[ast.stmt]) -> Iterable[ast.stmt]:
        """Module-level statements, looking through try/if blocks (import guards)."""
        for st in body:
            if isinstance(st, ast.Try):
                yield from Repo._flat_toplevel(st.body)
                for h in st.handlers:
                    yield from Repo._flat_toplevel(h.body)
                yield from Repo._flat_toplevel(st.orelse)
            elif isinstance(st, ast.If):
                yield from Repo._flat_toplevel(st.body)
                yield from Repo._flat_toplevel(st.orelse)
            else:
                yield st

    def _abs_module(self, m: Module, module: Optional[str], level: int) -> str:
        if level == 0:
            return module or ""
        parts = m.name.split(".")
        if not self._is_pkg(m.name):
            parts = parts[:-1]
        if level > 1:
            parts = parts[: len(parts) - (level - 1)]
        if module:
            parts = parts + module.split(".")
        return ".".join(parts)

    def _resolve_base(self, m: Module, b: ast.expr) -> str:
        q = self.resolve_expr(m, b)
        if q:
            return q
        import builtins
        t = ast.unparse(b)
        return f"builtins.{t}" if hasattr(builtins, t) else t

    # ------------------------------------------------------------------------------------
    # name resolution
    # ------------------------------------------------------------------------------------
    def canonical(self, qual: str, _depth: int = 0) -> str:
        """Follow re-exports inside the repo: 'odata_query.sql.AstToSqlVisitor' ->
        'odata_query.sql.base.AstToSqlVisitor'."""
        if _depth > 10:
            return qual
        parts = qual.split(".")
        for i in range(len(parts), 0, -1):
            modname = ".".join(parts[:i])
            if modname in self.modules:
                rest = parts[i:]
                if not rest:
                    return qual
                m = self.modules[modname]
                head = rest[0]
                if head in m.classes or head in m.functions or head in m.assigns:
                    return qual
                if head in m.imports:
                    return self.canonical(".".join([m.imports[head]] + rest[1:]), _depth + 1)
                sub = f"{modname}.{head}"
                if sub in self.modules:
                    continue
                return qual
        return qual

    def singledispatch_table(self, m: Module, fn) -> Optional[List[Tuple[ast.expr, Module, ast.FunctionDef]]]:
        """If the module-level function `fn` of `m` is a functools.singledispatch generic: its registrations, as
        (type expression, module of the registration, implementation), in source order; None if it is not a generic."""
        if not any(self.resolve_expr(m, d) in ("functools.singledispatch",) for d in getattr(fn, "decorator_list", []) if isinstance(d, (ast.Name, ast.Attribute))):
            return None
        key = (m.name, fn.name)
        cache = self.__dict__.setdefault("_sd_cache", {})
        if key in cache:
            return cache[key]
        gq = f"{m.name}.{fn.name}"
        out: List[Tuple[ast.expr, Module, ast.FunctionDef]] = []
        for m2 in self.modules.values():
            for st in self._flat_toplevel(m2.tree.body):
                if not isinstance(st, ast.FunctionDef):
                    continue
                for d in st.decorator_list:
                    target = d.func if isinstance(d, ast.Call) else d
                    if not (isinstance(target, ast.Attribute) and target.attr == "register"):
                        continue
                    if self.resolve_expr(m2, target.value) != gq:
                        continue
                    if isinstance(d, ast.Call) and d.args:
                        out.append((d.args[0], m2, st))
                    elif st.args.args and st.args.args[0].annotation is not None:
                        out.append((st.args.args[0].annotation, m2, st))
        cache[key] = out
        return out

    def global_def(self, modname: str, name: str, _depth: int = 0):
        """Where a module-level name is defined, following re-exports (`from ._impl import name [as alias]`):
        ('class', Module, ClassInfo) | ('function', Module, FunctionDef) | ('assign', Module, [value expressions]) | None"""
        m = self.modules.get(modname)
        if m is None or _depth > 10:
            return None
        if name in m.classes:
            return ("class", m, m.classes[name])
        if name in m.functions:
            return ("function", m, m.functions[name])
        if name in m.assigns:
            return ("assign", m, m.assigns[name])
        if name in m.imports:
            target = m.imports[name]
            if "." in target:
                tm, tn = target.rsplit(".", 1)
                if tm in self.modules:
                    return self.global_def(tm, tn, _depth + 1)
        return None

    def function(self, modname: str, name: str):
        """(Module, FunctionDef) of a module-level function, wherever a re-export leads; None if there is none"""
        d = self.global_def(modname, name)
        return (d[1], d[2]) if d and d[0] == "function" else None

    def assign(self, modname: str, name: str):
        """(Module, value expression) of a module-level constant bound exactly once, wherever a re-export leads"""
        d = self.global_def(modname, name)
        return (d[1], d[2][0]) if d and d[0] == "assign" and len(d[2]) >= 1 else None

    def resolve_name(self, m: Module, name: str) -> Optional[str]:
        if name in m.classes:
            return f"{m.name}.{name}"
        if name in m.functions:
            return f"{m.name}.{name}"
        if name in m.imports:
            return self.canonical(m.imports[name])
        if name in m.assigns:
            return f"{m.name}.{name}"
        return None

    def resolve_expr(self, m: Module, e: ast.expr) -> Optional[str]:
        """Dotted name of a Name/Attribute chain, resolved through the module's imports."""
        if isinstance(e, ast.Name):
            return self.resolve_name(m, e.id)
        if isinstance(e, ast.Attribute):
            base = self.resolve_expr(m, e.value)
            if base is None:
                return None
            return self.canonical(f"{base}.{e.attr}")
        return None

    # ------------------------------------------------------------------------------------
    # classes
    # ------------------------------------------------------------------------------------
    def mro(self, qual: str) -> List[str]:
        if qual in self._mro_cache:
            return self._mro_cache[qual]
        ci = self.classes.get(qual)
        if ci is None:
            res = [qual]
        else:
            seqs = [self.mro(b) for b in ci.bases] + [list(ci.bases)]
            res = [qual] + self._c3([list(s) for s in seqs if s])
        self._mro_cache[qual] = res
        return res

    @staticmethod
    def _c3(seqs: List[List[str]]) -> List[str]:
        out: List[str] = []
        seqs = [s for s in seqs if s]
        while seqs:
            for s in seqs:
                cand = s[0]
                if not any(cand in t[1:] for t in seqs):
                    break
            else:
                raise AnalysisError("inconsistent MRO")
            out.append(cand)
            seqs = [[x for x in s if x != cand] for s in seqs]
            seqs = [s for s in seqs if s]
        return out

    def is_subclass(self, qual: str, base: str) -> bool:
        return base in self.mro(qual)

    def lookup_attr(self, clsqual: str, name: str, _depth: int = 0) -> Optional[Tuple[ClassInfo, ast.AST]]:
        """Resolve a class attribute through the MRO; class-level aliases
        (visit_Integer = _visit_Literal) are followed to the function they name."""
        for q in self.mro(clsqual):
            ci = self.classes.get(q)
            if ci is None:
                continue
            if name in ci.methods and name in ci.assigns:
                # both a def and an assignment: the later one in body order wins
                last = [d for d in ci.all_defs if d[0] == name][-1][1]
                if isinstance(last, (ast.FunctionDef, ast.AsyncFunctionDef)):
                    return ci, last
            if name in ci.assigns:
                v = ci.assigns[name]
                if isinstance(v, ast.Name) and _depth < 5 and (v.id in ci.methods or v.id in ci.assigns):
                    r = self.lookup_attr(q, v.id, _depth + 1)
                    if r is not None:
                        return r
                return ci, v
            if name in ci.methods:
                return ci, ci.methods[name]
        return None

    def lookup_method(self, clsqual: str, name: str) -> Optional[Tuple[ClassInfo, ast.FunctionDef]]:
        r = self.lookup_attr(clsqual, name)
        if r and isinstance(r[1], (ast.FunctionDef, ast.AsyncFunctionDef)):
            return r  # type: ignore
        return None

    def all_method_names(self, clsqual: str) -> List[str]:
        names: List[str] = []
        for q in self.mro(clsqual):
            ci = self.classes.get(q)
            if ci is None:
                continue
            for n, _ in ci.all_defs:
                if n not in names:
                    names.append(n)
        return names

    def subclasses(self, base: str) -> List[str]:
        return [q for q in self.classes if q != base and base in self.mro(q)]

    # ------------------------------------------------------------------------------------
    # constant folding
    # ------------------------------------------------------------------------------------
    def fold(self, m: Module, e: ast.expr, _depth: int = 0, env: Optional[Dict[str, Any]] = None) -> Any:
        """Syntactic folding first; what it cannot fold (helper calls, comprehensions, dict unpacking, ...) is handed to
        the abstract interpreter, which must reach a single concrete value without any choice."""
        try:
            return self._fold(m, e, _depth, env)
        except NotConst as ex:
            if _depth > 0 or env:
                raise
            try:
                return self._fold_interp(m, e)
            except NotConst as ex2:
                raise NotConst(f"{ex}" + (f"; by evaluation: {ex2}" if str(ex2) else ""))

    _folding: set = set()
    _modvals: Dict[str, Any] = {}

    def module_values(self, m: Module) -> Optional[Dict[str, Any]]:
        """The module's global constants after its top-level statements ran in order (so `TABLE.update(...)`,
        `TABLE[k] = v`, tuple assignments, helper calls and comprehensions are accounted for). Only names whose final
        value is fully concrete and was reached without any choice are present; None while being computed."""
        if m.name in self._modvals:
            return self._modvals[m.name]
        self._modvals[m.name] = None  # in progress: lookups fall back to the syntactic definitions
        from .interp import Interp, KindEnv, PathAbort, _Raise
        from .report import AnalysisError
        from .values import FuncV, RefV
        schema = getattr(self, "_schema_for_fold", None)
        if schema is None:
            schema = Schema(self)
            self._schema_for_fold = schema
        it = Interp(self, schema, KindEnv(schema))
        it._reset([])
        it.stack = [("<module>", m)]
        env: Dict[str, Any] = {}
        poisoned: set = set()

        def stored(st) -> set:
            out = set()
            for n in ast.walk(st):
                if isinstance(n, ast.Name) and isinstance(n.ctx, (ast.Store, ast.Del)):
                    out.add(n.id)
                elif isinstance(n, ast.Name) and isinstance(n.ctx, ast.Load):
                    out.add(n.id)  # receivers of mutating calls / subscript stores
            return out

        for st in m.tree.body:
            if isinstance(st, ast.ClassDef):
                env[st.name] = RefV(f"{m.name}.{st.name}")
                continue
            if isinstance(st, (ast.FunctionDef, ast.AsyncFunctionDef)):
                env[st.name] = FuncV(m, st)
                continue
            if isinstance(st, (ast.Import, ast.ImportFrom)):
                continue
            if isinstance(st, ast.Expr) and isinstance(st.value, ast.Constant):
                continue
            before = len(it.trace)
            try:
                it.exec_stmt(st, env, m)
                ok = len(it.trace) == before
            except (AnalysisError, _Raise, PathAbort, RecursionError, Exception):
                ok = False
            if not ok:
                touched = stored(st) & (set(m.assigns) | set(env))
                poisoned |= touched
                it.trace = it.trace[:before]
        out: Dict[str, Any] = {}
        for k, v in env.items():
            if k in poisoned or k not in m.assigns:
                continue
            try:
                out[k] = _to_py(v)
            except NotConst:
                pass
        self._modvals[m.name] = out
        return out

    def _fold_interp(self, m: Module, e: ast.expr) -> Any:
        key = (m.name, ast.dump(e))
        if key in self._folding:
            raise NotConst("cyclic")
        self._folding.add(key)
        try:
            from .interp import Interp, KindEnv, PathAbort, _Raise  # late: interp imports model
            from .report import AnalysisError
            schema = getattr(self, "_schema_for_fold", None)
            if schema is None:
                schema = Schema(self)
                self._schema_for_fold = schema
            it = Interp(self, schema, KindEnv(schema))
            it._reset([])
            it.stack = [("<fold>", m)]
            try:
                v = it.eval(e, {}, m)
            except (AnalysisError, _Raise, PathAbort, RecursionError) as ex:
                raise NotConst(f"{type(ex).__name__}: {ex}"[:160])
            if it.trace:
                raise NotConst("value depends on a choice")
            return _to_py(v)
        finally:
            self._folding.discard(key)

    def _fold(self, m: Module, e: ast.expr, _depth: int = 0, env: Optional[Dict[str, Any]] = None) -> Any:
        if _depth > 20:
            raise NotConst("too deep")
        f = lambda x: self._fold(m, x, _depth + 1, env)  # noqa: E731
        if isinstance(e, ast.Constant):
            return e.value
        if isinstance(e, ast.JoinedStr):
            out = []
            for v in e.values:
                if isinstance(v, ast.Constant):
                    out.append(str(v.value))
                elif isinstance(v, ast.FormattedValue) and v.format_spec is None and v.conversion == -1:
                    s = f(v.value)
                    if not isinstance(s, (str, int)):
                        raise NotConst("fstring part")
                    out.append(str(s))
                else:
                    raise NotConst("fstring")
            return "".join(out)
        if isinstance(e, ast.BinOp) and isinstance(e.op, ast.Add):
            l, r = f(e.left), f(e.right)
            if isinstance(l, str) and isinstance(r, str):
                return l + r
            if isinstance(l, tuple) and isinstance(r, tuple):
                return l + r
            if isinstance(l, (int, float)) and isinstance(r, (int, float)) and not isinstance(l, bool):
                return l + r
            raise NotConst("add")
        if isinstance(e, ast.BinOp) and isinstance(e.op, ast.BitOr):
            l, r = f(e.left), f(e.right)
            if isinstance(l, Ref) and isinstance(r, Ref):
                return Ref(l.qual + "|" + r.qual)
            raise NotConst("bitor")
        if isinstance(e, ast.Tuple):
            return tuple(f(x) for x in e.elts)
        if isinstance(e, ast.List):
            return [f(x) for x in e.elts]
        if isinstance(e, ast.Set):
            return frozenset(f(x) for x in e.elts)
        if isinstance(e, ast.Dict):
            d = {}
            for k, v in zip(e.keys, e.values):
                if k is None:
                    raise NotConst("dict unpack")
                d[f(k)] = f(v)
            return d
        if isinstance(e, ast.UnaryOp) and isinstance(e.op, ast.Not):
            v = f(e.operand)
            if isinstance(v, (bool, int, str, tuple)) or v is None:
                return not v
            raise NotConst("not")
        if isinstance(e, ast.BoolOp):
            # short-circuit: decided by a constant operand that settles it before any non-constant one is needed
            is_and = isinstance(e.op, ast.And)
            last = None
            for x in e.values:
                last = f(x)
                if not (isinstance(last, (bool, int, str, tuple)) or last is None):
                    raise NotConst("boolop operand")
                if bool(last) != is_and:
                    return last
            return last
        if isinstance(e, ast.UnaryOp) and isinstance(e.op, ast.USub):
            v = f(e.operand)
            if isinstance(v, (int, float)):
                return -v
            raise NotConst("usub")
        if isinstance(e, ast.Name):
            if env and e.id in env:
                return env[e.id]
            if e.id in ("True", "False", "None"):
                return {"True": True, "False": False, "None": None}[e.id]
            if e.id in m.assigns:
                mv = self.module_values(m)
                if mv is not None and e.id in mv:
                    return mv[e.id]
                vals = m.assigns[e.id]
                if len(vals) != 1:
                    raise NotConst(f"{e.id} assigned {len(vals)} times")
                return self.fold(m, vals[0], _depth + 1)
            q = self.resolve_name(m, e.id)
            if q:
                return self._fold_qual(q, _depth)
            raise NotConst(f"name {e.id}")
        if isinstance(e, ast.Attribute):
            bq = self.resolve_expr(m, e.value)
            if bq and "." in bq:
                bm, bn = bq.rsplit(".", 1)
                if bm in self.modules and bn in self.modules[bm].assigns and bn not in self.modules[bm].classes:
                    raise NotConst("attribute of a module-level value")  # evaluated, not named
            q = self.resolve_expr(m, e)
            if q:
                return self._fold_qual(q, _depth)
            raise NotConst("attr")
        if isinstance(e, ast.Call):
            q = self.resolve_expr(m, e.func)
            if q == "re.compile" and e.args:
                pat = f(e.args[0])
                flags: Tuple[str, ...] = ()
                if len(e.args) > 1:
                    fl = f(e.args[1])
                    flags = tuple(fl.qual.split("|")) if isinstance(fl, Ref) else ()
                for kw in e.keywords:
                    if kw.arg == "flags":
                        fl = f(kw.value)
                        flags = tuple(fl.qual.split("|")) if isinstance(fl, Ref) else ()
                if isinstance(pat, str):
                    return Regex(pat, flags)
            if isinstance(e.func, ast.Name) and e.func.id == "tuple" and len(e.args) == 1:
                return tuple(f(e.args[0]))
            raise NotConst("call")
        if isinstance(e, ast.Subscript):
            base = f(e.value)
            idx = f(e.slice)
            try:
                return base[idx]
            except Exception:
                raise NotConst("subscript")
        if isinstance(e, ast.Compare) and len(e.ops) == 1:
            l, r = f(e.left), f(e.comparators[0])
            op = e.ops[0]
            try:
                if isinstance(op, ast.Lt):
                    return l < r
                if isinstance(op, ast.LtE):
                    return l <= r
                if isinstance(op, ast.Gt):
                    return l > r
                if isinstance(op, ast.GtE):
                    return l >= r
                if isinstance(op, ast.Eq):
                    return l == r
                if isinstance(op, ast.NotEq):
                    return l != r
            except Exception:
                pass
            raise NotConst("compare")
        raise NotConst(type(e).__name__)

    def _fold_qual(self, q: str, _depth: int) -> Any:
        parts = q.rsplit(".", 1)
        if len(parts) == 2 and parts[0] in self.modules:
            mod = self.modules[parts[0]]
            name = parts[1]
            if name in mod.classes or name in mod.functions:
                return Ref(q)
            if name in mod.assigns:
                vals = mod.assigns[name]
                if len(vals) == 1:
                    try:
                        return self.fold(mod, vals[0], _depth + 1)
                    except NotConst:
                        return Ref(q)
        ext = self.external_const(q)
        if ext is not NotConst:
            return ext
        return Ref(q)

    # configuration constants folded from the *installed* dependency's source
    _ext_cache: Dict[str, Any] = {}

    def external_const(self, q: str) -> Any:
        if q in self._ext_cache:
            return self._ext_cache[q]
        val: Any = NotConst
        if q == "django.VERSION":
            val = _read_django_version()
        elif q in _STDLIB_CONSTANTS:
            val = _STDLIB_CONSTANTS[q]
        self._ext_cache[q] = val
        return val

    def digests(self) -> Dict[str, str]:
        return {m.rel: file_digest(m.path) for m in self.modules.values()}


# documented constants of the standard library (their values are part of the language documentation)
_STDLIB_CONSTANTS = {
    "string.ascii_lowercase": "abcdefghijklmnopqrstuvwxyz",
    "string.ascii_uppercase": "ABCDEFGHIJKLMNOPQRSTUVWXYZ",
    "string.ascii_letters": "abcdefghijklmnopqrstuvwxyzABCDEFGHIJKLMNOPQRSTUVWXYZ",
    "string.digits": "0123456789",
    "string.hexdigits": "0123456789abcdefABCDEF",
    "string.octdigits": "01234567",
    "string.punctuation": "!\"#$%&'()*+,-./:;<=>?@[\\]^_`{|}~",
    "string.whitespace": " \t\n\r\x0b\x0c",
}


def _read_django_version() -> Any:
    import importlib.util

    spec = importlib.util.find_spec("django")
    if spec is None or not spec.origin:
        return NotConst
    try:
        tree = ast.parse(open(spec.origin, encoding="utf-8").read())
    except Exception:
        return NotConst
    for st in tree.body:
        if isinstance(st, ast.Assign) and any(isinstance(t, ast.Name) and t.id == "VERSION" for t in st.targets):
            try:
                return ast.literal_eval(st.value)
            except Exception:
                return NotConst
    return NotConst


# --------------------------------------------------------------------------------------------
# Core B: AST schema
# --------------------------------------------------------------------------------------------
@dataclass
class FieldInfo:
    name: str
    annotation: str
    shape: str  # 'node' | 'optional_node' | 'list_node' | 'scalar' | 'tuple_scalar' | 'other'
    node_type: Optional[str]  # referenced node class (short name) for node-bearing shapes
    has_default: bool
    compare: bool = True
    lineno: int = 0


@dataclass
class NodeClass:
    name: str
    qual: str
    bases: List[str]  # short names, in-schema
    fields: List[FieldInfo]  # ordered, including inherited
    own_fields: List[FieldInfo]
    frozen: bool
    eq: bool
    is_dataclass: bool
    properties: List[str]
    methods: List[str]
    custom_dunder: List[str]
    lineno: int
    abstract: bool = False  # leading underscore

    def field(self, name: str) -> Optional[FieldInfo]:
        for f in self.fields:
            if f.name == name:
                return f
        return None


class Schema:
    """Node classes of odata_query/ast.py."""

    AST_MODULE = f"{PKG}.ast"

    def __init__(self, repo: Repo):
        self.repo = repo
        if self.AST_MODULE not in repo.modules:
            raise AnalysisError("odata_query/ast.py not found")
        self.module = repo.modules[self.AST_MODULE]
        self.classes: Dict[str, NodeClass] = {}
        self._build()

    def _build(self):
        m = self.module
        root = f"{self.AST_MODULE}._Node"
        if root not in self.repo.classes:
            raise AnalysisError("ast._Node not found", m.rel)
        order = [c for c in m.classes.values()]
        for ci in order:
            if root not in self.repo.mro(ci.qual):
                continue
            is_dc, frozen, eq = self._dataclass_args(ci)
            own: List[FieldInfo] = []
            props: List[str] = []
            meths: List[str] = []
            dunder: List[str] = []
            for st in ci.node.body:
                if isinstance(st, ast.AnnAssign) and isinstance(st.target, ast.Name):
                    head = st.annotation.value if isinstance(st.annotation, ast.Subscript) else st.annotation
                    hq = self.repo.resolve_expr(ci.module, head) if isinstance(head, (ast.Name, ast.Attribute)) else None
                    if hq == "typing.ClassVar" or (isinstance(st.annotation, ast.Constant) and str(st.annotation.value).startswith(("ClassVar", "typing.ClassVar"))):
                        continue  # a class variable is not a dataclass field
                    own.append(self._field(st))
                elif isinstance(st, ast.FunctionDef):
                    decos = [ast.unparse(d) for d in st.decorator_list]
                    if "property" in decos:
                        props.append(st.name)
                    else:
                        meths.append(st.name)
                    if st.name.startswith("__") and st.name.endswith("__"):
                        dunder.append(st.name)
            self.classes[ci.name] = NodeClass(
                ci.name, ci.qual, [b.rsplit(".", 1)[-1] for b in ci.bases], [], own, frozen, eq, is_dc,
                props, meths, dunder, ci.node.lineno, ci.name.startswith("_"))
        # inherited fields/properties in MRO order (base first, as dataclasses does)
        for name, nc in self.classes.items():
            fields: List[FieldInfo] = []
            allprops: List[str] = []
            allmeths: List[str] = []
            for q in reversed(self.repo.mro(nc.qual)):
                b = self.classes.get(q.rsplit(".", 1)[-1])
                if (b is None or b.qual != q) and q in self.repo.classes:
                    # an in-repo mixin that is not itself a node class: its properties and methods are inherited all the same
                    for mname, mdef in self.repo.classes[q].methods.items():
                        decos = [ast.unparse(d) for d in mdef.decorator_list]
                        if "property" in decos or "functools.cached_property" in decos or "cached_property" in decos:
                            if mname not in allprops:
                                allprops.append(mname)
                        elif mname not in allmeths:
                            allmeths.append(mname)
                    continue
                if b is None or b.qual != q:
                    continue
                for f in b.own_fields:
                    fields = [x for x in fields if x.name != f.name] + [f]
                allprops += [p for p in b.properties if p not in allprops]
                allmeths += [p for p in b.methods if p not in allmeths]
            nc.fields = fields
            nc.properties = allprops
            nc.methods = allmeths

    def _dataclass_args(self, ci: ClassInfo) -> Tuple[bool, bool, bool]:
        is_dc = False
        frozen = False
        eq = True
        for d in ci.node.decorator_list:
            kws = self._dataclass_kwargs(ci.module, d, applied=True)
            if kws is not None:
                is_dc = True
                if "frozen" in kws:
                    frozen = isinstance(kws["frozen"], ast.Constant) and kws["frozen"].value is True
                if "eq" in kws:
                    eq = not (isinstance(kws["eq"], ast.Constant) and kws["eq"].value is False)
        return is_dc, frozen, eq

    def _dataclass_kwargs(self, module, d: ast.expr, applied: bool, depth: int = 0) -> Optional[Dict[str, ast.expr]]:
        """The keyword arguments with which `d`, used as a class decorator, applies dataclasses.dataclass; None when it does not.
        Recognised: dataclass, dataclass(**kw), functools.partial(dataclass, **kw), a module-level name bound once to one of
        these, and such a name called with more keywords."""
        if depth > 4:
            return None
        if isinstance(d, ast.Name) and d.id in module.assigns and len(module.assigns[d.id]) == 1 and d.id not in module.classes \
                and d.id not in module.functions:
            return self._dataclass_kwargs(module, module.assigns[d.id][0], applied, depth + 1)
        q = self.repo.resolve_expr(module, d) if isinstance(d, (ast.Name, ast.Attribute)) else None
        if q == "dataclasses.dataclass":
            return {}
        if isinstance(d, ast.Call) and not any(k.arg is None for k in d.keywords):
            fq = self.repo.resolve_expr(module, d.func) if isinstance(d.func, (ast.Name, ast.Attribute)) else None
            kw = {k.arg: k.value for k in d.keywords}
            if fq == "dataclasses.dataclass" and not d.args:
                return kw
            if fq == "functools.partial" and len(d.args) == 1:
                inner = self._dataclass_kwargs(module, d.args[0], applied, depth + 1)
                return None if inner is None else {**inner, **kw}
            if not d.args and isinstance(d.func, ast.Name):
                inner = self._dataclass_kwargs(module, d.func, applied, depth + 1)
                return None if inner is None else {**inner, **kw}
        return None

    def _field(self, st: ast.AnnAssign) -> FieldInfo:
        ann = ast.unparse(st.annotation)
        shape, nt = self._shape(st.annotation)
        compare = True
        if isinstance(st.value, ast.Call):
            for kw in st.value.keywords:
                if kw.arg == "compare" and isinstance(kw.value, ast.Constant) and kw.value.value is False:
                    compare = False
        return FieldInfo(st.target.id, ann, shape, nt, st.value is not None, compare, st.lineno)  # type: ignore

    def _is_node_name(self, e: ast.expr) -> Optional[str]:
        if isinstance(e, ast.Name) and e.id in self.module.classes:
            q = f"{self.AST_MODULE}.{e.id}"
            if f"{self.AST_MODULE}._Node" in self.repo.mro(q):
                return e.id
        if isinstance(e, ast.Constant) and isinstance(e.value, str) and e.value in self.module.classes:
            return e.value
        return None

    def _shape(self, ann: ast.expr) -> Tuple[str, Optional[str]]:
        n = self._is_node_name(ann)
        if n:
            return "node", n
        if isinstance(ann, ast.Subscript):
            head = self.repo.resolve_expr(self.module, ann.value) or ast.unparse(ann.value)
            inner = ann.slice
            if head in ("typing.Optional",):
                n = self._is_node_name(inner)
                if n:
                    return "optional_node", n
                return ("other" if self._mentions_node(inner) else "scalar"), None
            if head in ("typing.List", "list", "builtins.list"):
                n = self._is_node_name(inner)
                if n:
                    return "list_node", n
                return ("other" if self._mentions_node(inner) else "scalar"), None
            if head in ("typing.Tuple", "tuple"):
                if self._mentions_node(inner):
                    return "other", None
                return "tuple_scalar", None
            if self._mentions_node(inner):
                return "other", None
            return "scalar", None
        if self._mentions_node(ann):
            return "other", None
        return "scalar", None

    def _mentions_node(self, e: ast.AST) -> bool:
        return any(self._is_node_name(x) for x in ast.walk(e) if isinstance(x, (ast.Name, ast.Constant)))

    # -- queries -------------------------------------------------------------------------
    def concrete(self) -> List[str]:
        return [n for n, c in self.classes.items() if not c.abstract]

    def subclasses_of(self, name: str) -> List[str]:
        """Concrete (non-underscore) classes that are `name` or derive from it."""
        base = self.classes.get(name)
        if base is None:
            return []
        out = []
        for n, c in self.classes.items():
            if c.abstract:
                continue
            if base.qual in self.repo.mro(c.qual):
                out.append(n)
        return out

    def is_sub(self, name: str, base: str) -> bool:
        a, b = self.classes.get(name), self.classes.get(base)
        return bool(a and b and b.qual in self.repo.mro(a.qual))

    def has_attr(self, kind: str, attr: str) -> bool:
        c = self.classes.get(kind)
        if c is None:
            return False
        return any(f.name == attr for f in c.fields) or attr in c.properties or attr in c.methods


def _to_py(v) -> Any:
    """Abstract value -> the constant it denotes (NotConst when it is not fully concrete)."""
    from .values import Const, PyDict, PyList, PyTuple, RefV, Str, Sym
    if isinstance(v, Const):
        return v.v
    if isinstance(v, Str):
        if v.is_const():
            return v.const()
        raise NotConst("string not constant")
    if isinstance(v, RefV):
        return Ref(v.qual)
    if isinstance(v, PyTuple):
        return tuple(_to_py(x) for x in v.items)
    if isinstance(v, PyList):
        if getattr(v, "loop_parts", None):
            raise NotConst("abstract list")
        return [_to_py(x) for x in v.items]
    if isinstance(v, PyDict):
        if v.opaque_keys:
            raise NotConst("dict with non-constant keys")
        out = {}
        for k, x in v.items.items():
            out[k[1] if k[0] == "c" else Ref(k[1])] = _to_py(x)
        return out
    if isinstance(v, Sym) and v.op == "call" and isinstance(v.args[0], RefV) and v.args[0].qual == "re.compile":
        a = [_to_py(x) for x in v.args[1]]
        kw = {k: _to_py(x) for k, x in (v.args[2] or ())} if len(v.args) > 2 else {}
        fl = a[1] if len(a) > 1 else kw.get("flags")
        flags = tuple(fl.qual.split("|")) if isinstance(fl, Ref) else ()
        if a and isinstance(a[0], str):
            return Regex(a[0], flags)
    if isinstance(v, Sym) and v.op == "set":
        return frozenset(_to_py(x) for x in v.args[0])
    raise NotConst(f"not a constant: {type(v).__name__}")
