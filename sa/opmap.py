"""Operator classes <-> tokens <-> productions, and the parser's decision relation (from Core E/F)."""
from __future__ import annotations

from dataclasses import dataclass
from typing import Dict, Optional, Tuple

from .props import oracles as O


@dataclass
class OpMap:
    token_of: Dict[str, str]  # AST operator class -> token name
    class_of: Dict[str, str]  # token name -> AST operator class
    prod_of: Dict[str, int]  # AST operator class -> production index
    decision: Dict[Tuple[str, str], str]  # (production's operator class, look-ahead operator class) -> reduce|shift|error


def build(env) -> OpMap:
    g = env.grammar
    kf = env.kindflow
    class_of: Dict[str, str] = {}
    for r in g.rules:
        sh = kf.token_shapes.get(r.name, set())
        ks = {s[1] for s in sh if s[0] == "node"}
        if len(ks) == 1 and len(sh) == 1:
            k = next(iter(ks))
            if k in O.ODATA_OPERATORS:
                class_of[r.name] = k
    token_of = {c: t for t, c in class_of.items()}
    prod_of: Dict[str, int] = {}
    for p in g.productions:
        ops = [s for s in p.syms if s in class_of]
        if len(ops) == 1:
            prod_of.setdefault(class_of[ops[0]], p.index)
    decision: Dict[Tuple[str, str], str] = {}
    idx_class = {i: c for c, i in prod_of.items()}
    for d in env.tables.decisions:
        pc = idx_class.get(d.production.index)
        lc = class_of.get(d.terminal)
        if pc and lc:
            decision[(pc, lc)] = d.resolution
    return OpMap(token_of, class_of, prod_of, decision)


def get(env) -> OpMap:
    m = getattr(env, "_opmap", None)
    if m is None:
        m = build(env)
        env._opmap = m
    return m
